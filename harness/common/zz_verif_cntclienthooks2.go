//go:build verif

package container

import (
	cid "github.com/nspcc-dev/neofs-sdk-go/container/id"
	"github.com/nspcc-dev/neofs-sdk-go/user"
)

// VerifHookList models listing containers from the Container contract. The
// real method is renamed to List__real.
var VerifHookList func() ([]cid.ID, error)

func (c *Client) List(idUser *user.ID) ([]cid.ID, error) {
	if h := VerifHookList; h != nil {
		return h()
	}
	return c.List__real(idUser)
}
