//go:build verif

package engine

import (
	"errors"
	"fmt"

	"github.com/nspcc-dev/neofs-node/internal/vrt"
	"github.com/nspcc-dev/neofs-node/pkg/local_object_storage/shard"
	"github.com/nspcc-dev/neofs-node/pkg/local_object_storage/shard/mode"
	apistatus "github.com/nspcc-dev/neofs-sdk-go/client/status"
	"github.com/nspcc-dev/neofs-sdk-go/container"
	cid "github.com/nspcc-dev/neofs-sdk-go/container/id"
	"go.uber.org/zap"
)

// answer classes of the container source
const (
	c47Found = iota
	c47NotFound
	c47NotFoundWrapped
	c47OtherErr
	c47Classes
)

type c47Source struct{ class [2]int }

func (s *c47Source) Get(c cid.ID) (container.Container, error) {
	switch s.class[int(c[0])] {
	case c47Found:
		return container.Container{}, nil
	case c47NotFound:
		return container.Container{}, apistatus.ErrContainerNotFound
	case c47NotFoundWrapped:
		return container.Container{}, fmt.Errorf("reading container: %w", apistatus.ContainerNotFound{})
	}
	return container.Container{}, errors.New("transient source failure")
}

// VerifC47NotFound: engine start-up cleanup discards a container exactly when
// the container source definitively reports it absent.
func VerifC47NotFound() {
	src := &c47Source{}
	var inhumed [2]int
	for i := range src.class {
		src.class[i] = vrt.Choice("sourceAnswer", c47Classes)
	}
	listErr := vrt.Bool("listErr")
	inhumeErr := vrt.Bool("inhumeErr")
	shard.VerifHookListContainers = func(s *shard.Shard) ([]cid.ID, error) {
		if listErr {
			return nil, errors.New("list failed")
		}
		return []cid.ID{{byte(s.VerifIndex())}}, nil
	}
	shard.VerifHookInhumeContainer = func(s *shard.Shard, c cid.ID) error {
		inhumed[int(c[0])]++
		if inhumeErr {
			return errors.New("inhume failed")
		}
		return nil
	}
	e := &StorageEngine{cfg: &cfg{log: zap.NewNop(), containerSource: src}, shards: map[string]shardWrapper{}}
	for i := 0; i < 2; i++ {
		sh := shard.VerifNewModelShard(byte(i), mode.ReadWrite)
		e.shards[sh.ID().String()] = shardWrapper{Shard: sh, engine: e}
	}
	err := e.deleteNotFoundContainers()
	for i := 0; i < 2; i++ {
		gone := src.class[i] == c47NotFound || src.class[i] == c47NotFoundWrapped
		if !gone || listErr {
			vrt.Assert(inhumed[i] == 0, "found containers, transient source errors and list errors never discard a container")
		} else if !inhumeErr {
			vrt.Assert(inhumed[i] == 1, "a container the source definitively reports absent is discarded")
		}
	}
	if listErr {
		vrt.Assert(err != nil, "list error is reported")
	}
	vrt.Reach("end")
}
