//go:build verif

package acl

import (
	"context"
	"errors"
	"github.com/nspcc-dev/neofs-sdk-go/user"

	"github.com/nspcc-dev/neofs-node/internal/vrt"
	"github.com/nspcc-dev/neofs-node/pkg/local_object_storage/engine"
	v2 "github.com/nspcc-dev/neofs-node/pkg/services/object/acl/v2"
	"github.com/nspcc-dev/neofs-sdk-go/bearer"
	apistatus "github.com/nspcc-dev/neofs-sdk-go/client/status"
	"github.com/nspcc-dev/neofs-sdk-go/container"
	"github.com/nspcc-dev/neofs-sdk-go/container/acl"
	cid "github.com/nspcc-dev/neofs-sdk-go/container/id"
	"github.com/nspcc-dev/neofs-sdk-go/eacl"
	oid "github.com/nspcc-dev/neofs-sdk-go/object/id"
)

var c28 struct {
	srcAnswer  int // 0 table, 1 not found, 2 other error
	srcAsked   int
	evaluated  int
	usedBearer bool
	action     eacl.Action
	final      bool
	evalErr    bool
}

type c28src struct{}

func c28table(marker byte) eacl.Table {
	var t eacl.Table
	var c cid.ID
	c[0] = marker
	t.SetCID(c)
	return t
}

func (c28src) GetEACL(cid.ID) (eacl.Table, error) {
	c28.srcAsked++
	switch c28.srcAnswer {
	case 1:
		return eacl.Table{}, apistatus.ErrEACLNotFound
	case 2:
		return eacl.Table{}, errors.New("chain is unavailable")
	}
	return c28table(0x51), nil // the stored table
}

// c28derived models "the account is the one derived from this public key"
// (elliptic-curve decoding and hashing). The real function is renamed to
// isOwnerFromKey__real.
var c28derived func(user.ID, []byte) bool

func isOwnerFromKey(id user.ID, key []byte) bool {
	if h := c28derived; h != nil {
		return h(id, key)
	}
	return isOwnerFromKey__real(id, key)
}

var c28ops = [...]acl.Op{acl.OpObjectGet, acl.OpObjectHead, acl.OpObjectPut, acl.OpObjectDelete, acl.OpObjectSearch, acl.OpObjectRange, acl.OpObjectHash}
var c28roles = [...]acl.Role{acl.RoleOwner, acl.RoleContainer, acl.RoleInnerRing, acl.RoleOthers}

// VerifC28ExtendedACL: the extended ACL decision for every basic ACL word (32
// symbolic bits), operation, requester role, bearer token present or not and
// every answer of the table source and of the table evaluation.
func VerifC28ExtendedACL() {
	var b acl.Basic
	b.FromBits(vrt.U32("basicACL"))
	op := c28ops[vrt.Choice("operation", len(c28ops))]
	role := c28roles[vrt.Choice("role", len(c28roles))]
	var cnr container.Container
	cnr.SetBasicACL(b)
	info := v2.RequestInfo{RequestRole: role, Operation: op, Container: cnr, SenderKey: []byte{1}}
	withAccount := vrt.Bool("senderAccountKnown")
	var acc user.ID
	acc[0], acc[1] = 0x35, 7
	if withAccount {
		info.SenderAccount = &acc
	}
	// the account may or may not be the one derived from the sender key (it is
	// not for N3 witnesses and for session issuers)
	derived := vrt.Bool("senderAccountDerivedFromSenderKey")
	c28derived = func(user.ID, []byte) bool { return derived }
	defer func() { c28derived = nil }()
	var gotKey, gotAcc []byte
	eacl.VerifHookUnit = func(k, a []byte) { gotKey, gotAcc = k, a }
	withBearer := vrt.Bool("bearerTokenPresent")
	if withBearer {
		var bt bearer.Token
		bt.SetEACLTable(c28table(0xBE))
		info.Bearer = &bt
	}
	c28.srcAnswer = vrt.Choice("storedTable", 3)
	c28.srcAsked, c28.evaluated, c28.usedBearer = 0, 0, false
	c28.action = eacl.ActionAllow
	if vrt.Bool("tableDenies") {
		c28.action = eacl.ActionDeny
	}
	c28.final = vrt.Bool("ruleMatched")
	c28.evalErr = vrt.Bool("evaluationFails")
	eacl.VerifHookCalculateAction = func(t *eacl.Table, _ eacl.Role, _ eacl.Operation) (eacl.Action, bool, error) {
		c28.evaluated++
		id := t.GetCID()
		c28.usedBearer = id[0] == 0xBE
		if c28.evalErr {
			return eacl.ActionUnspecified, false, errors.New("header source failed")
		}
		return c28.action, c28.final, nil
	}
	c := &Checker{eaclSrc: c28src{}, validator: eacl.NewValidator(), localStorage: new(engine.StorageEngine)}
	var cn cid.ID
	var ob oid.ID
	err := c.CheckEACL(context.Background(), []byte{}, cn, ob, info)

	system := role == acl.RoleContainer || role == acl.RoleInnerRing
	if !b.Extendable() || system {
		vrt.Assert(err == nil && c28.evaluated == 0 && c28.srcAsked == 0, "without an extendable basic ACL, and for system roles, no table is consulted")
		vrt.Reach("not-extendable")
		eacl.VerifHookCalculateAction = nil
		return
	}
	bearerApplies := withBearer && b.AllowedBearerRules(op)
	if bearerApplies {
		vrt.Assert(c28.srcAsked == 0 && c28.evaluated == 1 && c28.usedBearer, "the bearer token's table is used when bearer rules are allowed for the operation")
	} else {
		vrt.Assert(c28.srcAsked == 1, "otherwise the container's stored table is consulted")
		if c28.srcAnswer == 1 {
			vrt.Assert(err == nil && c28.evaluated == 0, "no stored table: the request follows the basic ACL")
			eacl.VerifHookCalculateAction = nil
			return
		}
		if c28.srcAnswer == 2 {
			vrt.Assert(err != nil && c28.evaluated == 0, "a failing table source is an error, never an allow")
			eacl.VerifHookCalculateAction = nil
			return
		}
		vrt.Assert(c28.evaluated == 1 && !c28.usedBearer, "the stored table is the one evaluated")
	}
	vrt.Assert(len(gotKey) == 1 && gotKey[0] == 1, "the table is evaluated for the request's sender key")
	if withAccount {
		vrt.Assert(len(gotAcc) == len(acc) && gotAcc[1] == 7, "the table is evaluated for the request's sender account")
	}
	switch {
	case c28.evalErr:
		vrt.Assert(err != nil && !errors.Is(err, v2.ErrNotMatched), "an evaluation failure is an error")
	case !c28.final:
		vrt.Assert(errors.Is(err, v2.ErrNotMatched), "no matching rule is reported as not matched")
	case c28.action == eacl.ActionAllow:
		vrt.Assert(err == nil, "an allowing rule allows")
	default:
		vrt.Assert(err != nil && !errors.Is(err, v2.ErrNotMatched), "a denying rule denies")
	}
	vrt.Reach("evaluated")
	eacl.VerifHookCalculateAction = nil
}

// VerifC28BasicAndSticky: basic ACL decision per role and the sticky-bit rule.
func VerifC28BasicAndSticky() {
	var b acl.Basic
	b.FromBits(vrt.U32("basicACL"))
	op := c28ops[vrt.Choice("operation", len(c28ops))]
	role := c28roles[vrt.Choice("role", len(c28roles))]
	var cnr container.Container
	cnr.SetBasicACL(b)
	c := &Checker{}
	info := v2.RequestInfo{RequestRole: role, Operation: op, Container: cnr}
	got := c.CheckBasicACL(info)
	readOp := op == acl.OpObjectGet || op == acl.OpObjectHead || op == acl.OpObjectSearch || op == acl.OpObjectHash
	switch role {
	case acl.RoleInnerRing:
		vrt.Assert(got == readOp, "the inner ring may only read (get, head, search, hash)")
	case acl.RoleContainer:
		if readOp || op == acl.OpObjectPut {
			vrt.Assert(got, "container nodes may always perform replication operations")
		}
	default:
		var one acl.Basic
		one.AllowOp(op, role)
		vrt.Assert(got == (b.Bits()&one.Bits() != 0), "owner and others are allowed exactly by their bit of the operation")
	}
	// sticky bit: the object owner must be the account derived from the requester's key
	withKey := vrt.Bool("requesterKeyPresent")
	info.SenderKey = nil
	if withKey {
		info.SenderKey = []byte{1}
	}
	isOwner := vrt.Bool("objectOwnerDerivedFromRequesterKey")
	c28derived = func(_ user.ID, k []byte) bool { return k != nil && isOwner }
	var owner [25]byte
	sticky := c.StickyBitCheck(info, owner)
	c28derived = nil
	if role == acl.RoleContainer || !b.Sticky() {
		vrt.Assert(sticky, "sticky bit has no effect on container nodes and when it is not set")
	} else {
		vrt.Assert(sticky == (withKey && isOwner), "a sticky container accepts a put only from the requester the object's owner is derived from")
	}
	vrt.Reach("end")
}
