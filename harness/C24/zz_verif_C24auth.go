//go:build verif

package crypto

import (
	"crypto/ecdsa"
	"crypto/sha256"
	"errors"
	"math/big"

	"github.com/google/uuid"
	"github.com/nspcc-dev/neo-go/pkg/util"
	isessions "github.com/nspcc-dev/neofs-node/internal/sessions"
	"github.com/nspcc-dev/neofs-node/internal/vrt"
	nnscore "github.com/nspcc-dev/neofs-node/pkg/core/nns"
	cid "github.com/nspcc-dev/neofs-sdk-go/container/id"
	neofscrypto "github.com/nspcc-dev/neofs-sdk-go/crypto"
	neofsecdsa "github.com/nspcc-dev/neofs-sdk-go/crypto/ecdsa"
	"github.com/nspcc-dev/neofs-sdk-go/object"
	oid "github.com/nspcc-dev/neofs-sdk-go/object/id"
	"github.com/nspcc-dev/neofs-sdk-go/session"
	sessionv2 "github.com/nspcc-dev/neofs-sdk-go/session/v2"
	"github.com/nspcc-dev/neofs-sdk-go/user"
	"github.com/nspcc-dev/neofs-sdk-go/version"
)

type c24nns struct{}

func (c24nns) HasUserInNNS(string, util.Uint160) (bool, error) { return false, nil }

func c24user(n byte) user.ID { return user.NewFromScriptHash(util.Uint160{n}) }
func c24key(n int64) *ecdsa.PublicKey {
	return &ecdsa.PublicKey{X: big.NewInt(n), Y: big.NewInt(2)}
}

func c24eq(a, b []byte) bool {
	if len(a) != len(b) {
		return false
	}
	for i := range a {
		if a[i] != b[i] {
			return false
		}
	}
	return true
}

// VerifC24AuthenticateObject: AuthenticateObject accepts a (non-EC) object
// only if its ID is signed, under a supported scheme, with a key that is the
// owner's (no session), the session key of an authenticated V1 token issued by
// the owner, or the key of a subject of an authenticated V2 token whose
// original issuer is the owner. Key #k (k in 1..3) belongs to user #k;
// signature verification, token authentication and N3 witnesses are recorded
// verdict models.
func VerifC24AuthenticateObject() {
	type sigCall struct {
		scheme, key int
		data, sig   []byte
		ok          bool
	}
	var sigCalls []sigCall
	tokenOK := vrt.Bool("sessionTokenCorrectlySignedByIssuer")
	tokenAsked := 0
	VerifHookDecodeKey = func(b []byte) (*ecdsa.PublicKey, error) {
		if len(b) != 1 || b[0] < 1 || b[0] > 3 {
			return nil, errors.New("undecodable key")
		}
		return c24key(int64(b[0])), nil
	}
	neofsecdsa.VerifHookVerifyKey = func(scheme int, pub ecdsa.PublicKey, data, sig []byte) bool {
		v := vrt.Bool("signatureVerifies")
		sigCalls = append(sigCalls, sigCall{scheme, int(pub.X.Int64()), data, sig, v})
		return v
	}
	user.VerifHookFromKey = func(pub ecdsa.PublicKey) user.ID { return c24user(byte(pub.X.Int64())) }
	n3OK := vrt.Bool("ownerWitnessVerifies")
	var n3acc util.Uint160
	n3asked := 0
	VerifHookN3 = func(height uint32, acc util.Uint160, invoc, verif []byte, h [sha256.Size]byte) error {
		n3asked++
		n3acc = acc
		if !n3OK {
			return errors.New("witness mismatch")
		}
		return nil
	}
	VerifHookAuthToken = func(v2 bool, signed []byte, issuer user.ID, sig neofscrypto.Signature, sigSet bool) error {
		tokenAsked++
		if !tokenOK {
			return errors.New("signature mismatch")
		}
		return nil
	}

	owner := byte(1 + vrt.Choice("objectOwner", 2))
	var obj object.Object
	ver := version.Current()
	obj.SetVersion(&ver)
	obj.SetContainerID(cid.ID{1})
	obj.SetOwner(c24user(owner))
	id := oid.ID{9}
	obj.SetID(id)

	sessionKind := vrt.Choice("session", 3) // 0 none, 1 V1, 2 V2
	tokKey := byte(1 + vrt.Choice("sessionKeyOrSubject", 3))
	tokIssuer := byte(1 + vrt.Choice("sessionIssuer", 2))
	delegated := sessionKind == 2 && vrt.Bool("v2TokenDelegated")
	delegate := byte(2 + vrt.Choice("delegateIssuer", 2)) // 3: the subject of the original token, 2: a stranger
	switch sessionKind {
	case 1:
		var t session.Object
		t.SetID(uuid.UUID{1, 2, 3, 4, 5, 6, 0x47, 8, 0x89})
		t.SetAuthKey((*neofsecdsa.PublicKey)(c24key(int64(tokKey))))
		t.SetIssuer(c24user(tokIssuer))
		t.BindContainer(cid.ID{1})
		t.SetExp(10)
		t.AttachSignature(neofscrypto.NewSignatureFromRawKey(neofscrypto.ECDSA_DETERMINISTIC_SHA256, []byte{2, 1}, []byte{9}))
		obj.SetSessionToken(&t)
	case 2:
		var t sessionv2.Token
		t.SetVersion(sessionv2.TokenCurrentVersion)
		t.SetIssuer(c24user(tokIssuer))
		_ = t.SetSubjects([]sessionv2.Target{sessionv2.NewTargetUser(c24user(tokKey))})
		cx, err := sessionv2.NewContext(cid.ID{1}, []sessionv2.Verb{sessionv2.VerbObjectPut})
		vrt.Assume(err == nil)
		_ = t.SetContexts([]sessionv2.Context{cx})
		t.AttachSignature(neofscrypto.NewSignatureFromRawKey(neofscrypto.ECDSA_DETERMINISTIC_SHA256, []byte{2, 1}, []byte{9}))
		if delegated {
			// t was issued by a delegate; the original token of tokIssuer names user #3 as its only subject
			var origin sessionv2.Token
			origin.SetVersion(sessionv2.TokenCurrentVersion)
			origin.SetIssuer(c24user(tokIssuer))
			_ = origin.SetSubjects([]sessionv2.Target{sessionv2.NewTargetUser(c24user(3))})
			_ = origin.SetContexts([]sessionv2.Context{cx})
			origin.AttachSignature(neofscrypto.NewSignatureFromRawKey(neofscrypto.ECDSA_DETERMINISTIC_SHA256, []byte{2, 1}, []byte{9}))
			t.SetIssuer(c24user(delegate))
			t.SetOrigin(&origin)
		}
		obj.SetSessionTokenV2(&t)
	}

	signed := vrt.Bool("objectSigned")
	scheme := vrt.IntRange("signatureScheme", 0, 4)
	key := byte(vrt.IntRange("signatureKeyByte", 0, 4))
	if signed {
		sig := neofscrypto.NewSignatureFromRawKey(neofscrypto.Scheme(scheme), []byte{key}, []byte{0xEE})
		obj.SetSignature(&sig)
	}

	var ch *c30chain // nil: no chain
	_ = ch
	err := AuthenticateObject(obj, &c24chain{}, isessions.NewObjectSessionsCache(4), nnscore.NewResolver(c24nns{}))
	if err != nil {
		vrt.Reach("rejected")
		return
	}
	vrt.Assert(signed, "an unsigned object is never accepted")
	vrt.Assert(scheme >= 0 && scheme <= 3, "an unsupported signature scheme is never accepted")
	if scheme == 3 { // N3 witness of the owner
		vrt.Assert(sessionKind != 1, "an N3 witness is not accepted together with a V1 session")
		vrt.Assert(n3asked == 1 && n3OK && n3acc == c24user(owner).ScriptHash(), "an N3-signed object is accepted only on a positive witness of the owner's account")
		vrt.Reach("accepted-n3")
		return
	}
	good := false
	for _, c := range sigCalls {
		if c.ok && c.scheme == scheme && c.key == int(key) && c24eq(c.data, id.Marshal()) && c24eq(c.sig, []byte{0xEE}) {
			good = true
		}
	}
	vrt.Assert(key >= 1 && key <= 3 && good, "an object is accepted only if its signature over its ID verifies with the attached key")
	switch sessionKind {
	case 0:
		vrt.Assert(key == owner, "without a session the signing key must be the owner's")
	case 1:
		vrt.Assert(key == tokKey, "with a V1 session the signing key must be the session key")
		vrt.Assert(tokenAsked == 1 && tokenOK, "with a session the token must be authenticated")
		vrt.Assert(tokIssuer == owner, "with a session the token issuer must be the owner")
	case 2:
		vrt.Assert(key == tokKey, "with a V2 session the signer must be a subject of the token")
		vrt.Assert(tokenAsked == 1 && tokenOK, "with a session the token must be authenticated")
		vrt.Assert(tokIssuer == owner, "with a session the original token issuer must be the owner")
		if delegated {
			vrt.Assert(delegate == 3, "a delegated V2 token counts only if its issuer is a subject of the original token")
		}
	}
	vrt.Reach("accepted")
}

type c24chain struct{ c30chain }

// VerifC24TokenCache: two objects authenticated one after the other with one
// sessions cache. Both carry a V1 session token with the same body; the second
// token's signature may differ from the first one's. The second object is
// accepted only if its own token (body and signature) was authenticated: a
// verdict cached for another signature does not count.
func VerifC24TokenCache() {
	auth := map[byte]bool{} // signature byte -> verdict given
	asked := map[byte]int{}
	VerifHookDecodeKey = func(b []byte) (*ecdsa.PublicKey, error) {
		if len(b) != 1 || b[0] < 1 || b[0] > 3 {
			return nil, errors.New("undecodable key")
		}
		return c24key(int64(b[0])), nil
	}
	neofsecdsa.VerifHookVerifyKey = func(int, ecdsa.PublicKey, []byte, []byte) bool { return true }
	user.VerifHookFromKey = func(pub ecdsa.PublicKey) user.ID { return c24user(byte(pub.X.Int64())) }
	VerifHookAuthToken = func(v2 bool, signed []byte, issuer user.ID, sig neofscrypto.Signature, sigSet bool) error {
		s := sig.Value()[0]
		asked[s]++
		if !auth[s] {
			return errors.New("signature mismatch")
		}
		return nil
	}
	mk := func(sigByte byte) object.Object {
		var obj object.Object
		ver := version.Current()
		obj.SetVersion(&ver)
		obj.SetContainerID(cid.ID{1})
		obj.SetOwner(c24user(1))
		obj.SetID(oid.ID{9})
		var t session.Object
		t.SetID(uuid.UUID{1, 2, 3, 4, 5, 6, 0x47, 8, 0x89})
		t.SetAuthKey((*neofsecdsa.PublicKey)(c24key(2)))
		t.SetIssuer(c24user(1))
		t.BindContainer(cid.ID{1})
		t.SetExp(10)
		t.AttachSignature(neofscrypto.NewSignatureFromRawKey(neofscrypto.ECDSA_DETERMINISTIC_SHA256, []byte{2, 1}, []byte{sigByte}))
		obj.SetSessionToken(&t)
		sig := neofscrypto.NewSignatureFromRawKey(neofscrypto.ECDSA_DETERMINISTIC_SHA256, []byte{2}, []byte{0xEE})
		obj.SetSignature(&sig)
		return obj
	}
	cache := isessions.NewObjectSessionsCache(4)
	res := nnscore.NewResolver(c24nns{})
	s1 := byte(1)
	s2 := byte(1 + vrt.Choice("secondTokenSignature", 2)) // the same signature or another one
	auth[1] = vrt.Bool("firstSignatureIsTheIssuers")
	auth[2] = vrt.Bool("otherSignatureIsTheIssuers")
	err1 := AuthenticateObject(mk(s1), &c24chain{}, cache, res)
	vrt.Assert((err1 == nil) == auth[1], "the first object is accepted exactly if its token is authentic")
	err2 := AuthenticateObject(mk(s2), &c24chain{}, cache, res)
	if err2 == nil {
		vrt.Assert(auth[s2], "an object is accepted only if its own session token (with its own signature) was authenticated")
		vrt.Reach("accepted")
	} else {
		vrt.Assert(!auth[s2], "an object with an authentic token is accepted")
		vrt.Reach("rejected")
	}
}
