//go:build verif

package session

// VerifHookUnmarshalContainer replaces the reflection-based protobuf decoding
// of V1 container session tokens by a model codec. The real method is renamed
// to Unmarshal__real.
var VerifHookUnmarshalContainer func(x *Container, data []byte) error

func (x *Container) Unmarshal(data []byte) error {
	if h := VerifHookUnmarshalContainer; h != nil {
		return h(x, data)
	}
	return x.Unmarshal__real(data)
}
