//go:build verif

package meta

import (
	"github.com/nspcc-dev/neofs-node/internal/vrt"
	"github.com/nspcc-dev/neofs-node/pkg/local_object_storage/blobstor/common"
	"github.com/nspcc-dev/neofs-sdk-go/object"
	oid "github.com/nspcc-dev/neofs-sdk-go/object/id"
)

// c18blobs is a blob storage model that enumerates the given objects in the
// given order; the blob of object i is the one-byte string {i}, decoded by the
// model codec below (protobuf decoding is reflection-based).
type c18blobs struct {
	common.Storage
	objs []*object.Object
}

func (b *c18blobs) ShardID() common.ID { return common.ID{} }
func (b *c18blobs) Iterate(h func(oid.Address, []byte) error, _ func(oid.Address, error) error) error {
	for i, o := range b.objs {
		if err := h(o.Address(), []byte{byte(i)}); err != nil {
			return err
		}
	}
	return nil
}

// VerifC18ResyncBatches: the whole rebuild (reset, enumeration of the blob
// storage, batching by the resync handler with the batch size shrunk to 2,
// final flush) over four blobs - an object, its tombstone and two bystanders -
// in every order: every blob's object gets the status that follows from the
// blob set; none is lost at a batch boundary.
func VerifC18ResyncBatches() {
	ep := &vmEpoch{e: 10}
	db := vmNewDB(ep)
	r := vmObj(0, 1, object.TypeRegular, -1, 7)
	ts := vmObj(0, 2, object.TypeTombstone, 40, 0)
	ts.AssociateDeleted(vmOID(1))
	x := vmObj(0, 8, object.TypeRegular, -1, 3)
	y := vmObj(1, 9, object.TypeRegular, -1, 3)
	three := []*object.Object{r, ts, x}
	perm := c18perms[vrt.Choice("blobOrder", len(c18perms))]
	at := vrt.Choice("positionOfTheFourthBlob", 4)
	bs := &c18blobs{}
	for i, p := range perm {
		if i == at {
			bs.objs = append(bs.objs, y)
		}
		bs.objs = append(bs.objs, three[p])
	}
	if at == 3 {
		bs.objs = append(bs.objs, y)
	}
	object.VerifHookUnmarshal = func(o *object.Object, data []byte) error {
		*o = *bs.objs[data[0]]
		return nil
	}
	// something stale that the rebuild must forget
	vrt.Assert(db.Put(vmObj(1, 5, object.TypeRegular, -1, 1)) == nil, "stale put")

	vrt.Assert(db.ResyncFromBlobstor(bs, nil) == nil, "the rebuild succeeds")

	ok, err := db.Exists(vmAddr(0, 1), false)
	vrt.Assert(c01class(ok, err) == c01Removed, "a tombstoned object is removed whatever the blob order and batch boundaries")
	for _, a := range []oid.Address{vmAddr(0, 2), vmAddr(0, 8), vmAddr(1, 9)} {
		ok, err := db.Exists(a, false)
		vrt.Assert(ok && err == nil, "every stored object is known after the rebuild whatever its position in the enumeration")
	}
	ok, err = db.Exists(vmAddr(1, 5), false)
	vrt.Assert(c01class(ok, err) == c01Absent, "metadata without a blob does not survive the rebuild")
	gb, gerr := db.GetGarbage(10)
	vrt.Assert(gerr == nil, "garbage listing works")
	found := false
	for _, b := range gb {
		for _, id := range b.Objects {
			if id == vmOID(1) {
				found = true
			}
		}
	}
	vrt.Assert(found, "the payload of a removed object is reclaimable after the rebuild (it is in the garbage list)")
	vrt.Reach("end")
}
