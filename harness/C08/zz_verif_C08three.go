//go:build verif

package engine

import (
	"context"

	"github.com/nspcc-dev/neofs-node/internal/vrt"
	"github.com/nspcc-dev/neofs-node/pkg/local_object_storage/shard/mode"
	"github.com/nspcc-dev/neofs-sdk-go/object"
)

var c08modes = [...]mode.Mode{mode.ReadWrite, mode.ReadOnly, mode.DegradedReadOnly}
var c08modeNames = [...]string{"read-write", "read-only", "degraded"}

// VerifC08RefusedTombstone: three real shards. An object is stored by the engine;
// its lock (expiring at epoch 20) reached an arbitrary non-empty subset of the
// shards (the others were read-only when it was broadcast); then, with every
// shard in an arbitrary mode, a tombstone for the object arrives. Afterwards -
// all shards read-write again - the engine still returns the locked object,
// whatever the visiting orders: in particular a tombstone that the engine
// refused left no trace on any shard.
func VerifC08RefusedTombstone() {
	ctx := context.Background()
	verifOrderOnce = true
	w := vwNew(3, 10)
	obj := w.vwObj(1, object.TypeRegular, -1)
	lock := w.vwObj(2, object.TypeLock, 20)
	lock.AssociateLocked(obj.GetID())
	ts := w.vwObj(3, object.TypeTombstone, 30)
	ts.AssociateDeleted(obj.GetID())
	vrt.Assume(w.e.Put(ctx, obj, nil) == nil)

	anyLock := false
	var hasLock [3]bool
	for i := range w.shards {
		if (i == 2 && !anyLock) || vrt.Bool("lockReachedThisShard") {
			vrt.Assume(w.shards[i].Put(lock, nil) == nil)
			hasLock[i], anyLock = true, true
		}
	}
	// modes when the tombstone arrives
	lockHolderState := "" // the least capable state among the shards holding the lock
	worst := 0
	for i := range w.shards {
		m := vrt.Choice("modeAtTombstone", int(vrt.Param("MODES")))
		w.shards[i].VerifSetModeRaw(c08modes[m])
		if hasLock[i] && m > worst {
			worst = m
		}
	}
	allHoldersDegraded := true
	for i := range w.shards {
		if hasLock[i] && !w.shards[i].GetMode().NoMetabase() {
			allHoldersDegraded = false
		}
	}
	lockHolderState = c08modeNames[worst]
	refused := w.e.Put(ctx, ts, nil) != nil
	for i := range w.shards {
		w.shards[i].VerifSetModeRaw(mode.ReadWrite)
	}
	got, err := w.e.Get(ctx, obj.Address())
	ok := err == nil && got != nil
	switch {
	case refused:
		vrt.Assert(ok, "a tombstone the engine refused leaves the locked object retrievable")
		vrt.Reach("refused")
	case allHoldersDegraded:
		vrt.Assert(ok, "an object whose lock the engine accepted stays retrievable until the lock expires (every shard holding the lock was degraded when the tombstone arrived)")
		vrt.Reach("accepted")
	default:
		vrt.Assert(ok, "an object whose lock the engine accepted stays retrievable until the lock expires (tombstone arrived while the least capable lock holder was "+lockHolderState+")")
		vrt.Reach("accepted")
	}
}
