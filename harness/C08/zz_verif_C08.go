//go:build verif

package engine

import (
	"context"

	"github.com/nspcc-dev/neofs-node/internal/vrt"
	"github.com/nspcc-dev/neofs-node/pkg/local_object_storage/shard/mode"
	"github.com/nspcc-dev/neofs-sdk-go/object"
)

// VerifC08LockedStaysRetrievable: two real shards (metabase on the bbolt
// model, map blob model). An object is put through the engine, then a lock for
// it (expiring at epoch 20), then a tombstone attempt for it; before each step
// each shard is read-write or read-only; afterwards every shard runs a GC pass,
// the epoch may advance (below the lock's expiration) with another GC pass. Broadcasts and reads visit the shards in every order.
// If the engine accepted the lock for the stored object, the engine still
// returns the object at the end.
func VerifC08LockedStaysRetrievable() {
	ctx := context.Background()
	verifOrderOnce = vrt.Param("ORDERS") == 0 // quick: one visiting order per run; thorough: every call draws its own
	w := vwNew(2, 10)
	for i := range w.shards {
		w.shards[i].VerifSetExpiredCallback(w.e.processExpiredObjects)
	}
	obj := w.vwObj(1, object.TypeRegular, -1)
	expiring := vrt.Bool("objectExpiresBeforeLock")
	if expiring {
		obj = w.vwObj(1, object.TypeRegular, 12) // the object's own expiration is earlier than the lock's
	}
	lock := w.vwObj(2, object.TypeLock, 20)
	lock.AssociateLocked(obj.GetID())
	ts := w.vwObj(3, object.TypeTombstone, 30)
	ts.AssociateDeleted(obj.GetID())

	modes := func(tag string) {
		for i := range w.shards {
			m := mode.ReadWrite
			if vrt.Bool(tag + "ShardReadOnly") {
				m = mode.ReadOnly
			}
			w.shards[i].VerifSetModeRaw(m)
		}
	}

	stored := w.e.Put(ctx, obj, nil) == nil
	vrt.Assume(stored)
	modes("beforeLock")
	lockAccepted := w.e.Put(ctx, lock, nil) == nil
	modes("beforeTombstone")
	tombErr := w.e.Put(ctx, ts, nil)
	if lockAccepted {
		_ = tombErr // a refused tombstone is the expected outcome; acceptance is judged by its effect below
	}
	// GC works on read-write shards only; reads work in both modes
	for i := range w.shards {
		w.shards[i].VerifSetModeRaw(mode.ReadWrite)
	}
	for i := range w.shards {
		w.shards[i].VerifGC(w.epoch.E)
	}
	if vrt.Bool("epochAdvances") {
		w.epoch.E = 15
		for i := range w.shards {
			w.shards[i].VerifGC(w.epoch.E)
		}
	}
	// where is the lock, relative to the object?
	lockWithObject := true
	for i := range w.shards {
		db := w.shards[i].VerifMeta()
		if has, _ := db.Exists(obj.Address(), true); has {
			if l, _ := db.Exists(lock.Address(), true); !l {
				lockWithObject = false
			}
		}
	}
	got, err := w.e.Get(ctx, obj.Address())
	if lockAccepted {
		ok := err == nil && got != nil
		switch {
		case !lockWithObject && expiring && w.epoch.E > 12:
			vrt.Assert(ok, "an object whose lock the engine accepted stays retrievable until the lock expires (object past its own expiration, lock stored only on another shard)")
		case !lockWithObject:
			vrt.Assert(ok, "an object whose lock the engine accepted stays retrievable until the lock expires (lock stored only on another shard)")
		default:
			vrt.Assert(ok, "an object whose lock the engine accepted stays retrievable until the lock expires")
		}
		vrt.Reach("locked")
	} else {
		vrt.Reach("lock-refused")
	}
}
