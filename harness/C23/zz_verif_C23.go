//go:build verif

package getsvc

import (
	"github.com/nspcc-dev/neofs-node/internal/vrt"
	"github.com/nspcc-dev/neofs-node/pkg/local_object_storage/blobstor/common"
	"github.com/nspcc-dev/neofs-node/pkg/services/object/util"
	"github.com/nspcc-dev/neofs-sdk-go/object"
	oid "github.com/nspcc-dev/neofs-sdk-go/object/id"
	"go.uber.org/zap"
)

// model world of the C23 harness: a V1-split object of K children
var c23 struct {
	k      int
	size   [4]uint64 // child payload sizes
	start  [4]uint64 // child start offsets in the parent payload
	total  uint64
	link   bool // split info points to a link object (children list) or to the last part
	pieces []c23piece
	hdrOK  bool
}

type c23piece struct {
	child    int
	off, ln  uint64
	whole    bool
}

func c23id(i int) oid.ID { var id oid.ID; id[0] = byte(i + 1); return id }

func c23parent() *object.Object {
	par := new(object.Object)
	par.SetID(c23id(100))
	par.SetPayloadSize(c23.total)
	return par
}

func c23child(i int) *object.Object {
	ch := new(object.Object)
	ch.SetID(c23id(i))
	ch.SetPayloadSize(c23.size[i])
	if i > 0 {
		ch.SetPreviousID(c23id(i - 1))
	}
	if i == c23.k-1 {
		ch.SetParent(c23parent())
	}
	return ch
}

// replaced collaborators (renamed in the overlay)
func (exec *execCtx) headChild(id oid.ID) (*object.Object, bool) {
	i := int(id[0]) - 1
	if i == 50 { // link object
		l := new(object.Object)
		l.SetID(c23id(50))
		l.SetParent(c23parent())
		ids := make([]oid.ID, c23.k)
		for j := range ids {
			ids[j] = c23id(j)
		}
		l.SetChildren(ids...)
		return l, true
	}
	exec.status = statusOK
	exec.err = nil
	return c23child(i), true
}

func (exec *execCtx) copyChild(id oid.ID, rng *object.Range, withHdr bool) bool {
	i := int(id[0]) - 1
	if i == 50 {
		// the link object of a V1 split has an empty payload: nothing is copied
		exec.status = statusOK
		exec.err = nil
		return true
	}
	p := c23piece{child: i}
	if rng == nil || (rng.GetOffset() == 0 && rng.GetLength() == 0) {
		p.whole = true // (0,0) resolves to the whole child payload (PayloadRange.Resolve)
		p.ln = c23.size[i]
	} else {
		p.off, p.ln = rng.GetOffset(), rng.GetLength()
	}
	c23.pieces = append(c23.pieces, p)
	exec.status = statusOK
	exec.err = nil
	return true
}

func (exec *execCtx) streamChildrenPipelined(at func(i int) (oid.ID, *object.Range, bool), checkHdr bool) statusError {
	for i := 0; ; i++ {
		id, r, ok := at(i)
		if !ok {
			break
		}
		exec.copyChild(id, r, checkHdr)
	}
	return statusError{status: statusOK}
}

func (exec *execCtx) writeCollectedHeader() bool {
	c23.hdrOK = exec.collectedHeader != nil
	return true
}

// VerifC23SplitV1: reading the whole payload or any satisfiable range of a
// V1-split object of 1..3 children (via the link object or by walking back from
// the last part) copies exactly the requested bytes: the pieces are contiguous,
// start at the range start, end at the range end and lie inside their children.
func VerifC23SplitV1() {
	c23.k = 2 + vrt.Choice("children", vrt.Param("KMAX")-1) // a split object has at least two parts
	c23.link = vrt.Bool("viaLink")
	c23.pieces = nil
	c23.total = 0
	for i := 0; i < c23.k; i++ {
		c23.size[i] = vrt.U64("size")
		vrt.Assume(c23.size[i] >= 1 && c23.size[i] < 1<<40)
		c23.start[i] = c23.total
		c23.total += c23.size[i]
	}
	ranged := vrt.Bool("ranged")
	var from, ln uint64
	exec := &execCtx{log: zap.NewNop()}
	exec.prm.common = new(util.CommonPrm)
	si := object.NewSplitInfo()
	si.SetSplitID(object.NewSplitID())
	if c23.link {
		si.SetLink(c23id(50))
	} else {
		si.SetLastPart(c23id(c23.k - 1))
	}
	exec.infoSplit = si
	if ranged {
		from, ln = vrt.U64("off"), vrt.U64("len")
		vrt.Assume(ln >= 1 && from < c23.total && ln <= c23.total-from)
		exec.payloadRange = common.NewPayloadRange(from, ln)
	} else {
		from, ln = 0, c23.total
	}
	exec.assemble()

	vrt.Assert(exec.status == statusOK, "assembly of an available split object succeeds")
	vrt.Assert(len(c23.pieces) > 0, "some payload is copied")
	pos := from
	for _, p := range c23.pieces {
		vrt.Assert(p.off <= c23.size[p.child] && p.ln <= c23.size[p.child]-p.off, "piece lies inside its child")
		vrt.Assert(c23.start[p.child]+p.off == pos, "pieces are contiguous and start at the range start")
		pos += p.ln
	}
	vrt.Assert(pos == from+ln, "pieces end exactly at the range end")
	vrt.Reach("end")
}
