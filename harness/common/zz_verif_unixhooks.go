//go:build verif

package unix

// Hooks that let harnesses replace the system calls used by the file-tree
// writer by a file model with faults. Real functions are renamed to <name>__real.
var (
	VerifHookOpen      func(path string, mode int, perm uint32) (int, error)
	VerifHookWrite     func(fd int, p []byte) (int, error)
	VerifHookWritev    func(fd int, iovs [][]byte) (int, error)
	VerifHookLinkat    func(oldpath, newpath string) error
	VerifHookFdatasync func(fd int) error
	VerifHookClose     func(fd int) error
	VerifHookUnlink    func(path string) error
)

func Open(path string, mode int, perm uint32) (fd int, err error) {
	if h := VerifHookOpen; h != nil {
		return h(path, mode, perm)
	}
	return Open__real(path, mode, perm)
}

func Write(fd int, p []byte) (n int, err error) {
	if h := VerifHookWrite; h != nil {
		return h(fd, p)
	}
	return Write__real(fd, p)
}

func Writev(fd int, iovs [][]byte) (n int, err error) {
	if h := VerifHookWritev; h != nil {
		return h(fd, iovs)
	}
	return Writev__real(fd, iovs)
}

func Linkat(olddirfd int, oldpath string, newdirfd int, newpath string, flags int) (err error) {
	if h := VerifHookLinkat; h != nil {
		return h(oldpath, newpath)
	}
	return Linkat__real(olddirfd, oldpath, newdirfd, newpath, flags)
}

func Fdatasync(fd int) (err error) {
	if h := VerifHookFdatasync; h != nil {
		return h(fd)
	}
	return Fdatasync__real(fd)
}

func Close(fd int) (err error) {
	if h := VerifHookClose; h != nil {
		return h(fd)
	}
	return Close__real(fd)
}

func Unlink(path string) error {
	if h := VerifHookUnlink; h != nil {
		return h(path)
	}
	return Unlink__real(path)
}
