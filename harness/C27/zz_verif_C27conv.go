//go:build verif

package policer

import (
	"context"

	"github.com/nspcc-dev/neofs-node/internal/vrt"
	objectcore "github.com/nspcc-dev/neofs-node/pkg/core/object"
	"github.com/nspcc-dev/neofs-sdk-go/object"
	oid "github.com/nspcc-dev/neofs-sdk-go/object/id"
	"go.uber.org/zap"
)

var c27placements = []struct {
	lists  [][]int
	copies []uint
}{
	{[][]int{{0, 1, 2}}, []uint{1}},
	{[][]int{{0, 1, 2}}, []uint{2}},
	{[][]int{{0, 1, 2, 3}}, []uint{2}},
	{[][]int{{0, 1, 2, 3}}, []uint{3}},
	{[][]int{{0, 1}, {2, 3}}, []uint{1, 1}},
}

// VerifC27Convergence: a small cluster with a stable network map and reachable
// nodes: one object held by an arbitrary non-empty set of the container nodes;
// every node that holds it runs the real policer decision (processObject) in
// turn, for a few rounds, against the shared cluster state (header requests
// answer from it, replication tasks store to it). Afterwards every primary node
// of every rule holds the object, and a further round issues no replication.
func VerifC27Convergence() {
	pl := c27placements[vrt.Choice("placement", len(c27placements))]
	c26 = c26world{lists: pl.lists, copies: pl.copies, inNetmap: true, typ: object.TypeRegular}
	c26sim.on, c26sim.tasks = true, 0
	any := false
	member := [c26N]bool{}
	for _, l := range pl.lists {
		for _, j := range l {
			member[j] = true
		}
	}
	for j := 0; j < c26N; j++ {
		c26sim.holds[j] = member[j] && vrt.Bool("nodeHoldsTheObject")
		any = any || c26sim.holds[j]
	}
	vrt.Assume(any)
	p := &Policer{cfg: defaultCfg()}
	p.log = zap.NewNop()
	p.network, p.apiConns, p.replicator, p.localStorage = c26net{}, c26conns{}, c26repl{}, c26store{}
	var a oid.Address
	obj := objectcore.AddressWithAttributes{Address: a, Type: object.TypeRegular, Attributes: []string{"", "", ""}, ShardIDs: []string{"s1"}}
	round := func() {
		for me := 0; me < c26N; me++ {
			if !member[me] || !c26sim.holds[me] {
				continue
			}
			c26me = me
			c26.confirmed = [c26N]bool{}
			c26.headCalls = [c26N]int{}
			p.processObject(context.Background(), obj)
		}
	}
	rounds := int(vrt.Param("ROUNDS"))
	for r := 0; r < rounds; r++ {
		round()
	}
	for i, l := range pl.lists {
		for k := 0; k < int(pl.copies[i]); k++ {
			vrt.Assert(c26sim.holds[l[k]], "repeated policer cycles bring the object to every primary node of every rule")
		}
	}
	c26sim.tasks = 0
	round()
	vrt.Assert(c26sim.tasks == 0, "once the primary nodes hold the object the policer stops replicating")
	c26sim.on, c26me = false, c26Local
	vrt.Reach("converged")
}
