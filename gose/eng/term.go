// Package eng is a symbolic executor for Go SSA (golang.org/x/tools/go/ssa).
// Scalars are SMT terms (bit-vectors with Go's exact widths, Bool, and Int for
// math/big); everything else is ordinary interpreter state.
package eng

import (
	"fmt"
	"math/big"
	"strings"
)

type Kind uint8

const (
	KBool Kind = iota
	KBV
	KInt
)

type Sort struct {
	K Kind
	W int
}

func (s Sort) String() string {
	switch s.K {
	case KBool:
		return "Bool"
	case KInt:
		return "Int"
	}
	return fmt.Sprintf("(_ BitVec %d)", s.W)
}

var BoolSort = Sort{KBool, 0}
var IntSort = Sort{KInt, 0}

func BV(w int) Sort { return Sort{KBV, w} }

type Op uint8

const (
	OConst Op = iota
	OVar
	OAdd
	OSub
	OMul
	OUDiv
	OURem
	OSDiv
	OSRem
	OAnd
	OOr
	OXor
	ONot // bvnot or boolean not
	ONeg
	OShl
	OLshr
	OAshr
	OConcat
	OExtract
	OZext
	OSext
	OIte
	OEq
	OUlt
	OUle
	OSlt
	OSle
	OBAnd // boolean and
	OBOr
	OIAdd
	OISub
	OIMul
	OIDiv
	OIMod
	OINeg
	OILe
	OILt
	OInt2BV
	OBV2Int
	OUF
)

var opNames = map[Op]string{
	OAdd: "bvadd", OSub: "bvsub", OMul: "bvmul", OUDiv: "bvudiv", OURem: "bvurem", OSDiv: "bvsdiv", OSRem: "bvsrem",
	OAnd: "bvand", OOr: "bvor", OXor: "bvxor", ONeg: "bvneg", OShl: "bvshl", OLshr: "bvlshr", OAshr: "bvashr",
	OConcat: "concat", OIte: "ite", OEq: "=", OUlt: "bvult", OUle: "bvule", OSlt: "bvslt", OSle: "bvsle",
	OBAnd: "and", OBOr: "or", OIAdd: "+", OISub: "-", OIMul: "*", OIDiv: "div", OIMod: "mod", OINeg: "-", OILe: "<=", OILt: "<",
}

// Term is an SMT term. Constants carry their value; BV constants up to 64 bits
// use C, Int constants use Big.
type Term struct {
	Op   Op
	S    Sort
	A    []*Term
	C    uint64   // constant value (BV: zero-extended; Bool: 0/1)
	Big  *big.Int // Int constants
	Name string   // OVar / OUF
	Hi   int      // OExtract hi; OZext/OSext amount; OInt2BV width
	Lo   int
	id   int // per-path id for non-leaf terms (0 = leaf)
}

func (t *Term) IsConst() bool { return t.Op == OConst }

func mask(w int) uint64 {
	if w >= 64 {
		return ^uint64(0)
	}
	return (uint64(1) << uint(w)) - 1
}

var (
	TrueT  = &Term{Op: OConst, S: BoolSort, C: 1}
	FalseT = &Term{Op: OConst, S: BoolSort, C: 0}
)

var smallConst [65][]*Term

func init() {
	for _, w := range []int{8, 16, 32, 64} {
		smallConst[w] = make([]*Term, 257)
		for i := range smallConst[w] {
			smallConst[w][i] = &Term{Op: OConst, S: BV(w), C: uint64(i) & mask(w)}
		}
	}
}

func ConstBV(w int, v uint64) *Term {
	v &= mask(w)
	if w <= 64 && smallConst[w] != nil && v <= 256 {
		return smallConst[w][v]
	}
	return &Term{Op: OConst, S: BV(w), C: v}
}

func ConstBool(b bool) *Term {
	if b {
		return TrueT
	}
	return FalseT
}

func ConstInt(v *big.Int) *Term { return &Term{Op: OConst, S: IntSort, Big: new(big.Int).Set(v)} }

func (t *Term) IsTrue() bool  { return t.Op == OConst && t.S.K == KBool && t.C == 1 }
func (t *Term) IsFalse() bool { return t.Op == OConst && t.S.K == KBool && t.C == 0 }

// sval returns the constant as a sign-extended int64.
func (t *Term) sval() int64 {
	w := t.S.W
	if w >= 64 {
		return int64(t.C)
	}
	if t.C&(uint64(1)<<uint(w-1)) != 0 {
		return int64(t.C | ^mask(w))
	}
	return int64(t.C)
}

type tkey struct {
	op         Op
	s          Sort
	a0, a1, a2 *Term
	hi, lo     int
	name       string
}

// TB is a per-path term builder with hash-consing.
type TB struct {
	tab    map[tkey]*Term
	nextID int
	nvars  int
}

func NewTB() *TB { return &TB{tab: make(map[tkey]*Term, 1024)} }

func (b *TB) Reset() {
	clear(b.tab)
	b.nextID = 0
	b.nvars = 0
}

func (b *TB) mk(op Op, s Sort, hi, lo int, name string, args ...*Term) *Term {
	k := tkey{op: op, s: s, hi: hi, lo: lo, name: name}
	if len(args) > 3 {
		// n-ary UF: no hash-consing on args beyond 3; build fresh
		b.nextID++
		return &Term{Op: op, S: s, A: args, Hi: hi, Lo: lo, Name: name, id: b.nextID}
	}
	if len(args) > 0 {
		k.a0 = args[0]
	}
	if len(args) > 1 {
		k.a1 = args[1]
	}
	if len(args) > 2 {
		k.a2 = args[2]
	}
	// constants are not unique by pointer; key on them only if all args non-const,
	// otherwise skip the table (still correct, slightly less sharing)
	allNC := true
	for _, a := range args {
		if a.Op == OConst {
			allNC = false
			break
		}
	}
	if allNC {
		if t, ok := b.tab[k]; ok {
			return t
		}
	}
	b.nextID++
	t := &Term{Op: op, S: s, A: append([]*Term(nil), args...), Hi: hi, Lo: lo, Name: name, id: b.nextID}
	if allNC {
		b.tab[k] = t
	}
	return t
}

func (b *TB) Var(name string, s Sort) *Term {
	b.nvars++
	return &Term{Op: OVar, S: s, Name: name}
}

func sameConst(x, y *Term) bool {
	if x.S.K == KInt {
		return x.Big.Cmp(y.Big) == 0
	}
	return x.C == y.C
}

func same(x, y *Term) bool {
	if x == y {
		return true
	}
	if x.Op == OConst && y.Op == OConst && x.S == y.S {
		return sameConst(x, y)
	}
	return false
}

// ---- boolean ----

func (b *TB) Not(x *Term) *Term {
	if x.S.K != KBool {
		panic("Not on non-bool")
	}
	if x.Op == OConst {
		return ConstBool(x.C == 0)
	}
	if x.Op == ONot {
		return x.A[0]
	}
	return b.mk(ONot, BoolSort, 0, 0, "", x)
}

func (b *TB) And(x, y *Term) *Term {
	if x.IsFalse() || y.IsFalse() {
		return FalseT
	}
	if x.IsTrue() {
		return y
	}
	if y.IsTrue() {
		return x
	}
	if x == y {
		return x
	}
	return b.mk(OBAnd, BoolSort, 0, 0, "", x, y)
}

func (b *TB) Or(x, y *Term) *Term {
	if x.IsTrue() || y.IsTrue() {
		return TrueT
	}
	if x.IsFalse() {
		return y
	}
	if y.IsFalse() {
		return x
	}
	if x == y {
		return x
	}
	return b.mk(OBOr, BoolSort, 0, 0, "", x, y)
}

func (b *TB) Ite(c, x, y *Term) *Term {
	if c.IsTrue() {
		return x
	}
	if c.IsFalse() {
		return y
	}
	if same(x, y) {
		return x
	}
	if x.S.K == KBool {
		if x.IsTrue() && y.IsFalse() {
			return c
		}
		if x.IsFalse() && y.IsTrue() {
			return b.Not(c)
		}
	}
	return b.mk(OIte, x.S, 0, 0, "", c, x, y)
}

func (b *TB) Eq(x, y *Term) *Term {
	if x.S != y.S {
		panic(fmt.Sprintf("Eq sort mismatch %v %v", x.S, y.S))
	}
	if x == y {
		return TrueT
	}
	if x.Op == OConst && y.Op == OConst {
		return ConstBool(sameConst(x, y))
	}
	if x.S.K == KBool {
		if y.Op == OConst {
			x, y = y, x
		}
		if x.IsTrue() {
			return y
		}
		if x.IsFalse() {
			return b.Not(y)
		}
	}
	// eq(ite(c,k1,k2), k) with constants
	if y.Op == OConst && x.Op == OIte && x.A[1].Op == OConst && x.A[2].Op == OConst {
		e1 := sameConst(x.A[1], y)
		e2 := sameConst(x.A[2], y)
		switch {
		case e1 && e2:
			return TrueT
		case e1:
			return x.A[0]
		case e2:
			return b.Not(x.A[0])
		default:
			return FalseT
		}
	}
	if x.Op == OConst && y.Op == OIte {
		return b.Eq(y, x)
	}
	// eq(zext(a), const): reduce width
	if y.Op == OConst && x.Op == OZext {
		iw := x.A[0].S.W
		if y.C&^mask(iw) != 0 {
			return FalseT
		}
		return b.Eq(x.A[0], ConstBV(iw, y.C))
	}
	if x.Op == OConst && y.Op == OZext {
		return b.Eq(y, x)
	}
	return b.mk(OEq, BoolSort, 0, 0, "", x, y)
}

// ---- bit-vectors ----

func (b *TB) bin(op Op, x, y *Term) *Term {
	if x.S != y.S || x.S.K != KBV {
		panic(fmt.Sprintf("bv binop %v sort mismatch %v %v", op, x.S, y.S))
	}
	w := x.S.W
	if x.Op == OConst && y.Op == OConst {
		a, c := x.C, y.C
		var r uint64
		switch op {
		case OAdd:
			r = a + c
		case OSub:
			r = a - c
		case OMul:
			r = a * c
		case OUDiv:
			if c == 0 {
				r = mask(w)
			} else {
				r = a / c
			}
		case OURem:
			if c == 0 {
				r = a
			} else {
				r = a % c
			}
		case OSDiv:
			sa, sc := x.sval(), y.sval()
			if sc == 0 {
				if sa < 0 {
					r = 1
				} else {
					r = mask(w)
				}
			} else if sc == -1 {
				r = uint64(-sa)
			} else {
				r = uint64(sa / sc)
			}
		case OSRem:
			sa, sc := x.sval(), y.sval()
			if sc == 0 {
				r = uint64(sa)
			} else if sc == -1 {
				r = 0
			} else {
				r = uint64(sa % sc)
			}
		case OAnd:
			r = a & c
		case OOr:
			r = a | c
		case OXor:
			r = a ^ c
		case OShl:
			if c >= uint64(w) {
				r = 0
			} else {
				r = a << c
			}
		case OLshr:
			if c >= uint64(w) {
				r = 0
			} else {
				r = a >> c
			}
		case OAshr:
			sa := x.sval()
			if c >= uint64(w) {
				if sa < 0 {
					r = mask(w)
				} else {
					r = 0
				}
			} else {
				r = uint64(sa >> c)
			}
		}
		return ConstBV(w, r)
	}
	// identities
	switch op {
	case OAdd:
		if x.Op == OConst && x.C == 0 {
			return y
		}
		if y.Op == OConst && y.C == 0 {
			return x
		}
	case OSub:
		if y.Op == OConst && y.C == 0 {
			return x
		}
		if x == y {
			return ConstBV(w, 0)
		}
	case OMul:
		if x.Op == OConst {
			x, y = y, x
		}
		if y.Op == OConst {
			if y.C == 0 {
				return y
			}
			if y.C == 1 {
				return x
			}
		}
	case OAnd:
		if x.Op == OConst {
			x, y = y, x
		}
		if y.Op == OConst {
			if y.C == 0 {
				return y
			}
			if y.C == mask(w) {
				return x
			}
		}
		if x == y {
			return x
		}
	case OOr:
		if x.Op == OConst {
			x, y = y, x
		}
		if y.Op == OConst {
			if y.C == 0 {
				return x
			}
			if y.C == mask(w) {
				return y
			}
		}
		if x == y {
			return x
		}
	case OXor:
		if x.Op == OConst {
			x, y = y, x
		}
		if y.Op == OConst && y.C == 0 {
			return x
		}
		if x == y {
			return ConstBV(w, 0)
		}
	case OShl, OLshr, OAshr:
		if y.Op == OConst && y.C == 0 {
			return x
		}
		if y.Op == OConst && y.C >= uint64(w) && op != OAshr {
			return ConstBV(w, 0)
		}
		// shift of zext'd byte etc. by constant: keep
	case OUDiv:
		if y.Op == OConst && y.C == 1 {
			return x
		}
	}
	return b.mk(op, x.S, 0, 0, "", x, y)
}

func (b *TB) Add(x, y *Term) *Term  { return b.bin(OAdd, x, y) }
func (b *TB) Sub(x, y *Term) *Term  { return b.bin(OSub, x, y) }
func (b *TB) Mul(x, y *Term) *Term  { return b.bin(OMul, x, y) }
func (b *TB) UDiv(x, y *Term) *Term { return b.bin(OUDiv, x, y) }
func (b *TB) URem(x, y *Term) *Term { return b.bin(OURem, x, y) }
func (b *TB) SDiv(x, y *Term) *Term { return b.bin(OSDiv, x, y) }
func (b *TB) SRem(x, y *Term) *Term { return b.bin(OSRem, x, y) }
func (b *TB) BAnd(x, y *Term) *Term { return b.bin(OAnd, x, y) }
func (b *TB) BOr(x, y *Term) *Term  { return b.bin(OOr, x, y) }
func (b *TB) BXor(x, y *Term) *Term { return b.bin(OXor, x, y) }
func (b *TB) Shl(x, y *Term) *Term  { return b.bin(OShl, x, y) }
func (b *TB) Lshr(x, y *Term) *Term { return b.bin(OLshr, x, y) }
func (b *TB) Ashr(x, y *Term) *Term { return b.bin(OAshr, x, y) }

func (b *TB) BNot(x *Term) *Term {
	if x.Op == OConst {
		return ConstBV(x.S.W, ^x.C)
	}
	if x.Op == ONot && x.S.K == KBV {
		return x.A[0]
	}
	return b.mk(ONot, x.S, 0, 0, "", x)
}

func (b *TB) Neg(x *Term) *Term {
	if x.Op == OConst {
		return ConstBV(x.S.W, -x.C)
	}
	return b.mk(ONeg, x.S, 0, 0, "", x)
}

func (b *TB) cmp(op Op, x, y *Term) *Term {
	if x.S != y.S || x.S.K != KBV {
		panic(fmt.Sprintf("bv cmp sort mismatch %v %v", x.S, y.S))
	}
	if x.Op == OConst && y.Op == OConst {
		switch op {
		case OUlt:
			return ConstBool(x.C < y.C)
		case OUle:
			return ConstBool(x.C <= y.C)
		case OSlt:
			return ConstBool(x.sval() < y.sval())
		case OSle:
			return ConstBool(x.sval() <= y.sval())
		}
	}
	if x == y {
		return ConstBool(op == OUle || op == OSle)
	}
	switch op {
	case OUlt:
		if y.Op == OConst && y.C == 0 {
			return FalseT
		}
		if x.Op == OConst && x.C == mask(x.S.W) {
			return FalseT
		}
	case OUle:
		if x.Op == OConst && x.C == 0 {
			return TrueT
		}
		if y.Op == OConst && y.C == mask(x.S.W) {
			return TrueT
		}
	}
	// compare zext(a) with constant in the narrow width (unsigned only)
	if (op == OUlt || op == OUle) && x.Op == OZext && y.Op == OConst {
		iw := x.A[0].S.W
		if y.C > mask(iw) {
			return TrueT
		}
		return b.cmp(op, x.A[0], ConstBV(iw, y.C))
	}
	if (op == OUlt || op == OUle) && y.Op == OZext && x.Op == OConst {
		iw := y.A[0].S.W
		if x.C > mask(iw) {
			return FalseT
		}
		return b.cmp(op, ConstBV(iw, x.C), y.A[0])
	}
	return b.mk(op, BoolSort, 0, 0, "", x, y)
}

func (b *TB) Ult(x, y *Term) *Term { return b.cmp(OUlt, x, y) }
func (b *TB) Ule(x, y *Term) *Term { return b.cmp(OUle, x, y) }
func (b *TB) Slt(x, y *Term) *Term { return b.cmp(OSlt, x, y) }
func (b *TB) Sle(x, y *Term) *Term { return b.cmp(OSle, x, y) }

func (b *TB) Extract(x *Term, hi, lo int) *Term {
	w := hi - lo + 1
	if lo == 0 && w == x.S.W {
		return x
	}
	if x.Op == OConst {
		return ConstBV(w, x.C>>uint(lo))
	}
	if x.Op == OZext || x.Op == OSext {
		iw := x.A[0].S.W
		if hi < iw {
			return b.Extract(x.A[0], hi, lo)
		}
		if x.Op == OZext && lo >= iw {
			return ConstBV(w, 0)
		}
	}
	if x.Op == OExtract {
		return b.Extract(x.A[0], hi+x.Lo, lo+x.Lo)
	}
	if x.Op == OConcat {
		lw := x.A[1].S.W
		if hi < lw {
			return b.Extract(x.A[1], hi, lo)
		}
		if lo >= lw {
			return b.Extract(x.A[0], hi-lw, lo-lw)
		}
	}
	// extract of shifted zext patterns: byte(x >> 8k) keep generic
	return b.mk(OExtract, BV(w), hi, lo, "", x)
}

func (b *TB) Zext(x *Term, to int) *Term {
	if to == x.S.W {
		return x
	}
	if to < x.S.W {
		return b.Extract(x, to-1, 0)
	}
	if x.Op == OConst {
		return ConstBV(to, x.C)
	}
	if x.Op == OZext {
		return b.Zext(x.A[0], to)
	}
	return b.mk(OZext, BV(to), to-x.S.W, 0, "", x)
}

func (b *TB) Sext(x *Term, to int) *Term {
	if to == x.S.W {
		return x
	}
	if to < x.S.W {
		return b.Extract(x, to-1, 0)
	}
	if x.Op == OConst {
		return ConstBV(to, uint64(x.sval()))
	}
	if x.Op == OZext {
		return b.Zext(x.A[0], to)
	}
	return b.mk(OSext, BV(to), to-x.S.W, 0, "", x)
}

func (b *TB) Concat(hi, lo *Term) *Term {
	w := hi.S.W + lo.S.W
	if hi.Op == OConst && lo.Op == OConst && w <= 64 {
		return ConstBV(w, hi.C<<uint(lo.S.W)|lo.C)
	}
	return b.mk(OConcat, BV(w), 0, 0, "", hi, lo)
}

// ---- Int theory (math/big) ----

func (b *TB) ibin(op Op, x, y *Term) *Term {
	if x.Op == OConst && y.Op == OConst {
		r := new(big.Int)
		switch op {
		case OIAdd:
			r.Add(x.Big, y.Big)
		case OISub:
			r.Sub(x.Big, y.Big)
		case OIMul:
			r.Mul(x.Big, y.Big)
		case OIDiv: // SMT-LIB div: floor for positive divisor (Euclidean)
			if y.Big.Sign() == 0 {
				return b.mk(op, IntSort, 0, 0, "", x, y)
			}
			m := new(big.Int)
			r.DivMod(x.Big, y.Big, m)
		case OIMod:
			if y.Big.Sign() == 0 {
				return b.mk(op, IntSort, 0, 0, "", x, y)
			}
			q := new(big.Int)
			q.DivMod(x.Big, y.Big, r)
		}
		return ConstInt(r)
	}
	return b.mk(op, IntSort, 0, 0, "", x, y)
}

func (b *TB) IAdd(x, y *Term) *Term { return b.ibin(OIAdd, x, y) }
func (b *TB) ISub(x, y *Term) *Term { return b.ibin(OISub, x, y) }
func (b *TB) IMul(x, y *Term) *Term { return b.ibin(OIMul, x, y) }
func (b *TB) IDiv(x, y *Term) *Term { return b.ibin(OIDiv, x, y) }
func (b *TB) IMod(x, y *Term) *Term { return b.ibin(OIMod, x, y) }
func (b *TB) INeg(x *Term) *Term {
	if x.Op == OConst {
		return ConstInt(new(big.Int).Neg(x.Big))
	}
	return b.mk(OINeg, IntSort, 0, 0, "", x)
}
func (b *TB) ILe(x, y *Term) *Term {
	if x.Op == OConst && y.Op == OConst {
		return ConstBool(x.Big.Cmp(y.Big) <= 0)
	}
	return b.mk(OILe, BoolSort, 0, 0, "", x, y)
}
func (b *TB) ILt(x, y *Term) *Term {
	if x.Op == OConst && y.Op == OConst {
		return ConstBool(x.Big.Cmp(y.Big) < 0)
	}
	return b.mk(OILt, BoolSort, 0, 0, "", x, y)
}

// Int2BV: two's complement truncation of an Int to w bits.
func (b *TB) Int2BV(x *Term, w int) *Term {
	if x.Op == OConst {
		m := new(big.Int).Lsh(big.NewInt(1), uint(w))
		r := new(big.Int).Mod(x.Big, m)
		return ConstBV(w, r.Uint64())
	}
	return b.mk(OInt2BV, BV(w), w, 0, "", x)
}

// BV2Int: unsigned value.
func (b *TB) BV2Int(x *Term) *Term {
	if x.Op == OConst {
		return ConstInt(new(big.Int).SetUint64(x.C))
	}
	return b.mk(OBV2Int, IntSort, 0, 0, "", x)
}

// SBV2Int: signed value.
func (b *TB) SBV2Int(x *Term) *Term {
	if x.Op == OConst {
		return ConstInt(big.NewInt(x.sval()))
	}
	w := x.S.W
	u := b.BV2Int(x)
	neg := b.Slt(x, ConstBV(w, 0))
	p := ConstInt(new(big.Int).Lsh(big.NewInt(1), uint(w)))
	return b.Ite(neg, b.ISub(u, p), u)
}

func (b *TB) UF(name string, s Sort, args ...*Term) *Term {
	return b.mk(OUF, s, 0, 0, name, args...)
}

// ---- printing ----

func constLit(t *Term) string {
	switch t.S.K {
	case KBool:
		if t.C != 0 {
			return "true"
		}
		return "false"
	case KInt:
		if t.Big.Sign() < 0 {
			return "(- " + new(big.Int).Neg(t.Big).String() + ")"
		}
		return t.Big.String()
	}
	if t.S.W%4 == 0 {
		return fmt.Sprintf("#x%0*x", t.S.W/4, t.C)
	}
	return fmt.Sprintf("#b%0*b", t.S.W, t.C)
}

func (t *Term) ref() string {
	switch t.Op {
	case OConst:
		return constLit(t)
	case OVar:
		return t.Name
	}
	return fmt.Sprintf("t%d", t.id)
}

// body renders the defining expression of a non-leaf term in terms of refs.
func (t *Term) body() string {
	var sb strings.Builder
	switch t.Op {
	case ONot:
		if t.S.K == KBool {
			sb.WriteString("(not " + t.A[0].ref() + ")")
		} else {
			sb.WriteString("(bvnot " + t.A[0].ref() + ")")
		}
	case OExtract:
		fmt.Fprintf(&sb, "((_ extract %d %d) %s)", t.Hi, t.Lo, t.A[0].ref())
	case OZext:
		fmt.Fprintf(&sb, "((_ zero_extend %d) %s)", t.Hi, t.A[0].ref())
	case OSext:
		fmt.Fprintf(&sb, "((_ sign_extend %d) %s)", t.Hi, t.A[0].ref())
	case OInt2BV:
		fmt.Fprintf(&sb, "((_ int2bv %d) %s)", t.Hi, t.A[0].ref())
	case OBV2Int:
		fmt.Fprintf(&sb, "(bv2nat %s)", t.A[0].ref())
	case OUF:
		if len(t.A) == 0 {
			sb.WriteString(t.Name)
		} else {
			sb.WriteString("(" + t.Name)
			for _, a := range t.A {
				sb.WriteString(" " + a.ref())
			}
			sb.WriteString(")")
		}
	default:
		sb.WriteString("(" + opNames[t.Op])
		for _, a := range t.A {
			sb.WriteString(" " + a.ref())
		}
		sb.WriteString(")")
	}
	return sb.String()
}

// String renders a term fully inline (for evidence samples / debugging).
func (t *Term) String() string {
	var sb strings.Builder
	t.write(&sb, 0)
	return sb.String()
}

func (t *Term) write(sb *strings.Builder, depth int) {
	if t.Op == OConst || t.Op == OVar {
		sb.WriteString(t.ref())
		return
	}
	if depth > 12 || sb.Len() > 4000 {
		sb.WriteString("…")
		return
	}
	switch t.Op {
	case ONot:
		if t.S.K == KBool {
			sb.WriteString("(not ")
		} else {
			sb.WriteString("(bvnot ")
		}
	case OExtract:
		fmt.Fprintf(sb, "((_ extract %d %d) ", t.Hi, t.Lo)
	case OZext:
		fmt.Fprintf(sb, "((_ zero_extend %d) ", t.Hi)
	case OSext:
		fmt.Fprintf(sb, "((_ sign_extend %d) ", t.Hi)
	case OInt2BV:
		fmt.Fprintf(sb, "((_ int2bv %d) ", t.Hi)
	case OBV2Int:
		sb.WriteString("(bv2nat ")
	case OUF:
		sb.WriteString("(" + t.Name + " ")
	default:
		sb.WriteString("(" + opNames[t.Op] + " ")
	}
	for i, a := range t.A {
		if i > 0 {
			sb.WriteString(" ")
		}
		a.write(sb, depth+1)
	}
	sb.WriteString(")")
}

// Eval evaluates a term under an assignment of variables (by name). Returns
// (value, ok); ok is false when a variable is missing or an op is unsupported
// (Int theory, UF).
func (t *Term) Eval(env map[string]uint64, memo map[*Term]uint64) (uint64, bool) {
	switch t.Op {
	case OConst:
		if t.S.K == KInt {
			return 0, false
		}
		return t.C, true
	case OVar:
		v, ok := env[t.Name]
		return v & maskS(t.S), ok
	}
	if v, ok := memo[t]; ok {
		return v, true
	}
	var av [3]uint64
	if len(t.A) > 3 {
		return 0, false
	}
	for i, a := range t.A {
		v, ok := a.Eval(env, memo)
		if !ok {
			return 0, false
		}
		av[i] = v
	}
	ca := func(i int) *Term { return &Term{Op: OConst, S: t.A[i].S, C: av[i]} }
	var tb TB
	var r *Term
	switch t.Op {
	case OAdd, OSub, OMul, OUDiv, OURem, OSDiv, OSRem, OAnd, OOr, OXor, OShl, OLshr, OAshr:
		r = tb.bin(t.Op, ca(0), ca(1))
	case OUlt, OUle, OSlt, OSle:
		r = tb.cmp(t.Op, ca(0), ca(1))
	case ONot:
		if t.S.K == KBool {
			r = ConstBool(av[0] == 0)
		} else {
			r = ConstBV(t.S.W, ^av[0])
		}
	case ONeg:
		r = ConstBV(t.S.W, -av[0])
	case OConcat:
		if t.S.W > 64 {
			return 0, false
		}
		r = ConstBV(t.S.W, av[0]<<uint(t.A[1].S.W)|av[1])
	case OExtract:
		if t.A[0].S.W > 64 {
			return 0, false
		}
		r = ConstBV(t.S.W, av[0]>>uint(t.Lo))
	case OZext:
		r = ConstBV(t.S.W, av[0])
	case OSext:
		r = ConstBV(t.S.W, uint64(ca(0).sval()))
	case OIte:
		if av[0] != 0 {
			r = &Term{Op: OConst, S: t.S, C: av[1]}
		} else {
			r = &Term{Op: OConst, S: t.S, C: av[2]}
		}
	case OEq:
		if t.A[0].S.K == KInt {
			return 0, false
		}
		r = ConstBool(av[0] == av[1])
	case OBAnd:
		r = ConstBool(av[0] != 0 && av[1] != 0)
	case OBOr:
		r = ConstBool(av[0] != 0 || av[1] != 0)
	default:
		return 0, false
	}
	memo[t] = r.C
	return r.C, true
}

func maskS(s Sort) uint64 {
	if s.K == KBool {
		return 1
	}
	return mask(s.W)
}
