//go:build verif

package engine

import (
	"errors"
	"fmt"
	"sync"
	"sync/atomic"

	"github.com/nspcc-dev/neofs-node/internal/vrt"
	meta "github.com/nspcc-dev/neofs-node/pkg/local_object_storage/metabase"
	"github.com/nspcc-dev/neofs-node/pkg/local_object_storage/shard"
	"github.com/nspcc-dev/neofs-node/pkg/local_object_storage/shard/mode"
	apistatus "github.com/nspcc-dev/neofs-sdk-go/client/status"
	oid "github.com/nspcc-dev/neofs-sdk-go/object/id"
	"go.uber.org/zap"
)

// per-shard facts of the read harness
type c20shard struct {
	m       mode.Mode
	holds   bool // the object's data is in this shard's blob storage / write-cache
	metaHas bool // the shard's metabase lists the object (only with a metabase)
	ioError bool // the first request to this shard fails with an I/O error
	calls   int
}

var c20 struct {
	sh      [3]c20shard
	n       int
	removed bool // a tombstone was accepted by the engine: every shard with a metabase knows it
	expired bool
}

// c20get models Shard.Get and its variants from the facts.
func c20get(s *shard.Shard, ignoreMeta bool) error {
	f := &c20.sh[s.VerifIndex()]
	f.calls++
	if f.ioError && f.calls == 1 {
		return errors.New("input/output error")
	}
	if !ignoreMeta && !f.m.NoMetabase() {
		if c20.removed {
			return apistatus.ErrObjectAlreadyRemoved
		}
		if !f.metaHas {
			return apistatus.ErrObjectNotFound
		}
		if c20.expired {
			return meta.ErrObjectIsExpired
		}
		if !f.holds {
			return fmt.Errorf("%w, %w", apistatus.ErrObjectNotFound, shard.ErrMetaWithNoObject)
		}
		return nil
	}
	if f.holds {
		return nil
	}
	return apistatus.ErrObjectNotFound
}

func c20engine(n int) *StorageEngine {
	e := &StorageEngine{cfg: &cfg{log: zap.NewNop()}, mtx: new(sync.RWMutex), shards: map[string]shardWrapper{}}
	for i := 0; i < n; i++ {
		sh := shard.VerifNewModelShard(byte(i), c20.sh[i].m)
		e.shards[sh.ID().String()] = shardWrapper{Shard: sh, engine: e, errorCount: new(atomic.Uint32)}
	}
	return e
}

var c20modes = [...]mode.Mode{mode.ReadWrite, mode.ReadOnly, mode.DegradedReadOnly}

// VerifC20Read: the engine's read loop over 1..3 shards visited in every order,
// in every mode combination, with I/O errors on arbitrary shards, objects stored
// on arbitrary shards (metadata and data possibly on different shards), removed
// or expired: the object is returned exactly when some readable shard holds it
// and it is neither removed nor expired; an error or a degraded shard never
// hides an object held by another shard and never revives a removed one.
func VerifC20Read() {
	verifShardOrder = true
	c20.n = 1 + vrt.Choice("shards", 3)
	c20.removed = vrt.Bool("removed")
	c20.expired = !c20.removed && vrt.Bool("expired")
	anyHolds, degradedHolds, healthyHolder := false, false, false
	failing := vrt.Choice("shardWithIOError", c20.n+1) // at most one shard fails
	for i := 0; i < c20.n; i++ {
		f := &c20.sh[i]
		*f = c20shard{m: c20modes[vrt.Choice("mode", len(c20modes))]}
		f.holds = vrt.Bool("holdsData")
		if !f.m.NoMetabase() {
			f.metaHas = f.holds || vrt.Bool("metadataWithoutData")
		}
		f.ioError = i == failing
		anyHolds = anyHolds || f.holds
		healthyHolder = healthyHolder || (f.holds && !f.ioError)
		degradedHolds = degradedHolds || (f.holds && f.m.NoMetabase())
	}
	e := c20engine(c20.n)
	var a oid.Address
	err := e.get(a, c20get)
	switch {
	case c20.removed || c20.expired:
		if !degradedHolds {
			if failing < c20.n {
				// what the failing shard holds and whether something makes the engine
				// read the shards a second time without metadata
				cls := "the failing shard does not hold the data"
				if c20.sh[failing].holds {
					cls = "the failing shard holds the data"
				}
				second := false
				for i := 0; i < c20.n; i++ {
					f := &c20.sh[i]
					if f.m.NoMetabase() || (f.metaHas && !f.holds) {
						second = true
					}
				}
				if second {
					cls += ", another shard is degraded or lists metadata without data"
				}
				vrt.Assert(err != nil, "a removed or expired object is never returned, even when a shard fails ("+cls+")")
			} else {
				vrt.Assert(err != nil, "a removed or expired object is never returned")
			}
		}
	case healthyHolder:
		vrt.Assert(err == nil, "an object held by a healthy readable shard is returned whatever the order, modes and errors of the other shards")
		vrt.Reach("found")
	case anyHolds:
		// the only holder fails: nothing is demanded
	default:
		vrt.Assert(err != nil, "an object nobody holds is not returned")
		vrt.Reach("absent")
	}
}
