//go:build verif

package container

// VerifHookUnmarshal replaces the reflection-based protobuf decoding of
// containers by a model codec. The real method is renamed to Unmarshal__real.
var VerifHookUnmarshal func(x *Container, data []byte) error

func (x *Container) Unmarshal(data []byte) error {
	if h := VerifHookUnmarshal; h != nil {
		return h(x, data)
	}
	return x.Unmarshal__real(data)
}
