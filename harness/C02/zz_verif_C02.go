//go:build verif

package meta

import (
	"github.com/nspcc-dev/bbolt"
	"github.com/nspcc-dev/neofs-node/internal/vrt"
	"github.com/nspcc-dev/neofs-sdk-go/object"
	oid "github.com/nspcc-dev/neofs-sdk-go/object/id"
)

type c02facts struct {
	tStored, tMarked bool
	tsStored, lStored, eStored bool
	cnrGone bool
	reputMarked bool // the object was put again while stored and marked for removal
	nested      bool // a part with two levels of parent headers is stored as well
}

// c02check compares the incrementally maintained counters of container 0 and
// the real recount (syncContainerCounters, force) with the numbers that follow
// from the facts of the history.
func c02check(db *DB, f *c02facts) {
	_ = db.boltDB.Update(func(tx *bbolt.Tx) error {
		b := tx.Bucket(metaBucketKey(vmCID(0)))
		if b == nil {
			return nil
		}
		var phy, ts, lock, gc, payload uint64 = 1, 0, 0, 0, 11 // the bystander
		if f.tStored {
			phy++
			if f.tMarked {
				gc++
			} else {
				payload += 7
			}
		}
		if f.tsStored {
			phy++
			ts++
		}
		if f.lStored {
			phy++
			lock++
		}
		if f.eStored {
			phy++
			payload += 5
		}
		if f.nested {
			phy++
			payload += 4
		}
		inc := getCountersByContainer(b)
		if f.reputMarked {
			// known finding: the second put counts the object again
			vrt.Assert(inc.Phy == phy && inc.Payload == payload && inc.GC == gc, "incremental counters after a repeated put of a stored object that is marked for removal")
		} else if !f.cnrGone {
			vrt.Assert(inc.Phy == phy, "incremental: physical counter equals the number of stored objects")
			vrt.Assert(inc.TS == ts, "incremental: tombstone counter")
			vrt.Assert(inc.Lock == lock, "incremental: lock counter")
			vrt.Assert(inc.GC == gc, "incremental: removal-marked counter equals the number of stored objects marked for removal")
			vrt.Assert(inc.Payload == payload, "incremental: payload size equals the payload of stored objects not marked for removal")
		}
		if err := syncContainerCounters(b, true); err != nil {
			vrt.Assert(false, "recount works")
			return nil
		}
		rec := getCountersByContainer(b)
		if !f.reputMarked {
			vrt.Assert(inc.Root == rec.Root, "root counter agrees with the recount")
		}
		if !f.cnrGone {
			vrt.Assert(rec.Phy == phy && rec.TS == ts && rec.Lock == lock, "recount: per-type counters")
			vrt.Assert(rec.GC == gc, "recount: removal-marked counter")
			vrt.Assert(rec.Payload == payload, "recount: payload size")
		} else {
			vrt.Assert(inc == rec, "removed container: recount agrees with the incremental counters")
		}
		return nil
	})
}

// VerifC02History: after every history of K operations on a stored object
// (tombstone, lock, default/redundant garbage marks incl. repeated ones,
// physical delete and re-put, an already expired object, container removal)
// the per-container counters, incrementally maintained and recounted by the
// real syncContainerCounters, equal the numbers the property defines.
func VerifC02History() {
	ep := &vmEpoch{e: 3}
	db := vmNewDB(ep)
	k := vrt.Param("K")
	var f c02facts
	vrt.Assert(db.Put(vmObj(0, 9, object.TypeRegular, -1, 11)) == nil, "setup put")
	vrt.Assert(db.Put(vmObj(0, 1, object.TypeRegular, -1, 7)) == nil, "setup put")
	f.tStored = true
	if vrt.Bool("partWithNestedParents") {
		// a physical part whose parent header has a parent itself (e.g. an EC part of a split child)
		root := vmObj(0, 8, object.TypeRegular, -1, 0)
		mid := vmObj(0, 7, object.TypeRegular, -1, 0)
		mid.SetParent(root)
		mid.SetParentID(vmOID(8))
		part := vmObj(0, 6, object.TypeRegular, -1, 4)
		part.SetParent(mid)
		part.SetParentID(vmOID(7))
		if db.Put(part) == nil {
			f.nested = true
		}
	}
	for step := 0; step < k; step++ {
		if f.cnrGone {
			break
		}
		switch vrt.Choice("op", 8) {
		case 0:
			if f.tStored && f.tMarked {
				f.reputMarked = true
			}
			if db.Put(vmObj(0, 1, object.TypeRegular, -1, 7)) == nil && !f.tStored {
				f.tStored = true
			}
		case 1:
			if db.Put(vmObj(0, 4, object.TypeRegular, 2, 5)) == nil { // already expired at epoch 3
				f.eStored = true
			}
		case 2:
			vrt.Assume(f.tStored) // removal of unknown objects is outside this check
			ts := vmObj(0, 2, object.TypeTombstone, 20, 0)
			ts.AssociateDeleted(vmOID(1))
			if db.Put(ts) == nil && !f.tsStored {
				f.tsStored, f.tMarked = true, true
			}
		case 3:
			l := vmObj(0, 3, object.TypeLock, 20, 0)
			l.AssociateLocked(vmOID(1))
			if db.Put(l) == nil {
				f.lStored = true
			}
		case 4:
			vrt.Assume(f.tStored)
			if _, err := db.MarkGarbage(vmCID(0), []oid.ID{vmOID(1)}, GarbageMarkDefault); err == nil {
				f.tMarked = true
			}
		case 5:
			vrt.Assume(f.tStored)
			if _, err := db.MarkGarbage(vmCID(0), []oid.ID{vmOID(1)}, GarbageMarkRedundant); err == nil {
				f.tMarked = true
			}
		case 6:
			if _, _, err := db.Delete(vmCID(0), []oid.ID{vmOID(1)}); err == nil {
				f.tStored, f.tMarked = false, f.tsStored // a stored tombstone keeps aiming at the object
			}
		case 7:
			if _, err := db.InhumeContainer(vmCID(0)); err == nil {
				f.cnrGone = true
			}
		}
	}
	c02check(db, &f)
	vrt.Reach("end")
}

// VerifC02UpdateCounter: the counter arithmetic for every stored value and delta.
func VerifC02UpdateCounter() {
	db := vmNewDB(&vmEpoch{e: 1})
	old := vrt.U64("stored")
	delta := vrt.I64("delta")
	_ = db.boltDB.Update(func(tx *bbolt.Tx) error {
		b, _ := tx.CreateBucketIfNotExists(metaBucketKey(vmCID(0)))
		var raw [8]byte
		for i := 0; i < 8; i++ {
			raw[i] = byte(old >> (8 * i))
		}
		_ = b.Put([]byte{metaPrefixPhyCounter}, raw[:])
		_ = b.Put([]byte{metaPrefixRootCounter}, raw[:])
		vrt.Assert(updateCounter(b, phyCounter, delta) == nil, "update works")
		got := getCountersByContainer(b)
		if delta >= 0 {
			if old+uint64(delta) >= old {
				vrt.Assert(got.Phy == old+uint64(delta), "positive delta is added")
			}
		} else {
			dec := uint64(-delta) // MinInt64 maps to 2^63
			if dec > old {
				vrt.Assert(got.Phy == 0, "a counter never goes below zero")
			} else {
				vrt.Assert(got.Phy == old-dec, "negative delta is subtracted")
			}
			vrt.Assert(got.Phy <= old, "a negative delta never increases a counter")
		}
		vrt.Assert(got.Root == old, "other counters are untouched")
		return nil
	})
	vrt.Reach("end")
}
