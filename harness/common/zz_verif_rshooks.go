//go:build verif

package reedsolomon

// Models of the GF(2^8) kernels of the codec for the symbolic engine. The real
// kernels multiply by a constant through 256-entry table look-ups (or SIMD
// assembly); with a symbolic byte as index that is a 256-way selection per
// byte. Multiplication by a constant c is linear over GF(2), so
//
//	c*x = XOR over the set bits i of x of (c * 2^i)
//
// which needs only the eight table entries mulTable[c][1<<i] (constants) and
// masks. VerifLinearGF switches galMulSlice / galMulSliceXor to that form
// (natively too, so replays agree); the identity with the table is checked
// for every c and x by VerifCheckLinearGF. VerifNoTable16 skips building the
// 32 MB two-byte table that is never read for inputs shorter than 8 bytes.
// The real functions are renamed to <name>__real.
var (
	VerifLinearGF  bool
	VerifNoTable16 bool
)

func verifMul(c, x byte) byte {
	var r byte
	t := &mulTable[c]
	for i := 0; i < 8; i++ {
		m := -((x >> i) & 1) // 0x00 or 0xFF
		r ^= t[1<<i] & m
	}
	return r
}

// VerifCheckLinearGF reports whether the linear form equals the table for all inputs.
func VerifCheckLinearGF() bool {
	for c := 0; c < 256; c++ {
		for x := 0; x < 256; x++ {
			if verifMul(byte(c), byte(x)) != mulTable[c][x] {
				return false
			}
		}
	}
	return true
}

func galMulSlice(c byte, in, out []byte, o *options) {
	if VerifLinearGF {
		for i := range in {
			out[i] = verifMul(c, in[i])
		}
		return
	}
	galMulSlice__real(c, in, out, o)
}

func galMulSliceXor(c byte, in, out []byte, o *options) {
	if VerifLinearGF {
		for i := range in {
			out[i] ^= verifMul(c, in[i])
		}
		return
	}
	galMulSliceXor__real(c, in, out, o)
}

func getMulTable16(c byte) *[65536]uint16 {
	if VerifNoTable16 {
		return nil
	}
	return getMulTable16__real(c)
}
