//go:build verif

package objectcore

import (
	"bytes"
	"strconv"

	"github.com/nspcc-dev/neofs-node/internal/signed256"
	"github.com/nspcc-dev/neofs-node/internal/vrt"
	"github.com/nspcc-dev/neofs-sdk-go/client"
	"github.com/nspcc-dev/neofs-sdk-go/object"
	oid "github.com/nspcc-dev/neofs-sdk-go/object/id"
)

func c04oid(name string) oid.ID {
	var id oid.ID
	for i := range id {
		id[i] = byte(0x30 + i)
	}
	id[0] = vrt.Byte(name)
	id[31] = vrt.Byte(name)
	return id
}

func c04raw(n int, name string) []byte {
	b := make([]byte, n)
	for i := range b {
		b[i] = byte(0x41 + i%23)
	}
	b[0] = vrt.Byte(name)
	b[n-1] = vrt.Byte(name)
	return b
}

// VerifC04Cursor: the cursor computed for the last returned item equals the
// index key (without its prefix byte) under which the put side stored that
// attribute value for that object, for every attribute class; hence the next
// request seeks exactly behind the last item.
func VerifC04Cursor() {
	id := c04oid("oid")
	var attr string
	var stored []byte // raw value bytes as stored in the ATTR->ID index
	op := object.MatchStringEqual
	intKey := false
	switch cls := vrt.Choice("attributeClass", 11); cls {
	case 0:
		attr = "Attr"
		stored = c04raw(3, "val")
		vrt.Assume(stored[0] != 0 && stored[2] != 0)
	case 1:
		attr = "Attr"
		op = object.MatchNumGT
		intKey = true
	case 2:
		attr, stored = object.FilterOwnerID, c04raw(25, "val")
		stored[0], stored[24] = 0x35, 0x11 // base58 arithmetic on symbolic bytes is out of reach: concrete
	case 3:
		attr, stored = object.FilterParentID, c04raw(32, "val")
		stored[0], stored[31] = 0x35, 0x11
	case 4:
		attr, stored = object.FilterFirstSplitObject, c04raw(32, "val")
		stored[0], stored[31] = 0x35, 0x11
	case 5:
		attr, stored = object.AttributeAssociatedObject, c04raw(32, "val")
		stored[0], stored[31] = 0x35, 0x11
	case 6:
		attr, stored = object.FilterPayloadChecksum, c04raw(32, "val")
	case 7:
		//nolint:staticcheck
		attr, stored = object.FilterPayloadHomomorphicHash, c04raw(64, "val")
	case 8:
		attr, stored = object.FilterSplitID, c04raw(16, "val")
		stored[0], stored[15] = 0x35, 0x11
		stored[6] = 0x40 | (stored[6] & 0x0f)
	case 9:
		attr, stored = object.FilterVersion, []byte("v2.18")
	case 10:
		attr, stored = object.FilterType, []byte("TOMBSTONE")
	}
	var want []byte
	var itemVal string
	if intKey {
		v := vrt.I64("intValue")
		vrt.Assume(v > -100 && v < 100)
		n := signed256.NewInt(v)
		itemVal = n.String()
		want = append(append(append([]byte(attr), MetaAttributeDelimiter...), IntBytes(&n)...), id[:]...)
	} else {
		var err error
		itemVal, err = restoreAttributeValue(attr, stored)
		vrt.Assert(err == nil, "stored value is presentable")
		want = append(append(append(append([]byte(attr), MetaAttributeDelimiter...), stored...), MetaAttributeDelimiter...), id[:]...)
	}
	var fs object.SearchFilters
	fs.AddFilter(attr, itemVal, op)
	cur, err := CalculateCursor(&fs[0], client.SearchResultItem{ID: id, Attributes: []string{itemVal}})
	vrt.Assert(err == nil, "a cursor can be computed for every returned item, class "+attr)
	if err == nil {
		vrt.Assert(bytes.Equal(cur, want), "cursor equals the index key of the last item, class "+attr)
	}
	vrt.Reach("end")
}

type c04item struct {
	id   byte
	val  int // attribute as a small number (int mode) or a byte (string mode)
	neg0 bool
}

func c04mk(it c04item, cmpInt bool) client.SearchResultItem {
	var id oid.ID
	id[0] = it.id
	var a string
	if cmpInt {
		a = strconv.Itoa(it.val)
		if it.neg0 && it.val == 0 {
			a = "-0"
		}
	} else {
		a = string([]byte{byte(it.val)})
	}
	return client.SearchResultItem{ID: id, Attributes: []string{a}}
}

func c04less(a, b c04item) bool {
	if a.val != b.val {
		return a.val < b.val
	}
	return a.id < b.id
}

// VerifC04Merge: merging S sorted, duplicate-free result sets of up to 2 items
// (objects are shared between sets: same ID implies same attribute) equals one
// search over the union: first lim items of the union in index order, no
// duplicates, and the continuation flag is exact.
func VerifC04Merge() {
	cmpInt := vrt.Bool("numericAttribute")
	nsets := vrt.Param("S")
	// universe of 3 objects with distinct IDs and arbitrary attribute values
	const U = 3
	var objs [U]c04item
	numVals := [U][]int{{-19, 0, 0, 10}, {0, 5}, {-15, 5, 10}} // second 0 of object 0 is spelled "-0"
	for i := range objs {
		objs[i].id = byte(16 + i*16) // distinct IDs in a fixed order; the attribute decides the index order
		if cmpInt {
			c := vrt.Choice("num", len(numVals[i]))
			objs[i].val = numVals[i][c]
			objs[i].neg0 = i == 0 && c == 2
		} else {
			objs[i].val = 0x61 + vrt.Choice("chr", 2)
		}
	}
	sets := make([][]client.SearchResultItem, nsets)
	mores := make([]bool, nsets)
	inUnion := [U]bool{}
	subsets := [][]int{{}, {0}, {1}, {2}, {0, 1}, {0, 2}, {1, 2}}
	for s := 0; s < nsets; s++ {
		var members []c04item
		for _, i := range subsets[vrt.Choice("members", len(subsets))] {
			members = append(members, objs[i])
			inUnion[i] = true
		}
		if len(members) == 2 && !c04less(members[0], members[1]) {
			members[0], members[1] = members[1], members[0]
		}
		for _, m := range members {
			sets[s] = append(sets[s], c04mk(m, cmpInt))
		}
	}
	if m := vrt.Choice("more", nsets+1); m < nsets {
		mores[m] = true
	}
	anyMore := false
	for _, m := range mores {
		anyMore = anyMore || m
	}
	// reference: sorted union
	var union []c04item
	for i := 0; i < U; i++ {
		if !inUnion[i] {
			continue
		}
		pos := len(union)
		for pos > 0 && c04less(objs[i], union[pos-1]) {
			pos--
		}
		union = append(union, c04item{})
		copy(union[pos+1:], union[pos:])
		union[pos] = objs[i]
	}
	lim := uint16(vrt.IntRange("limit", 1, 4))
	first := "Attr"
	res, more, err := MergeSearchResults(lim, first, cmpInt, sets, mores)
	vrt.Assert(err == nil, "merge of well-formed sets succeeds")
	if err != nil {
		return
	}
	n := len(union)
	if int(lim) < n {
		n = int(lim)
	}
	vrt.Assert(len(res) == n, "merged page has min(limit, |union|) items")
	if len(res) == n {
		for i := 0; i < n; i++ {
			vrt.Assert(res[i].ID[0] == union[i].id, "merged items are the union in index order without duplicates")
		}
	}
	if len(union) > 0 {
		vrt.Assert(more == (len(union) > int(lim) || anyMore), "continuation flag is set exactly when something is left")
	}
	vrt.Reach("end")
}
