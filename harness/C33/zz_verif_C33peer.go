//go:build verif

package peerauth

import (
	"context"

	"github.com/nspcc-dev/neo-go/pkg/crypto/keys"
	"github.com/nspcc-dev/neofs-node/internal/vrt"
	"google.golang.org/grpc/credentials"
	"google.golang.org/grpc/peer"
)

// c33otherAuth is authentication information of some other transport security.
type c33otherAuth struct{}

func (c33otherAuth) AuthType() string { return "insecure" }

// c33ctx is a request context that carries the given gRPC peer (the context
// package builds its value chain with reflection; the peer lookup is the only
// value lookup on this path).
type c33ctx struct {
	context.Context
	p *peer.Peer
}

func (c c33ctx) Value(any) any {
	if c.p == nil {
		return nil
	}
	return c.p
}

// VerifC33TrustedPeer: the real decision "this connection was authenticated
// during the TLS handshake" over every kind of peer information a request
// context can carry: only the information the node's own handshake produces
// for a peer that presented a supported client certificate counts. A plain TLS
// peer without a client certificate is not an authenticated peer.
func VerifC33TrustedPeer() {
	var ctx context.Context = c33ctx{Context: context.Background()}
	kind := vrt.Choice("peerInformation", 6)
	switch kind {
	case 0: // no peer information at all
	case 1:
		ctx = c33ctx{Context: context.Background(), p: &peer.Peer{}}
	case 2:
		ctx = c33ctx{Context: context.Background(), p: &peer.Peer{AuthInfo: credentials.TLSInfo{}}}
	case 3:
		ctx = c33ctx{Context: context.Background(), p: &peer.Peer{AuthInfo: c33otherAuth{}}}
	case 4:
		ctx = c33ctx{Context: context.Background(), p: &peer.Peer{AuthInfo: AuthInfo{PublicKey: new(keys.PublicKey)}}}
	case 5:
		ctx = c33ctx{Context: context.Background(), p: &peer.Peer{AuthInfo: &credentials.TLSInfo{}}}
	}
	got := IsTrustedPeer__real(ctx)
	vrt.Assert(got == (kind == 4), "only a peer that presented a client certificate during the node's TLS handshake is an authenticated peer")
	if got {
		vrt.Reach("trusted")
	} else {
		vrt.Reach("untrusted")
	}
}
