//go:build verif

package replicator

// VerifQuantity exposes the number of copies a task asks for (harness accessor).
func (t Task) VerifQuantity() uint32 { return t.quantity }
