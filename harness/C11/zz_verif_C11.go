//go:build verif

package common

import (
	"errors"

	"github.com/nspcc-dev/neofs-node/internal/vrt"
	apistatus "github.com/nspcc-dev/neofs-sdk-go/client/status"
)

// refResolve is the reference meaning of a payload range, written with
// comparisons only (no subtraction that could wrap before it is guarded).
func refResolve(r PayloadRange, n uint64) (off, ln uint64, ok bool) {
	switch r.Mode {
	case PayloadRangeModeNone:
		return 0, n, true
	case PayloadRangeModeOffsetLength:
		if r.Second == 0 {
			if r.First != 0 {
				return 0, 0, false
			}
			return 0, n, true
		}
		if r.First >= n {
			return 0, 0, false
		}
		if r.Second > n-r.First {
			return 0, 0, false
		}
		return r.First, r.Second, true
	case PayloadRangeModeBounds:
		if r.First > r.Second || r.First >= n {
			return 0, 0, false
		}
		last := r.Second
		if last > n-1 {
			last = n - 1
		}
		return r.First, last - r.First + 1, true
	case PayloadRangeModeFrom:
		if r.First >= n {
			return 0, 0, false
		}
		return r.First, n - r.First, true
	case PayloadRangeModeSuffix:
		if r.First == 0 {
			return 0, 0, false
		}
		if r.First >= n {
			return 0, n, true
		}
		return n - r.First, r.First, true
	}
	return 0, 0, false
}

// VerifC11Resolve: PayloadRange.Resolve for every First, Second, payload
// length (full 64-bit) and every mode byte.
func VerifC11Resolve() {
	r := PayloadRange{First: vrt.U64("first"), Second: vrt.U64("second"), Mode: PayloadRangeMode(vrt.Byte("mode"))}
	n := vrt.U64("payloadLen")
	off, ln, err := r.Resolve(n)
	wOff, wLn, wOK := refResolve(r, n)
	vrt.Assert(wOK == (err == nil), "error exactly when the slice is unsatisfiable")
	if err != nil {
		if r.Mode <= PayloadRangeModeSuffix {
			vrt.Assert(errors.Is(err, apistatus.ErrObjectOutOfRange), "unsatisfiable range reports out-of-range")
		}
		vrt.Assert(off == 0 && ln == 0, "no slice on error")
		vrt.Reach("error")
		return
	}
	vrt.Assert(off == wOff, "offset as defined by the range")
	vrt.Assert(ln == wLn, "length as defined by the range")
	vrt.Assert(off <= n, "offset inside payload")
	vrt.Assert(ln <= n-off, "slice inside payload without wrap-around")
	switch r.Mode {
	case PayloadRangeModeFrom, PayloadRangeModeSuffix, PayloadRangeModeNone:
		vrt.Assert(off+ln == n, "slice reaches the payload end")
	case PayloadRangeModeBounds:
		vrt.Assert(off == r.First && (off+ln-1 == r.Second || (r.Second >= n && off+ln == n)), "inclusive bounds, clamped to payload end")
	}
	vrt.Reach("ok")
}

// VerifC11Resolved: Resolved/IsFull agree with Resolve.
func VerifC11Resolved() {
	r := PayloadRange{First: vrt.U64("first"), Second: vrt.U64("second"), Mode: PayloadRangeMode(vrt.Byte("mode"))}
	n := vrt.U64("payloadLen")
	off, ln, err := r.Resolve(n)
	rr, err2 := r.Resolved(n)
	vrt.Assert((err == nil) == (err2 == nil), "Resolved fails exactly when Resolve fails")
	if err == nil {
		vrt.Assert(rr.Mode == PayloadRangeModeOffsetLength && rr.First == off && rr.Second == ln, "Resolved carries the resolved slice")
		if ln != 0 {
			// a resolved range resolves to itself
			o2, l2, e2 := rr.Resolve(n)
			vrt.Assert(e2 == nil && o2 == off && l2 == ln, "resolving is idempotent")
		}
		if r.IsFull() {
			vrt.Assert(off == 0 && ln == n, "IsFull ranges resolve to the whole payload")
		}
		vrt.Reach("ok")
	}
}
