//go:build verif

package fstree

import (
	"errors"

	"github.com/nspcc-dev/neofs-node/internal/vrt"
	"github.com/nspcc-dev/neofs-node/pkg/local_object_storage/blobstor/common"
	oid "github.com/nspcc-dev/neofs-sdk-go/object/id"
)

type c14writer struct{ calls int }

func (w *c14writer) writeData(oid.ID, string, []byte) error { w.calls++; return nil }
func (w *c14writer) finalize() error                      { return nil }
func (w *c14writer) writeBatch([]writeDataUnit) error     { w.calls++; return nil }

// VerifC14FSTreeReadOnly: a file tree opened read-only refuses every modifying
// operation - a single put, a batch of one, two or three objects, a removal,
// the clean-up of temporary files - before its writer or the file system is
// touched.
func VerifC14FSTreeReadOnly() {
	w := new(c14writer)
	t := &FSTree{Info: Info{RootPath: "/ro"}, readOnly: true, writer: w, Depth: 1}
	var a [3]oid.Address
	for i := range a {
		var id oid.ID
		id[0] = byte(i + 1)
		a[i].SetObject(id)
	}
	var err error
	switch vrt.Choice("operation", 4) {
	case 0:
		err = t.Put(a[0], []byte{1})
	case 1:
		batch := map[oid.Address][]byte{}
		for i := 0; i <= vrt.Choice("batchSizeMinusOne", 3); i++ {
			batch[a[i]] = []byte{1}
		}
		err = t.PutBatch(batch)
	case 2:
		err = t.Delete(a[0])
	case 3:
		err = t.CleanUpTmp()
	}
	vrt.Assert(errors.Is(err, common.ErrReadOnly), "a read-only file tree refuses every modifying operation")
	vrt.Assert(w.calls == 0, "a read-only file tree never reaches its writer")
	vrt.Reach("refused")
}
