//go:build verif

package shard

import (
	"bytes"
	"context"
	"errors"

	"github.com/nspcc-dev/neofs-node/internal/vrt"
	"github.com/nspcc-dev/neofs-node/pkg/local_object_storage/blobstor/common"
	meta "github.com/nspcc-dev/neofs-node/pkg/local_object_storage/metabase"
	"github.com/nspcc-dev/neofs-node/pkg/local_object_storage/shard/mode"
	"github.com/nspcc-dev/neofs-node/pkg/local_object_storage/writecache"
	"github.com/nspcc-dev/neofs-sdk-go/object"
	oid "github.com/nspcc-dev/neofs-sdk-go/object/id"
	"go.uber.org/zap"
)

// recording models of the blob storage and the write-cache
type c14blob struct {
	common.Storage
	writes int
}

func (b *c14blob) Put(oid.Address, []byte) error            { b.writes++; return nil }
func (b *c14blob) PutBatch(map[oid.Address][]byte) error    { b.writes++; return nil }
func (b *c14blob) Delete(oid.Address) error                 { b.writes++; return nil }
func (b *c14blob) Type() string                             { return "model" }
func (b *c14blob) Exists(oid.Address) (bool, error)         { return true, nil }

type c14wc struct {
	writecache.Cache
	writes int
}

func (w *c14wc) Put(oid.Address, *object.Object, []byte) error { w.writes++; return nil }
func (w *c14wc) Delete(oid.Address) error                     { w.writes++; return nil }
func (w *c14wc) Flush(bool) error                             { w.writes++; return nil }

type c14payments struct{}

func (c14payments) PaymentsDisabled() bool                { return false }
func (c14payments) UnpaidSince(c [32]byte) (int64, error) { return 0, nil }

var c14modes = [...]mode.Mode{mode.ReadOnly, mode.DegradedReadOnly, mode.ReadWrite}

// VerifC14ReadOnly: every modifying entry point of a shard and its background
// jobs, with the shard reporting a read-only mode while the components below
// would still accept writes: nothing is written to the metabase, the blob
// storage or the write-cache, and requests fail with a mode error. (In
// read-write mode the same operations do write: reachability witness.)
func VerifC14ReadOnly() {
	ep := &meta.VerifEpoch{E: 30}
	db := meta.VerifNewModelDB(ep)
	// contents: a regular object (expired at epoch 30), a garbage-marked object
	_ = db.Put(meta.VerifObj(0, 1, object.TypeRegular, 10, 3))
	_ = db.Put(meta.VerifObj(0, 2, object.TypeRegular, -1, 3))
	_, _ = db.MarkGarbage(meta.VerifCID(0), []oid.ID{meta.VerifOID(2)}, meta.GarbageMarkDefault)
	before := db.VerifWrites()
	blob, wc := &c14blob{}, &c14wc{}
	s := &Shard{cfg: &cfg{log: zap.NewNop(), rmBatchSize: 10, useWriteCache: true}, gc: &gc{}, metaBase: db, writeCache: wc}
	s.blobStor = blob
	s.gcCfg.containerPayments = nil
	m := c14modes[vrt.Choice("mode", len(c14modes))]
	s.info.Mode = m
	s.gc.currentEpoch.Store(30)
	var err error
	mustFail := true
	switch vrt.Choice("operation", 11) {
	case 0:
		obj := meta.VerifObj(0, 5, object.TypeRegular, -1, 3)
		err = s.Put(obj, obj.Marshal())
	case 1:
		err = s.Delete(meta.VerifCID(0), []oid.ID{meta.VerifOID(1)})
	case 2:
		err = s.MarkGarbage(meta.VerifCID(0), []oid.ID{meta.VerifOID(1)}, meta.GarbageMarkDefault)
	case 3:
		err = s.InhumeContainer(meta.VerifCID(0))
	case 4:
		err = s.DeleteContainer(context.Background(), meta.VerifCID(0))
	case 5:
		_, _, err = s.Restore(bytes.NewReader(append([]byte(nil), dumpMagic...)), true)
	case 6:
		_, err = s.ReviveObject(meta.VerifAddr(0, 2))
	case 7:
		err = s.FlushWriteCache(false)
	case 8:
		s.removeGarbage()
		mustFail = false
	case 9:
		s.collectExpiredObjects()
		mustFail = false
	case 10:
		s.gcCfg.containerPayments = nil
		obj := meta.VerifObj(0, 6, object.TypeTombstone, 90, 0)
		obj.AssociateDeleted(meta.VerifOID(1))
		err = s.Put(obj, obj.Marshal())
	}
	wrote := db.VerifWrites() != before || blob.writes != 0 || wc.writes != 0
	if m.ReadOnly() {
		vrt.Assert(!wrote, "a read-only shard writes nothing to metabase, blob storage or write-cache")
		if mustFail {
			vrt.Assert(errors.Is(err, ErrReadOnlyMode) || errors.Is(err, ErrDegradedMode), "modifying requests fail with a mode error in read-only modes")
		}
		vrt.Reach("readonly")
	} else if wrote {
		vrt.Reach("writes-in-rw")
	}
}
