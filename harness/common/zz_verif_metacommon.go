//go:build verif

package meta

import (
	"strconv"

	"github.com/nspcc-dev/bbolt"
	"github.com/nspcc-dev/neofs-node/pkg/local_object_storage/shard/mode"
	"github.com/nspcc-dev/neofs-sdk-go/checksum"
	cid "github.com/nspcc-dev/neofs-sdk-go/container/id"
	"github.com/nspcc-dev/neofs-sdk-go/object"
	oid "github.com/nspcc-dev/neofs-sdk-go/object/id"
	"github.com/nspcc-dev/neofs-sdk-go/user"
	"github.com/nspcc-dev/neofs-sdk-go/version"
	"go.uber.org/zap"
)

// shared helpers of the metabase harnesses: a DB on the bbolt model and small
// concrete objects.

type vmEpoch struct{ e uint64 }

func (x *vmEpoch) CurrentEpoch() uint64 { return x.e }

type vmContainers struct{}

func (vmContainers) Exists(cid.ID) (bool, error) { return true, nil }

func vmNewDB(ep *vmEpoch) *DB {
	db := &DB{cfg: defaultCfg(), mode: mode.ReadWrite, boltDB: bbolt.VerifNewModelDB()}
	db.log = zap.NewNop()
	db.epochState = ep
	db.cfg.containers = vmContainers{}
	return db
}

func vmCID(i byte) cid.ID { var c cid.ID; c[0] = 0xC0 + i; return c }
func vmOID(i byte) oid.ID { var o oid.ID; o[0] = i; o[31] = 0x77; return o }

func vmAddr(c byte, o byte) oid.Address {
	var a oid.Address
	a.SetContainer(vmCID(c))
	a.SetObject(vmOID(o))
	return a
}

// vmObj builds a minimal valid object header. exp < 0 means no expiration attribute.
func vmObj(c byte, o byte, typ object.Type, exp int64, payloadLen uint64) *object.Object {
	obj := new(object.Object)
	obj.SetContainerID(vmCID(c))
	obj.SetID(vmOID(o))
	var owner user.ID
	owner[0] = 0x35
	owner[1] = 0x01
	obj.SetOwner(owner)
	ver := version.New(2, 18)
	obj.SetVersion(&ver)
	obj.SetType(typ)
	obj.SetCreationEpoch(1)
	obj.SetPayloadSize(payloadLen)
	var h [32]byte
	h[0] = o
	obj.SetPayloadChecksum(checksum.NewSHA256(h))
	if exp >= 0 {
		obj.SetAttributes(object.NewAttribute(object.AttributeExpirationEpoch, strconv.FormatInt(exp, 10)))
	}
	return obj
}

