//go:build verif

package signed256

import (
	"bytes"
	"math/bits"

	"github.com/nspcc-dev/neofs-node/internal/vrt"
)

// symInt returns an arbitrary Int satisfying the representation invariant
// (neg implies non-zero magnitude), 257 symbolic bits.
func symInt(name string) Int {
	var z Int
	z.mag[0] = vrt.U64(name + ".0")
	z.mag[1] = vrt.U64(name + ".1")
	z.mag[2] = vrt.U64(name + ".2")
	z.mag[3] = vrt.U64(name + ".3")
	z.neg = vrt.Bool(name + ".neg")
	vrt.Assume(!z.neg || !z.mag.IsZero())
	return z
}

func repOK(z *Int) bool { return !z.neg || !z.mag.IsZero() }

// VerifC05RoundTrip: decode(encode(a)) == a for every a in [-(2^256-1), 2^256-1].
func VerifC05RoundTrip() {
	a := symInt("a")
	enc := a.EncodeBytes()
	d, err := DecodeBytes(enc[:])
	vrt.Assert(err == nil, "encoding of a valid integer decodes")
	vrt.Assert(d == a, "decode(encode(a)) == a")
	vrt.Assert(enc[0] <= 1, "sign byte is 0 or 1")
	vrt.Reach("end")
}

// VerifC05Order: byte-wise order of keys == numeric order, all pairs.
func VerifC05Order() {
	a := symInt("a")
	b := symInt("b")
	ea := a.EncodeBytes()
	eb := b.EncodeBytes()
	c := bytes.Compare(ea[:], eb[:])
	vrt.Assert(c == a.Cmp(&b), "bytes.Compare(enc a, enc b) == a.Cmp(b)")
	vrt.Assert((c == 0) == (a == b), "equal keys exactly for equal integers")
	vrt.Reach("end")
}

// refCmpMag compares magnitudes word by word from the most significant one.
func refCmpMag(a, b *Int) int {
	for i := 3; i >= 0; i-- {
		if a.mag[i] < b.mag[i] {
			return -1
		}
		if a.mag[i] > b.mag[i] {
			return 1
		}
	}
	return 0
}

// refCmp is the numeric order of sign-magnitude integers.
func refCmp(a, b *Int) int {
	switch {
	case a.neg && !b.neg:
		return -1
	case !a.neg && b.neg:
		return 1
	case a.neg:
		return -refCmpMag(a, b)
	}
	return refCmpMag(a, b)
}

// VerifC05CmpIsNumeric: Cmp agrees with the numeric order (reference: sign,
// then magnitude words from the most significant).
func VerifC05CmpIsNumeric() {
	a := symInt("a")
	b := symInt("b")
	vrt.Assert(a.Cmp(&b) == refCmp(&a, &b), "Cmp is the numeric order")
	vrt.Reach("end")
}

// VerifC05Decode: arbitrary 33 bytes: accepted iff sign byte <= 1, never panics,
// result satisfies the invariant and re-encodes to the input except for "-0".
func VerifC05Decode() {
	b := vrt.Bytes("b", EncodedLen)
	in := append([]byte(nil), b...)
	z, err := DecodeBytes(b)
	vrt.Assert((err == nil) == (in[0] <= 1), "accepts exactly sign bytes 0 and 1")
	if err != nil {
		vrt.Reach("reject")
		return
	}
	vrt.Assert(repOK(&z), "decoded value satisfies the representation invariant")
	re := z.EncodeBytes()
	acc := byte(0xff)
	for i := 1; i < EncodedLen; i++ {
		acc &= in[i]
	}
	minusZero := in[0] == 0 && acc == 0xff
	vrt.Assert(minusZero || bytes.Equal(re[:], in), "re-encoding a decoded key gives the key (except the non-canonical -0)")
	vrt.Reach("accept")
}

// VerifC05Ctors: NewInt / NewUint64 / SetUint64 / Max / Min.
func VerifC05Ctors() {
	v := vrt.I64("v")
	w := vrt.I64("w")
	a, b := NewInt(v), NewInt(w)
	vrt.Assert(repOK(&a), "NewInt keeps the invariant")
	want := 0
	if v < w {
		want = -1
	} else if v > w {
		want = 1
	}
	vrt.Assert(a.Cmp(&b) == want, "NewInt preserves the order of int64")
	absV := uint64(v)
	if v < 0 {
		absV = -uint64(v)
	}
	vrt.Assert(a.neg == (v < 0) && a.mag[0] == absV && a.mag[1] == 0 && a.mag[2] == 0 && a.mag[3] == 0, "NewInt(v) has value v")
	u := vrt.U64("u")
	c := NewUint64(u)
	var d Int
	d.neg = true
	d.SetUint64(u)
	vrt.Assert(c == d && !c.neg && c.mag[0] == u && c.mag[1] == 0 && c.mag[2] == 0 && c.mag[3] == 0, "NewUint64/SetUint64")
	mx, mn := Max(), Min()
	x := symInt("x")
	vrt.Assert(x.Cmp(&mx) <= 0 && x.Cmp(&mn) >= 0, "Max/Min bound every value")
	vrt.Reach("end")
}

// refAddMag / refSubMag: 256-bit magnitude arithmetic by carry chains.
func refAddMag(a, b *Int) (r [4]uint64, carry uint64) {
	for i := 0; i < 4; i++ {
		r[i], carry = bits.Add64(a.mag[i], b.mag[i], carry)
	}
	return
}

func refSubMag(a, b *Int) (r [4]uint64) {
	var borrow uint64
	for i := 0; i < 4; i++ {
		r[i], borrow = bits.Sub64(a.mag[i], b.mag[i], borrow)
	}
	return
}

// VerifC05Add: Add is exact or reports overflow (reference: sign-magnitude
// addition by 64-bit carry chains).
func VerifC05Add() {
	a := symInt("a")
	b := symInt("b")
	var z Int
	err := z.Add(&a, &b)
	var want Int
	overflow := false
	if a.neg == b.neg {
		m, c := refAddMag(&a, &b)
		overflow = c != 0
		want.mag = m
		want.neg = a.neg
	} else if refCmpMag(&a, &b) >= 0 {
		want.mag = refSubMag(&a, &b)
		want.neg = a.neg
	} else {
		want.mag = refSubMag(&b, &a)
		want.neg = b.neg
	}
	if want.mag[0]|want.mag[1]|want.mag[2]|want.mag[3] == 0 {
		want.neg = false
	}
	vrt.Assert((err == nil) == !overflow, "Add fails exactly on overflow")
	if err == nil {
		vrt.Assert(z == want, "Add is exact")
		vrt.Assert(repOK(&z), "Add keeps the invariant")
	}
	vrt.Reach("end")
}

func isDigits(s string) bool {
	if len(s) == 0 {
		return false
	}
	for i := 0; i < len(s); i++ {
		if s[i] < '0' || s[i] > '9' {
			return false
		}
	}
	return true
}

// refParse: the reference grammar [+-]?[0-9]+ and value (short strings only).
func refParse(s string) (int64, bool) {
	neg := false
	d := s
	if len(s) > 0 && (s[0] == '+' || s[0] == '-') {
		neg = s[0] == '-'
		d = s[1:]
	}
	if !isDigits(d) {
		return 0, false
	}
	var v int64
	for i := 0; i < len(d); i++ {
		v = v*10 + int64(d[i]-'0')
	}
	if neg {
		v = -v
	}
	return v, true
}

// VerifC05Parse: ParseDecimal on every string of length N.
func VerifC05Parse() {
	n := vrt.Param("N")
	s := vrt.String("s", n)
	z, err := ParseDecimal(s)
	want, ok := refParse(s)
	doubleSign := len(s) >= 2 && (s[0] == '+' || s[0] == '-') && s[1] == '+'
	if doubleSign {
		vrt.Assert((err == nil) == ok, "ParseDecimal rejects a second sign character")
	} else {
		vrt.Assert((err == nil) == ok, "ParseDecimal accepts exactly [+-]?[0-9]+")
	}
	if err == nil && ok {
		w := NewInt(want)
		vrt.Assert(z.Cmp(&w) == 0, "ParseDecimal value")
		vrt.Assert(repOK(&z), "ParseDecimal keeps the invariant")
		vrt.Reach("accept")
	}
}

// VerifC05ParseNorm: ParseNormalizedDecimal on every digit string of length N.
func VerifC05ParseNorm() {
	n := vrt.Param("N")
	s := vrt.String("s", n)
	neg := vrt.Bool("neg")
	z, err := ParseNormalizedDecimal(neg, s)
	vrt.Assert((err == nil) == isDigits(s), "ParseNormalizedDecimal accepts exactly digit strings")
	if err == nil {
		want, _ := refParse(s)
		if neg {
			want = -want
		}
		w := NewInt(want)
		vrt.Assert(z.Cmp(&w) == 0, "ParseNormalizedDecimal value")
		vrt.Assert(repOK(&z), "ParseNormalizedDecimal keeps the invariant")
		vrt.Reach("accept")
	}
}

// VerifC05PrintParse: Parse(String(x)) == x for |x| < 10^K.
func VerifC05PrintParse() {
	lim := int64(vrt.Param("LIM"))
	v := vrt.I64("v")
	vrt.Assume(v > -lim && v < lim)
	x := NewInt(v)
	s := x.String()
	y, err := ParseDecimal(s)
	vrt.Assert(err == nil && y == x, "ParseDecimal(String(x)) == x")
	vrt.Reach("end")
}

func VerifDbg() {
	x := NewInt(1)
	s := x.String()
	vrt.Observe("s", s)
	y, err := ParseDecimal(s)
	vrt.Observe("err", err == nil)
	vrt.Observe("y0", y.mag[0])
	vrt.Observe("y1", y.mag[1])
	vrt.Observe("yneg", y.neg)
	vrt.Assert(y == x, "dbg")
}

// VerifC05ParseNormWide: 20-digit strings around the uint64 fast-path boundary
// of ParseNormalizedDecimal (2^64 = 18446744073709551616): a fixed 17-digit
// prefix and 3 symbolic trailing digits (all 1000 values on both sides of the
// boundary); the value must be exact (reference: 128-bit sum by carry chains).
func VerifC05ParseNormWide() {
	prefix := "18446744073709551"
	const prefixTimes1000Lo, prefixTimes1000Hi = 18446744073709551000, 0
	if vrt.Param("NINES") == 1 {
		prefix = "99999999999999999"
	}
	tail := vrt.String("tail", 3)
	s := prefix + tail
	for i := 0; i < 3; i++ {
		vrt.Assume(tail[i] >= '0' && tail[i] <= '9')
	}
	neg := vrt.Bool("neg")
	z, err := ParseNormalizedDecimal(neg, s)
	vrt.Assert(err == nil, "in-range digit strings are accepted")
	if err != nil {
		return
	}
	t := uint64(tail[0]-'0')*100 + uint64(tail[1]-'0')*10 + uint64(tail[2]-'0')
	var hi, lo uint64
	if vrt.Param("NINES") == 1 {
		// 99999999999999999000 = 0x5_6BC75E2D630FFC18
		lo, hi = 0x6BC75E2D630FFC18, 5
	} else {
		lo, hi = prefixTimes1000Lo, prefixTimes1000Hi
	}
	var c uint64
	lo, c = bits.Add64(lo, t, 0)
	hi += c
	vrt.Assert(z.mag[0] == lo && z.mag[1] == hi && z.mag[2] == 0 && z.mag[3] == 0, "exact value across the uint64 fast-path boundary")
	vrt.Assert(z.neg == neg, "sign")
	y, err2 := ParseDecimal(s)
	vrt.Assert(err2 == nil && y.mag == z.mag, "ParseDecimal agrees with ParseNormalizedDecimal")
	vrt.Reach("end")
}
