//go:build verif

package engine

import (
	"context"
	"errors"

	"github.com/nspcc-dev/neofs-node/internal/vrt"
	meta "github.com/nspcc-dev/neofs-node/pkg/local_object_storage/metabase"
	"github.com/nspcc-dev/neofs-sdk-go/object"
)

// VerifC06EngineListing: two real shards (metabase on the bbolt model, map blob
// model); three objects of two containers, each stored on no shard, one of the
// shards or both; one object optionally removed through the engine. The engine
// listing, page by page with every page size and every shard visiting order,
// yields every stored, not removed object exactly once, with exactly its
// holder shards recorded, and then reports the end.
func VerifC06EngineListing() {
	ctx := context.Background()
	w := vwNew(2, 10)
	type slot struct {
		c, o   byte
		holder [2]bool
		gone   bool
		seen   int
	}
	slots := []*slot{{c: 0, o: 1}, {c: 0, o: 2}, {c: 1, o: 1}}
	for _, s := range slots {
		obj := meta.VerifObj(s.c, s.o, object.TypeRegular, -1, 3)
		obj.SetPayload([]byte{s.o, s.o, s.o})
		w.objs[obj.Address()] = obj
		h := vrt.Choice("holders", 4) // none, shard 0, shard 1, both
		for i := 0; i < 2; i++ {
			if h == i+1 || h == 3 {
				if err := w.shards[i].Put(obj, nil); err != nil {
					panic(err)
				}
				s.holder[i] = true
			}
		}
	}
	if vrt.Bool("secondObjectRemoved") {
		s := slots[1]
		if s.holder[0] || s.holder[1] {
			err := w.e.Delete(ctx, meta.VerifAddr(s.c, s.o), GarbageMarkDefault)
			vrt.Assert(err == nil, "removal through the engine")
			s.gone = true
		}
	}
	page := uint32(vrt.IntRange("pageSize", 1, 3))
	var cur *Cursor
	ended := false
	for i := 0; i < 5; i++ {
		res, next, err := w.e.ListWithCursor(ctx, page, cur)
		if errors.Is(err, ErrEndOfListing) {
			ended = true
			break
		}
		vrt.Assert(err == nil && len(res) > 0 && len(res) <= int(page), "a page holds between one and pageSize objects")
		if err != nil {
			return
		}
		for _, r := range res {
			var s *slot
			for _, x := range slots {
				if meta.VerifAddr(x.c, x.o) == r.Address {
					s = x
				}
			}
			vrt.Assert(s != nil, "listed address is one of the stored ones")
			if s == nil {
				return
			}
			s.seen++
			var rec [2]bool
			for _, id := range r.ShardIDs {
				for j := range w.shards {
					if w.shards[j].ID().String() == id {
						vrt.Assert(!rec[j], "a holder shard is recorded once")
						rec[j] = true
					}
				}
			}
			vrt.Assert(rec == s.holder, "an object stored on several shards is listed with all its holder shards recorded")
		}
		cur = next
	}
	vrt.Assert(ended, "the listing ends")
	for _, s := range slots {
		if (s.holder[0] || s.holder[1]) && !s.gone {
			vrt.Assert(s.seen == 1, "every available physical object is listed exactly once by the engine")
		} else {
			vrt.Assert(s.seen == 0, "removed and absent objects are never listed by the engine")
		}
	}
	vrt.Reach("end")
}
