//go:build verif

package putsvc

import (
	"bytes"
	"io"

	"github.com/klauspost/reedsolomon"
	iec "github.com/nspcc-dev/neofs-node/internal/ec"
	"github.com/nspcc-dev/neofs-node/internal/vrt"
	"github.com/nspcc-dev/neofs-sdk-go/object"
)

// VerifC21PipelineTwoRules: the PUT pipeline's EC step (modifyECParentObject)
// for a container with two EC rules: the payload arrives from the slicer in one
// or two buffers, is collected into a pooled buffer (capacity 1024) and encoded
// under both rules from that one buffer. Afterwards each encoding still decodes
// to the payload, also when its first data part is lost (i.e. its parity part
// is intact).
func VerifC21PipelineTwoRules() {
	reedsolomon.VerifNoTable16 = true
	reedsolomon.VerifLinearGF = true
	l := 1 + vrt.Choice("payloadLength", vrt.Param("L"))
	payload := vrt.Bytes("payload", l)
	orig := append([]byte{}, payload...)
	d2 := uint8(1 + vrt.Choice("secondRuleDataParts", 3))
	t := &distributedTarget{ecRules: []iec.Rule{{DataPartNum: 2, ParityPartNum: 1}, {DataPartNum: d2, ParityPartNum: 1}}}
	var hdr object.Object
	hdr.SetType(object.TypeRegular)
	hdr.SetPayloadSize(uint64(l))
	k := vrt.Choice("firstSlicerBuffer", l+1)
	reader := io.MultiReader(bytes.NewReader(payload[:k]), bytes.NewReader(payload[k:]))
	err := t.modifyECParentObject(&hdr, reader)
	vrt.Assert(err == nil && len(t.encodedECParts) == 2, "both rules are encoded")
	if err != nil {
		return
	}
	for ri, rule := range t.ecRules {
		parts := t.encodedECParts[ri]
		cp := make([][]byte, len(parts))
		for i := range parts {
			cp[i] = append([]byte{}, parts[i]...)
		}
		cp[0] = nil // lose the first data part: the parity part must be intact
		res, derr := iec.Decode(rule, uint64(l), cp)
		same := derr == nil && len(res) == len(orig)
		for i := 0; same && i < len(orig); i++ {
			same = res[i] == orig[i]
		}
		vrt.Assert(same, "every encoding of the payload still decodes to it after the other rules were encoded from the same buffer")
	}
	vrt.Reach("end")
}
