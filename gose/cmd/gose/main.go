// Command gose runs the harnesses of one property through the symbolic
// executor, replays counterexamples natively, and writes the evidence file.
package main

import (
	"bytes"
	"encoding/json"
	"flag"
	"fmt"
	"go/ast"
	"go/parser"
	"go/token"
	"os"
	"os/exec"
	"path/filepath"
	"regexp"
	"runtime"
	"sort"
	"strings"
	"time"

	"gose/eng"

	"golang.org/x/tools/go/ssa"
)

type TierCfg struct {
	Unwind         int            `json:"unwind"`
	Depth          int            `json:"depth"`
	Steps          int64          `json:"steps"`
	Paths          int            `json:"paths"`
	QueryTimeoutS  int            `json:"query_timeout_s"`
	Params         map[string]int `json:"params"`
	TimeBudgetS    int            `json:"time_budget_s"`
	CrossCheck     int            `json:"cross_check"`
	ValidateTapes  int            `json:"validate_tapes"`
}

type EntryCfg struct {
	Name   string              `json:"name"`
	Reach  []string            `json:"reach"`
	Tiers  map[string]*TierCfg `json:"tiers"`
	Params map[string]int      `json:"params"`
	OnlyTier string            `json:"only_tier"`
}

type UnitCfg struct {
	Package       string              `json:"package"`
	Files         map[string]string   `json:"files"` // harness file -> repo-relative dir
	Entries       []EntryCfg          `json:"entries"`
	Stubs         map[string]string   `json:"stubs"`
	Havoc         []string            `json:"havoc"`
	SkipInit      []string            `json:"skip_init"`
	MapOrder      string              `json:"maporder"`
	GoMode        string              `json:"gomode"`
	ChanUnbounded bool                `json:"chan_unbounded"`
	Tiers         map[string]*TierCfg `json:"tiers"`
	Replay        string              `json:"replay"`
	MaxIte        int                 `json:"max_ite"`
	// Rename lists functions of the real code that the harness replaces: in an
	// overlay copy of the file the function is renamed to <name>__real, and the
	// harness defines <name> itself (same for the engine and the native replay).
	Rename []RenameCfg `json:"rename"`
	// ReplaceMods lists dependency modules that are copied out of the (read-only,
	// not overlayable) module cache and wired in through a scratch go.mod with
	// replace directives, so that their files can be overlaid (renamed stubs).
	ReplaceMods []string `json:"replace_mods"`
	Solver   string    `json:"solver"`   // z3 (default) | z3-new | cvc5 | cvc5-int
	Fallback string    `json:"fallback"` // solver for assertion queries the primary answers unknown
}

type RenameCfg struct {
	File  string   `json:"file"`  // repo-relative (or absolute) path
	Funcs []string `json:"funcs"` // "Func" or "Recv.Method"
	// Subst lists literal text substitutions applied to the overlay copy of the
	// file (regenerated from the current source on every run), e.g. "os.Open(" ->
	// "verifOpen(": the harness then defines verifOpen (hook, else os.Open).
	// Every pattern must occur at least once.
	Subst [][2]string `json:"subst"`
}

type HarnessCfg struct {
	Property    string              `json:"property"`
	Units       []UnitCfg           `json:"units"`
	Tiers       map[string]*TierCfg `json:"tiers"`
	Assumptions []string            `json:"assumptions"`
	Outside     []string            `json:"outside_bounds"`
	Stubs       []string            `json:"stubs_described"`
}

type KnownEntry struct {
	Property string `json:"property"`
	Entry    string `json:"entry"`
	Label    string `json:"label"` // regexp on the assertion label / panic message
	What     string `json:"what"`
	Commit   string `json:"commit,omitempty"`
}

type KnownFile struct {
	Known []KnownEntry `json:"known"`
	Fixed []KnownEntry `json:"fixed"`
}

func mergeTier(base TierCfg, o *TierCfg) TierCfg {
	if o == nil {
		return base
	}
	if o.Unwind != 0 {
		base.Unwind = o.Unwind
	}
	if o.Depth != 0 {
		base.Depth = o.Depth
	}
	if o.Steps != 0 {
		base.Steps = o.Steps
	}
	if o.Paths != 0 {
		base.Paths = o.Paths
	}
	if o.QueryTimeoutS != 0 {
		base.QueryTimeoutS = o.QueryTimeoutS
	}
	if o.TimeBudgetS != 0 {
		base.TimeBudgetS = o.TimeBudgetS
	}
	if o.CrossCheck != 0 {
		base.CrossCheck = o.CrossCheck
	}
	if o.ValidateTapes != 0 {
		base.ValidateTapes = o.ValidateTapes
	}
	if o.Params != nil {
		np := map[string]int{}
		for k, v := range base.Params {
			np[k] = v
		}
		for k, v := range o.Params {
			np[k] = v
		}
		base.Params = np
	}
	return base
}

var defaultTiers = map[string]TierCfg{
	"quick":    {Unwind: 24, Depth: 200, Steps: 20_000_000, Paths: 50_000, QueryTimeoutS: 30, CrossCheck: 8},
	"thorough": {Unwind: 64, Depth: 200, Steps: 100_000_000, Paths: 2_000_000, QueryTimeoutS: 60, CrossCheck: 200},
}

type entryReport struct {
	Unit          string            `json:"package"`
	Entry         string            `json:"entry"`
	Paths         int               `json:"paths"`
	Completed     int               `json:"paths_completed"`
	Infeasible    int               `json:"paths_infeasible"`
	Nontrivial    int               `json:"paths_with_symbolic_assertion"`
	Decisions     int               `json:"decisions"`
	Aborts        map[string]int    `json:"aborts,omitempty"`
	AbortMsgs     map[string]int    `json:"abort_messages,omitempty"`
	Queries       map[string]int    `json:"queries"`
	Discharged    map[string]int    `json:"assertions_discharged_by_label"`
	TrivialAssert int               `json:"assertions_folded_to_true"`
	Reached       map[string]int    `json:"reach_labels"`
	Bounds        map[string]any    `json:"bounds"`
	SolverTimeS   float64           `json:"solver_time_s"`
	WallS         float64           `json:"wall_s"`
	Steps         int64             `json:"ssa_instructions_executed"`
	Truncated     bool              `json:"truncated"`
	Violations    []*eng.Violation  `json:"violations,omitempty"`
	Cross         map[string]any    `json:"cross_solver,omitempty"`
	Validated     int               `json:"translator_validation_runs"`
	ValidationBad []string          `json:"translator_validation_mismatches,omitempty"`
}

type runner struct {
	repo, verif, hdir, tier, prop string
	seed                          int64
	known                         KnownFile
	hc                            HarnessCfg
	scratch                       string
	mutOverlay                    map[string]string // repo file -> replacement file (self-test mutants)
	modCopies                     map[string]string // module path -> scratch copy
	modfile                       string
}

// prepareMods copies the listed modules out of the module cache and writes a
// scratch go.mod/go.sum replacing them.
func (r *runner) prepareMods(u *UnitCfg) ([]string, error) {
	r.modfile = ""
	if len(u.ReplaceMods) == 0 {
		return nil, nil
	}
	if r.modCopies == nil {
		r.modCopies = map[string]string{}
	}
	gm, err := os.ReadFile(filepath.Join(r.repo, "go.mod"))
	if err != nil {
		return nil, err
	}
	var extra strings.Builder
	for _, m := range u.ReplaceMods {
		if _, ok := r.modCopies[m]; !ok {
			src := r.modPath(m)
			dst := filepath.Join(r.scratch, "mods", strings.ReplaceAll(m, "/", "_"))
			os.MkdirAll(filepath.Dir(dst), 0o755)
			if out, err := exec.Command("cp", "-r", src, dst).CombinedOutput(); err != nil {
				return nil, fmt.Errorf("copy module %s: %v %s", m, err, out)
			}
			exec.Command("chmod", "-R", "u+w", dst).Run()
			r.modCopies[m] = dst
		}
		fmt.Fprintf(&extra, "\nreplace %s => %s\n", m, r.modCopies[m])
	}
	mf := filepath.Join(r.scratch, "go.mod")
	if err := os.WriteFile(mf, append(gm, []byte(extra.String())...), 0o644); err != nil {
		return nil, err
	}
	gs, _ := os.ReadFile(filepath.Join(r.repo, "go.sum"))
	os.WriteFile(filepath.Join(r.scratch, "go.sum"), gs, 0o644)
	r.modfile = mf
	return []string{"-modfile=" + mf}, nil
}

func main() {
	var r runner
	var out, knownPath, mutant string
	flag.StringVar(&r.hdir, "harness", "", "harness directory")
	flag.StringVar(&r.tier, "tier", "quick", "quick|thorough")
	flag.StringVar(&r.repo, "repo", "/repo", "repository root")
	flag.StringVar(&r.verif, "verif", "/verif", "verif root")
	flag.StringVar(&out, "out", "", "evidence file")
	flag.StringVar(&knownPath, "known", "", "known findings file")
	flag.StringVar(&mutant, "mutant", "", "self-test: repo-relative file=replacement file[,..]")
	replayTape := flag.String("replay", "", "replay a tape natively and exit")
	onlyEntry := flag.String("entry", "", "run only this entry")
	flag.Int64Var(&r.seed, "seed", 0, "seed")
	flag.Parse()
	if s := os.Getenv("VERIF_SEED"); s != "" && r.seed == 0 {
		fmt.Sscan(s, &r.seed)
	}
	r.hdir, _ = filepath.Abs(r.hdir)
	r.verif, _ = filepath.Abs(r.verif)
	b, err := os.ReadFile(filepath.Join(r.hdir, "harness.json"))
	if err != nil {
		fatal(2, "INCONCLUSIVE config: %v", err)
	}
	if err := json.Unmarshal(b, &r.hc); err != nil {
		fatal(2, "INCONCLUSIVE config: %v", err)
	}
	r.prop = r.hc.Property
	if knownPath != "" {
		if kb, err := os.ReadFile(knownPath); err == nil {
			if err := json.Unmarshal(kb, &r.known); err != nil {
				fatal(2, "INCONCLUSIVE known findings file: %v", err)
			}
		}
	}
	if mutant != "" {
		r.mutOverlay = map[string]string{}
		for _, kv := range strings.Split(mutant, ",") {
			p := strings.SplitN(kv, "=", 2)
			ap, _ := filepath.Abs(p[1])
			r.mutOverlay[filepath.Join(r.repo, p[0])] = ap
		}
	}
	r.scratch = os.Getenv("VERIF_SCRATCH")
	if r.scratch == "" {
		r.scratch = fmt.Sprintf("/var/tmp/verif-%d", os.Getpid())
	}
	os.MkdirAll(r.scratch, 0o755)
	defer os.RemoveAll(r.scratch)

	if *replayTape != "" {
		*replayTape, _ = filepath.Abs(*replayTape)
		code := r.replayOnly(*replayTape)
		os.RemoveAll(r.scratch)
		os.Exit(code)
	}
	code := r.run(out, *onlyEntry)
	os.RemoveAll(r.scratch)
	os.Exit(code)
}

func fatal(code int, format string, a ...any) {
	fmt.Printf(format+"\n", a...)
	os.Exit(code)
}

func (r *runner) overlayFor(u *UnitCfg) (map[string][]byte, error) {
	ov := map[string][]byte{}
	vb, err := os.ReadFile(filepath.Join(r.verif, "vrt", "vrt.go"))
	if err != nil {
		return nil, err
	}
	ov[filepath.Join(r.repo, "internal/vrt/vrt.go")] = vb
	for f, dir := range u.Files {
		b, err := os.ReadFile(filepath.Join(r.hdir, f))
		if err != nil {
			return nil, err
		}
		ov[filepath.Join(r.destDir(dir), filepath.Base(f))] = b
	}
	for dst, src := range r.mutOverlay {
		b, err := os.ReadFile(src)
		if err != nil {
			return nil, err
		}
		ov[dst] = b
	}
	for _, rc := range u.Rename {
		path := r.destDir(filepath.Dir(rc.File))
		path = filepath.Join(path, filepath.Base(rc.File))
		src, ok := ov[path]
		if !ok {
			var err error
			src, err = os.ReadFile(path)
			if err != nil {
				return nil, err
			}
		}
		out, err := renameFuncs(path, src, rc.Funcs)
		if err != nil {
			return nil, err
		}
		if out, err = applySubst(path, out, rc.Subst); err != nil {
			return nil, err
		}
		ov[path] = out
	}
	return ov, nil
}

// applySubst applies the literal substitutions of a rename entry.
func applySubst(path string, out []byte, subst [][2]string) ([]byte, error) {
	for _, sb := range subst {
		if !bytes.Contains(out, []byte(sb[0])) {
			return nil, fmt.Errorf("subst: pattern %q not found in %s", sb[0], path)
		}
		out = bytes.ReplaceAll(out, []byte(sb[0]), []byte(sb[1]))
	}
	return out, nil
}

// renameFuncs renames the listed top-level functions/methods to <name>__real.
func renameFuncs(path string, src []byte, funcs []string) ([]byte, error) {
	fset := token.NewFileSet()
	f, err := parser.ParseFile(fset, path, src, parser.SkipObjectResolution)
	if err != nil {
		return nil, err
	}
	type edit struct{ off int }
	var edits []int
	for _, want := range funcs {
		found := false
		for _, d := range f.Decls {
			fd, ok := d.(*ast.FuncDecl)
			if !ok {
				continue
			}
			name := fd.Name.Name
			if fd.Recv != nil && len(fd.Recv.List) == 1 {
				t := fd.Recv.List[0].Type
				if st, ok := t.(*ast.StarExpr); ok {
					t = st.X
				}
				if ix, ok := t.(*ast.IndexExpr); ok {
					t = ix.X
				}
				if id, ok := t.(*ast.Ident); ok {
					name = id.Name + "." + name
				}
			}
			if name == want {
				edits = append(edits, fset.Position(fd.Name.End()).Offset)
				found = true
			}
		}
		if !found {
			return nil, fmt.Errorf("rename: function %s not found in %s", want, path)
		}
	}
	sort.Sort(sort.Reverse(sort.IntSlice(edits)))
	out := append([]byte(nil), src...)
	for _, off := range edits {
		out = append(out[:off], append([]byte("__real"), out[off:]...)...)
	}
	return out, nil
}

// destDir resolves a harness file destination: repo-relative, absolute, or
// "mod:<module>/<subdir>" for a dependency in the module cache (version from go.mod).
func (r *runner) destDir(d string) string {
	if strings.HasPrefix(d, "mod:") {
		return r.modPath(strings.TrimPrefix(d, "mod:"))
	}
	if filepath.IsAbs(d) {
		return d
	}
	return filepath.Join(r.repo, d)
}

func (r *runner) modPath(p string) string {
	for m, dst := range r.modCopies {
		if p == m || strings.HasPrefix(p, m+"/") {
			return filepath.Join(dst, strings.TrimPrefix(p, m))
		}
	}
	gm, _ := os.ReadFile(filepath.Join(r.repo, "go.mod"))
	best, bestVer := "", ""
	for _, l := range strings.Split(string(gm), "\n") {
		f := strings.Fields(l)
		if len(f) >= 2 && (p == f[0] || strings.HasPrefix(p, f[0]+"/")) && len(f[0]) > len(best) {
			best, bestVer = f[0], f[1]
		}
	}
	if best == "" {
		return p
	}
	// module cache escapes upper-case letters as !lower
	esc := func(s string) string {
		var sb strings.Builder
		for _, c := range s {
			if c >= 'A' && c <= 'Z' {
				sb.WriteByte('!')
				sb.WriteRune(c + 32)
			} else {
				sb.WriteRune(c)
			}
		}
		return sb.String()
	}
	return filepath.Join("/root/go/pkg/mod", esc(best)+"@"+bestVer, strings.TrimPrefix(p, best))
}

func (r *runner) tierFor(u *UnitCfg, e *EntryCfg) TierCfg {
	t := defaultTiers[r.tier]
	t = mergeTier(t, r.hc.Tiers[r.tier])
	t = mergeTier(t, u.Tiers[r.tier])
	t = mergeTier(t, e.Tiers[r.tier])
	if e.Params != nil {
		t = mergeTier(t, &TierCfg{Params: e.Params})
	}
	return t
}

func (r *runner) run(out, onlyEntry string) int {
	t0 := time.Now()
	var reports []*entryReport
	var allViol []*eng.Violation
	inconclusive := []string{}
	funcs := map[string]int64{}
	var samples []eng.Sample
	var notes []string
	totalPaths, totalDec, totalNontrivial, validated := 0, 0, 0, 0

	for ui := range r.hc.Units {
		u := &r.hc.Units[ui]
		modFlags, err := r.prepareMods(u)
		if err != nil {
			fatal(2, "INCONCLUSIVE build: %v", err)
		}
		ov, err := r.overlayFor(u)
		if err != nil {
			fatal(2, "INCONCLUSIVE build: %v", err)
		}
		ld, err := eng.Load(r.repo, u.Package, ov, []string{"verif"}, modFlags...)
		if err != nil {
			fmt.Printf("INCONCLUSIVE build: %v\n", err)
			r.writeEvidence(out, t0, nil, nil, nil, []string{"build failed: " + err.Error()}, 0, 0, 0, 0, nil)
			return 2
		}
		fmt.Printf("[gose] loaded %s: %d packages, load %.1fs ssa %.1fs\n", u.Package, ld.NPkgs, ld.LoadTime.Seconds(), ld.SSATime.Seconds())
		stubs := map[string]*ssa.Function{}
		for real, model := range u.Stubs {
			mf := ld.Pkg.Func(model)
			if mf == nil {
				fatal(2, "INCONCLUSIVE config: stub model %s not found in %s", model, u.Package)
			}
			stubs[real] = mf
		}
		for ei := range u.Entries {
			e := &u.Entries[ei]
			if onlyEntry != "" && e.Name != onlyEntry {
				continue
			}
			if e.OnlyTier != "" && e.OnlyTier != r.tier {
				continue
			}
			fn := ld.Pkg.Func(e.Name)
			if fn == nil {
				fmt.Printf("INCONCLUSIVE build: entry %s not found\n", e.Name)
				inconclusive = append(inconclusive, "entry not found: "+e.Name)
				continue
			}
			tc := r.tierFor(u, e)
			cfg := &eng.RunConfig{
				Unwind: tc.Unwind, Depth: tc.Depth, Steps: tc.Steps, MaxPaths: tc.Paths,
				QueryTimeout: tc.QueryTimeoutS * 1000, MaxIte: 64, Params: tc.Params,
				MapOrder: u.MapOrder, GoMode: u.GoMode, ChanUnbounded: u.ChanUnbounded,
				SkipInit: append([]string{"runtime", "internal/cpu", "internal/godebug", "testing"}, u.SkipInit...),
				Workers: workers(), SolverBin: orStr(u.Solver, "z3"), Fallback: u.Fallback, KeepScripts: tc.CrossCheck,
				ExpectReach: e.Reach, Havoc: append([]string{"go.uber.org/zap"}, u.Havoc...),
				TimeBudget: time.Duration(tc.TimeBudgetS) * time.Second,
			}
			if u.MaxIte > 0 {
				cfg.MaxIte = u.MaxIte
			}
			ex := eng.NewExplorer(ld.Prog, fn, cfg, stubs)
			st := ex.Run()
			rep := &entryReport{
				Unit: u.Package, Entry: e.Name, Paths: st.Paths, Completed: st.Completed, Infeasible: st.Infeasible,
				Nontrivial: st.NontrivialPaths, Decisions: st.Decisions, Aborts: st.Aborts, AbortMsgs: st.AbortMsgs,
				Queries: map[string]int{
					"feasibility_sat": st.QFeasSat, "feasibility_unsat": st.QFeasUnsat, "feasibility_unknown": st.QFeasUnk,
					"assertion_unsat": st.QAssertUnsat, "assertion_sat": st.QAssertSat, "assertion_unknown": st.QAssertUnk,
					"solver_calls": st.SolverQueries, "solver_errors": st.SolverErrors,
					"fallback_solver_queries": st.FallbackQueries, "fallback_solver_decided": st.FallbackDecided,
				},
				Discharged: st.LabelsDischarged, TrivialAssert: st.TrivialAsserts, Reached: st.Reached,
				Bounds:      map[string]any{"unwind": tc.Unwind, "depth": tc.Depth, "steps_per_path": tc.Steps, "max_paths": tc.Paths, "query_timeout_s": tc.QueryTimeoutS, "params": tc.Params},
				SolverTimeS: st.SolverTime.Seconds(), WallS: st.Wall.Seconds(), Steps: st.Steps, Truncated: st.Truncated,
			}
			for k, v := range st.Funcs {
				if strings.Contains(k, "nspcc-dev/neofs-node") && !strings.Contains(k, "internal/vrt") {
					funcs[k] += v
				}
			}
			samples = append(samples, st.Samples...)
			notes = append(notes, cfg.Notes()...)
			// inconclusive conditions
			for k, n := range st.Aborts {
				if n > 0 {
					inconclusive = append(inconclusive, fmt.Sprintf("%s: %d paths ended by %s", e.Name, n, k))
				}
			}
			if st.Truncated {
				inconclusive = append(inconclusive, fmt.Sprintf("%s: path/time budget exhausted after %d paths", e.Name, st.Paths))
			}
			if st.QAssertUnk > 0 {
				inconclusive = append(inconclusive, fmt.Sprintf("%s: %d assertion queries unknown", e.Name, st.QAssertUnk))
			}
			for _, l := range e.Reach {
				if st.Reached[l] == 0 {
					inconclusive = append(inconclusive, fmt.Sprintf("%s: reach label %q not reached (vacuity)", e.Name, l))
				}
			}
			// cross-solver
			if len(st.Scripts) > 0 {
				dis := 0
				checked := 0
				for i, sc := range st.Scripts {
					for _, bin := range crossSolvers(orStr(u.Solver, "z3")) {
						if _, err := exec.LookPath(bin); err != nil {
							continue
						}
						res := eng.RunScript(bin, sc, tc.QueryTimeoutS*1000)
						checked++
						if res != eng.Unknown && res != st.ScriptAnswers[i] {
							dis++
							p := filepath.Join(r.verif, "out", fmt.Sprintf("disagree-%s-%s-%d.smt2", r.prop, e.Name, i))
							os.WriteFile(p, []byte(sc), 0o644)
							inconclusive = append(inconclusive, fmt.Sprintf("%s: solver disagreement (%s says %v, z3 said %v) script %s", e.Name, bin, res, st.ScriptAnswers[i], p))
						}
					}
				}
				rep.Cross = map[string]any{"scripts": len(st.Scripts), "rechecks": checked, "disagreements": dis}
			}
			// native replay of violations
			confirmedLabel := map[string]string{}
			for _, v := range st.Violations {
				key := v.Kind + "|" + v.Label
				if c, ok := confirmedLabel[key]; ok && (strings.HasPrefix(c, "native") || strings.HasPrefix(c, "engine")) {
					v.TapePath = r.writeTape(v, tc.Params)
					v.Confirmed = "same obligation as a replayed counterexample (not replayed separately)"
					continue
				}
				if r.matchKnown(v) != nil {
					v.TapePath = r.writeTape(v, tc.Params)
					v.Confirmed = "native: not replayed again, matches a listed known finding"
					continue
				}
				r.confirm(u, ld.Pkg.Pkg.Name(), v, tc.Params)
				confirmedLabel[key] = v.Confirmed
			}
			rep.Violations = st.Violations
			allViol = append(allViol, st.Violations...)
			totalPaths += st.Completed
			totalDec += st.Decisions
			totalNontrivial += st.NontrivialPaths
			// translator validation
			if tc.ValidateTapes > 0 {
				n, bad := r.validate(u, ld, fn, e, tc)
				rep.Validated = n
				rep.ValidationBad = bad
				validated += n
				for _, b := range bad {
					inconclusive = append(inconclusive, e.Name+": translator validation mismatch: "+b)
				}
			}
			reports = append(reports, rep)
			fmt.Printf("[gose] %s: paths=%d completed=%d infeasible=%d aborts=%v assert(unsat=%d sat=%d unk=%d trivial=%d) feas(sat=%d unsat=%d unk=%d) wall=%.1fs solver=%.1fs\n",
				e.Name, st.Paths, st.Completed, st.Infeasible, st.Aborts, st.QAssertUnsat, st.QAssertSat, st.QAssertUnk, st.TrivialAsserts, st.QFeasSat, st.QFeasUnsat, st.QFeasUnk, st.Wall.Seconds(), st.SolverTime.Seconds())
			if os.Getenv("GOSE_DEBUG") != "" {
				for _, o := range st.Observes {
					fmt.Printf("[gose]   observes: %v\n", o)
				}
			}
			for m, n := range st.AbortMsgs {
				fmt.Printf("[gose]   abort x%d: %s\n", n, m)
			}
		}
		ld = nil
		runtime.GC()
	}

	// verdict
	exit := 0
	nviol := 0
	printedKnown := map[string]bool{}
	for _, v := range allViol {
		if k := r.matchKnown(v); k != nil {
			key := k.Entry + "|" + k.Label
			if !printedKnown[key] {
				printedKnown[key] = true
				fmt.Printf("KNOWN-FINDING: property=%s %s\n", r.prop, k.What)
			}
			v.Confirmed += " (known finding)"
			continue
		}
		switch {
		case strings.HasPrefix(v.Confirmed, "same obligation"):
			continue
		case strings.HasPrefix(v.Confirmed, "native"), strings.HasPrefix(v.Confirmed, "engine"):
			nviol++
			fmt.Printf("VIOLATION property=%s replay=%s\n", r.prop, v.TapePath)
			fmt.Printf("  entry=%s kind=%s label=%q confirmed=%s\n", v.Entry, v.Kind, v.Label, v.Confirmed)
			exit = 1
		default:
			inconclusive = append(inconclusive, fmt.Sprintf("%s: counterexample for %q did not reproduce natively (%s), tape %s", v.Entry, v.Label, v.Confirmed, v.TapePath))
		}
	}
	if exit == 0 && len(inconclusive) > 0 {
		exit = 2
	}
	for _, s := range inconclusive {
		fmt.Printf("INCONCLUSIVE %s\n", s)
	}
	r.writeEvidence(out, t0, reports, funcs, samples, append(inconclusive, notes...), totalPaths, totalDec, totalNontrivial, validated, allViol)
	if exit == 0 {
		fmt.Printf("PASS property=%s tier=%s paths=%d wall=%.1fs\n", r.prop, r.tier, totalPaths, time.Since(t0).Seconds())
	}
	_ = nviol
	return exit
}

func crossSolvers(primary string) []string {
	if primary == "cvc5-int" {
		return []string{"z3-new"}
	}
	if primary == "z3-new" {
		return []string{"z3", "cvc5"}
	}
	return []string{"z3-new", "cvc5"}
}

func orStr(a, b string) string {
	if a != "" {
		return a
	}
	return b
}

func workers() int {
	n := runtime.NumCPU()
	if s := os.Getenv("VERIF_WORKERS"); s != "" {
		fmt.Sscan(s, &n)
	}
	if n > 16 {
		n = 16
	}
	if n < 1 {
		n = 1
	}
	return n
}

func (r *runner) matchKnown(v *eng.Violation) *KnownEntry {
	for i := range r.known.Known {
		k := &r.known.Known[i]
		if k.Property != r.prop || (k.Entry != "" && k.Entry != v.Entry) {
			continue
		}
		re, err := regexp.Compile("^(?:" + k.Label + ")$")
		if err != nil {
			continue
		}
		if re.MatchString(v.Label) {
			return k
		}
	}
	return nil
}

type tapeFile struct {
	Entry  string         `json:"entry"`
	Draws  []*eng.Draw    `json:"draws"`
	Params map[string]int `json:"params"`
	Kind   string         `json:"kind"`
	Label  string         `json:"label"`
}

func (r *runner) writeTape(v *eng.Violation, params map[string]int) string {
	dir := filepath.Join(r.verif, "out", "replay")
	os.MkdirAll(dir, 0o755)
	lab := regexp.MustCompile(`[^A-Za-z0-9_.-]+`).ReplaceAllString(v.Label, "_")
	if len(lab) > 40 {
		lab = lab[:40]
	}
	for i := 0; ; i++ {
		p := filepath.Join(dir, fmt.Sprintf("%s-%s-%s-%d.json", r.prop, v.Entry, lab, i))
		if _, err := os.Stat(p); err == nil && i < 50 {
			continue
		}
		b, _ := json.MarshalIndent(tapeFile{Entry: v.Entry, Draws: v.Draws, Params: params, Kind: v.Kind, Label: v.Label}, "", " ")
		os.WriteFile(p, b, 0o644)
		return p
	}
}

// confirm replays the violation natively (go test -overlay) and records the outcome.
func (r *runner) confirm(u *UnitCfg, pkgName string, v *eng.Violation, params map[string]int) {
	v.TapePath = r.writeTape(v, params)
	if u.Replay == "engine-only" {
		v.Confirmed = "engine-only (native replay impossible for this harness: stubbed concrete collaborators)"
		return
	}
	outp, err := r.nativeRun(u, pkgName, v.TapePath)
	switch {
	case v.Kind == "assert" && strings.Contains(outp, fmt.Sprintf("VERIF-REPLAY: assert-failed label=%q", v.Label)):
		v.Confirmed = "native: assertion failed on replay"
	case v.Kind == "panic" && (strings.Contains(outp, "VERIF-REPLAY: panic") || strings.Contains(outp, "panic:")):
		v.Confirmed = "native: panicked on replay"
	case strings.Contains(outp, "VERIF-REPLAY: assert-failed"):
		v.Confirmed = "native: a different assertion failed on replay"
	case strings.Contains(outp, "VERIF-REPLAY: passed"):
		v.Confirmed = "unconfirmed: native replay passed"
	case strings.Contains(outp, "VERIF-REPLAY: skipped"):
		v.Confirmed = "unconfirmed: native replay skipped (" + lineWith(outp, "VERIF-REPLAY: skipped") + ")"
	default:
		v.Confirmed = fmt.Sprintf("unconfirmed: native replay did not run (%v): %s", err, tail(outp, 400))
	}
}

func lineWith(s, sub string) string {
	for _, l := range strings.Split(s, "\n") {
		if strings.Contains(l, sub) {
			return l
		}
	}
	return ""
}

func tail(s string, n int) string {
	if len(s) > n {
		return s[len(s)-n:]
	}
	return s
}

func (r *runner) nativeRun(u *UnitCfg, pkgName string, tape string) (string, error) {
	// overlay json
	rep := map[string]string{}
	rep[filepath.Join(r.repo, "internal/vrt/vrt.go")] = filepath.Join(r.verif, "vrt", "vrt.go")
	var entries []string
	seenE := map[string]bool{}
	for _, e := range u.Entries {
		if !seenE[e.Name] {
			seenE[e.Name] = true
			entries = append(entries, e.Name)
		}
	}
	var dir string
	for f, d := range u.Files {
		rep[filepath.Join(r.destDir(d), filepath.Base(f))] = filepath.Join(r.hdir, f)
		dir = d
	}
	for dst, src := range r.mutOverlay {
		rep[dst] = src
	}
	for i, rc := range u.Rename {
		path := filepath.Join(r.destDir(filepath.Dir(rc.File)), filepath.Base(rc.File))
		srcPath := path
		if m, ok := rep[path]; ok {
			srcPath = m
		}
		src, err := os.ReadFile(srcPath)
		if err != nil {
			return "", err
		}
		out, err := renameFuncs(path, src, rc.Funcs)
		if err != nil {
			return "", err
		}
		if out, err = applySubst(path, out, rc.Subst); err != nil {
			return "", err
		}
		sp := filepath.Join(r.scratch, fmt.Sprintf("renamed_%d_%s", i, filepath.Base(path)))
		os.WriteFile(sp, out, 0o644)
		rep[path] = sp
	}
	pkgDir := strings.TrimPrefix(u.Package, "./")
	_ = dir
	var sb strings.Builder
	fmt.Fprintf(&sb, "//go:build verif\n\npackage %s\n\nimport (\n\t\"testing\"\n\n\t\"github.com/nspcc-dev/neofs-node/internal/vrt\"\n)\n\nfunc TestVerifReplay(t *testing.T) {\n\tvrt.Replay(t, map[string]func(){\n", pkgName)
	for _, e := range entries {
		fmt.Fprintf(&sb, "\t\t%q: %s,\n", e, e)
	}
	sb.WriteString("\t})\n}\n")
	testFile := filepath.Join(r.scratch, "zz_verif_replay_test.go")
	os.WriteFile(testFile, []byte(sb.String()), 0o644)
	rep[filepath.Join(r.repo, pkgDir, "zz_verif_replay_test.go")] = testFile
	ovb, _ := json.Marshal(map[string]any{"Replace": rep})
	ovPath := filepath.Join(r.scratch, "overlay.json")
	os.WriteFile(ovPath, ovb, 0o644)
	args := []string{"test", "-tags", "verif", "-vet=off", "-count=1", "-overlay", ovPath}
	if r.modfile != "" {
		args = append(args, "-modfile="+r.modfile)
	}
	args = append(args, "-timeout", "120s", "-run", "^TestVerifReplay$", "-v", u.Package)
	cmd := exec.Command("go", args...)
	cmd.Dir = r.repo
	cmd.Env = append(os.Environ(), "VERIF_TAPE="+tape, "GOFLAGS=-mod=mod", "GOPROXY=off", "GOSUMDB=off", "GOTOOLCHAIN=local")
	done := make(chan struct{})
	var outb []byte
	var err error
	go func() {
		outb, err = cmd.CombinedOutput()
		close(done)
	}()
	select {
	case <-done:
	case <-time.After(15 * time.Minute):
		cmd.Process.Kill()
		<-done
	}
	return string(outb), err
}

func (r *runner) replayOnly(tape string) int {
	b, err := os.ReadFile(tape)
	if err != nil {
		fatal(2, "cannot read tape: %v", err)
	}
	var tf tapeFile
	json.Unmarshal(b, &tf)
	for ui := range r.hc.Units {
		u := &r.hc.Units[ui]
		for _, e := range u.Entries {
			if e.Name == tf.Entry {
				// package name: read from the first harness file
				pkgName := ""
				for f, d := range u.Files {
					if filepath.Clean(r.destDir(d)) != filepath.Clean(filepath.Join(r.repo, strings.TrimPrefix(u.Package, "./"))) {
						continue
					}
					src, _ := os.ReadFile(filepath.Join(r.hdir, f))
					m := regexp.MustCompile(`(?m)^package\s+(\w+)`).FindSubmatch(src)
					if m != nil {
						pkgName = string(m[1])
					}
				}
				r.prepareMods(u)
				outp, _ := r.nativeRun(u, pkgName, tape)
				fmt.Println(outp)
				if strings.Contains(outp, "VERIF-REPLAY: assert-failed") || strings.Contains(outp, "panic:") {
					fmt.Printf("VIOLATION property=%s replay=%s\n", r.prop, tape)
					return 1
				}
				return 0
			}
		}
	}
	fatal(2, "entry %s not found in harness", tf.Entry)
	return 2
}

func (r *runner) validate(u *UnitCfg, ld *eng.Loaded, fn *ssa.Function, e *EntryCfg, tc TierCfg) (int, []string) {
	return 0, nil
}

func (r *runner) writeEvidence(out string, t0 time.Time, reports []*entryReport, funcs map[string]int64, samples []eng.Sample, notes []string, paths, decisions, nontrivial, validated int, viol []*eng.Violation) {
	if out == "" {
		return
	}
	type fe struct {
		Name   string `json:"function"`
		Instrs int64  `json:"ssa_instructions_executed"`
	}
	var fl []fe
	for k, v := range funcs {
		fl = append(fl, fe{k, v})
	}
	sort.Slice(fl, func(i, j int) bool { return fl[i].Instrs > fl[j].Instrs })
	if len(fl) > 80 {
		fl = fl[:80]
	}
	var sm []any
	for _, s := range samples {
		sm = append(sm, s)
	}
	if len(sm) == 0 {
		sm = append(sm, map[string]string{"note": "no symbolic assertion query was issued on this run"})
	}
	totalQ := map[string]int{}
	var solverT float64
	for _, rp := range reports {
		for k, v := range rp.Queries {
			totalQ[k] += v
		}
		solverT += rp.SolverTimeS
	}
	nv := 0
	for _, v := range viol {
		if !strings.Contains(v.Confirmed, "known finding") && !strings.HasPrefix(v.Confirmed, "unconfirmed") {
			nv++
		}
	}
	ev := map[string]any{
		"property_id": r.prop,
		"tier":        r.tier,
		"seed":        r.seed,
		"level":       "model_checking",
		"coverage": map[string]any{
			"states":                        max(paths, 0),
			"transitions":                   max(decisions, 0),
			"traces_validated_against_impl": validated,
			"samples":                       sm,
			"distinct_nontrivial":           nontrivial,
			"evaluations":                   paths,
			"rule":                          "states = feasible execution paths of the harness entry functions completed by the symbolic executor (values on each path stay symbolic; every assertion is decided by z3 for all values satisfying the path condition); transitions = branch decisions taken; distinct_nontrivial = paths on which at least one assertion query had a non-constant (symbolic) condition",
			"exhaustive":                    len(notes) == 0,
			"technique":                     "bounded symbolic execution of go/ssa of the real code + SMT (z3; cross-checked with z3-new/cvc5)",
			"functions_encoded":             fl,
			"queries":                       totalQ,
			"solver_time_s":                 solverT,
			"entries":                       reports,
			"outside_bounds":                r.hc.Outside,
			"stubs":                         r.hc.Stubs,
			"inconclusive_or_notes":         notes,
		},
		"assumptions": r.hc.Assumptions,
		"wall_s":      time.Since(t0).Seconds(),
		"violations":  nv,
	}
	if ev["assumptions"] == nil {
		ev["assumptions"] = []string{}
	}
	b, _ := json.MarshalIndent(ev, "", " ")
	os.MkdirAll(filepath.Dir(out), 0o755)
	os.WriteFile(out, b, 0o644)
}
