//go:build verif

// Package vrt is the runtime of the verification harnesses. Under the symbolic
// engine (/verif/gose) the primitive functions below are intercepted: draws
// become fresh SMT variables, Assume extends the path condition, Assert is an
// obligation decided by the solver. Compiled natively (go test -overlay) the
// same functions read successive values from a JSON tape (env VERIF_TAPE), so
// the harness itself is the replay test for a solver counterexample.
package vrt

import (
	"encoding/hex"
	"encoding/json"
	"fmt"
	"hash/fnv"
	"os"
	"strconv"
	"testing"
	"time"
)

type draw struct {
	N string `json:"n"`
	K string `json:"k"`
	V string `json:"v"`
}

type tape struct {
	Entry  string         `json:"entry"`
	Draws  []draw         `json:"draws"`
	Params map[string]int `json:"params"`
}

var (
	cur     tape
	pos     int
	failed  []string
	reached []string
)

type skipRun struct{ why string }
type crashNow struct{ label string }

func next(name, kind string) string {
	if pos >= len(cur.Draws) {
		// beyond the recorded prefix: unconstrained by the counterexample
		return "0"
	}
	d := cur.Draws[pos]
	pos++
	if d.N != name {
		panic(skipRun{fmt.Sprintf("tape desync: want draw %q, tape has %q at %d", name, d.N, pos-1)})
	}
	return d.V
}

func nextU(name, kind string) uint64 {
	v, err := strconv.ParseUint(next(name, kind), 10, 64)
	if err != nil {
		panic(skipRun{"bad tape value for " + name})
	}
	return v
}

func Bool(name string) bool   { return nextU(name, "bool") != 0 }
func Byte(name string) byte   { return byte(nextU(name, "u8")) }
func U16(name string) uint16  { return uint16(nextU(name, "u16")) }
func U32(name string) uint32  { return uint32(nextU(name, "u32")) }
func U64(name string) uint64  { return nextU(name, "u64") }
func I64(name string) int64   { return int64(nextU(name, "i64")) }
func Int(name string) int     { return int(nextU(name, "int")) }

// IntRange returns an arbitrary int in [lo, hi].
func IntRange(name string, lo, hi int) int {
	v := int(nextU(name, "range"))
	if v < lo || v > hi {
		panic(skipRun{"range draw outside bounds"})
	}
	return v
}

// Choice returns an arbitrary value in [0, n); the engine always forks on it.
func Choice(name string, n int) int {
	v := int(nextU(name, "choice"))
	if v < 0 || v >= n {
		panic(skipRun{"choice outside bounds"})
	}
	return v
}

// Bytes returns n arbitrary bytes (n must be concrete).
func Bytes(name string, n int) []byte {
	s := next(name, "bytes")
	b, err := hex.DecodeString(s)
	if err != nil || len(b) != n {
		if s == "0" {
			return make([]byte, n)
		}
		panic(skipRun{"bad bytes draw " + name})
	}
	return b
}

// String returns an arbitrary string of n bytes.
func String(name string, n int) string { return string(Bytes(name, n)) }

// Assume restricts the inputs considered.
func Assume(cond bool) {
	if !cond {
		panic(skipRun{"assumption false"})
	}
}

// Assert states the property; label identifies the obligation.
func Assert(cond bool, label string) {
	if !cond {
		failed = append(failed, label)
		fmt.Printf("VERIF-REPLAY: assert-failed label=%q\n", label)
	}
}

// Reach is a vacuity witness.
func Reach(label string) { reached = append(reached, label) }

// Param returns a concrete per-tier parameter from the harness configuration.
func Param(name string) int {
	v, ok := cur.Params[name]
	if !ok {
		panic("vrt.Param: unknown " + name)
	}
	return v
}

// Observe records a value for translator validation.
func Observe(name string, v any) { fmt.Printf("VERIF-OBS: %s=%s\n", name, obs(v)) }

func obs(v any) string {
	switch x := v.(type) {
	case bool:
		return fmt.Sprint(x)
	case string:
		return fmt.Sprintf("%q", x)
	case []byte:
		s := "["
		for i, b := range x {
			if i > 0 {
				s += " "
			}
			s += fmt.Sprint(b)
		}
		return s + "]"
	case int:
		return fmt.Sprint(uint64(x))
	case int64:
		return fmt.Sprint(uint64(x))
	case int32:
		return fmt.Sprint(uint32(x))
	case int16:
		return fmt.Sprint(uint16(x))
	case int8:
		return fmt.Sprint(uint8(x))
	case uint, uint8, uint16, uint32, uint64:
		return fmt.Sprint(x)
	case nil:
		return "<nil>"
	case error:
		return "iface"
	}
	return fmt.Sprintf("<%T>", v)
}

// Symbolic reports whether the harness runs under the symbolic engine.
func Symbolic() bool { return false }

// UF is an uninterpreted function from byte strings to outLen bytes (a stand-in
// for hashes and opaque codecs): equal inputs give equal outputs, nothing else
// is known. Natively it is a fixed keyed hash.
func UF(name string, in []byte, outLen int) []byte {
	out := make([]byte, 0, outLen)
	for i := 0; len(out) < outLen; i++ {
		h := fnv.New64a()
		h.Write([]byte(name))
		h.Write([]byte{byte(i)})
		h.Write(in)
		out = h.Sum(out)
	}
	return out[:outLen]
}

// Crash is a symbolic crash point: on some paths execution stops here. Use
// inside Run.
func Crash(label string) {
	if Bool("crash:" + label) {
		panic(crashNow{label})
	}
}

// Run executes body up to a Crash and reports whether it crashed.
func Run(body func()) (crashed bool) {
	defer func() {
		if r := recover(); r != nil {
			if _, ok := r.(crashNow); ok {
				crashed = true
				return
			}
			panic(r)
		}
	}()
	body()
	return false
}

// UntilBlocked runs f until it returns or would block forever on a channel
// operation (sequential engine: reported as blocked=true). Natively f runs in
// a goroutine and is abandoned after it has been idle for a moment.
func UntilBlocked(f func()) (blocked bool) {
	done := make(chan struct{})
	go func() {
		defer close(done)
		f()
	}()
	select {
	case <-done:
		return false
	case <-time.After(2500 * time.Millisecond):
		return true
	}
}

// ExpectPanic runs body, which may panic; it reports whether it did.
func ExpectPanic(body func()) (panicked bool) {
	defer func() {
		if r := recover(); r != nil {
			switch r.(type) {
			case skipRun, crashNow:
				panic(r)
			}
			panicked = true
		}
	}()
	body()
	return false
}

// Replay runs the entry named by the tape; used by the generated replay test.
func Replay(t *testing.T, entries map[string]func()) {
	path := os.Getenv("VERIF_TAPE")
	if path == "" {
		t.Skip("no VERIF_TAPE")
	}
	b, err := os.ReadFile(path)
	if err != nil {
		t.Fatal(err)
	}
	if err := json.Unmarshal(b, &cur); err != nil {
		t.Fatal(err)
	}
	f, ok := entries[cur.Entry]
	if !ok {
		t.Fatalf("VERIF-REPLAY: unknown entry %q", cur.Entry)
	}
	pos = 0
	failed = nil
	func() {
		defer func() {
			if r := recover(); r != nil {
				if s, ok := r.(skipRun); ok {
					fmt.Printf("VERIF-REPLAY: skipped %s\n", s.why)
					return
				}
				fmt.Printf("VERIF-REPLAY: panic %v\n", r)
				panic(r)
			}
		}()
		f()
	}()
	if len(failed) > 0 {
		t.Fatalf("VERIF-REPLAY: failed %v", failed)
	}
	fmt.Println("VERIF-REPLAY: passed")
}
