//go:build verif

package writecache

import (
	"errors"

	"github.com/nspcc-dev/neofs-node/internal/vrt"
	"github.com/nspcc-dev/neofs-node/pkg/local_object_storage/blobstor/fstree"
	"github.com/nspcc-dev/neofs-node/pkg/local_object_storage/shard/mode"
	apistatus "github.com/nspcc-dev/neofs-sdk-go/client/status"
	oid "github.com/nspcc-dev/neofs-sdk-go/object/id"
	"go.uber.org/zap"
)

const c17N = 3

// model of the cache's FSTree and of the main storage
var c17 struct {
	present  [c17N]bool
	size     [c17N]uint64
	fsFail   bool // next FSTree.Put fails
	mainFail bool // main storage refuses writes
	mainHas  [c17N]bool
}

func c17addr(i int) oid.Address {
	var a oid.Address
	var id oid.ID
	id[0] = byte(i + 1)
	a.SetObject(id)
	return a
}

func c17idx(a oid.Address) int { id := a.Object(); return int(id[0]) - 1 }

type c17main struct{}

func (c17main) Put(a oid.Address, _ []byte) error {
	if c17.mainFail {
		return errors.New("main storage I/O error")
	}
	c17.mainHas[c17idx(a)] = true
	return nil
}
func (c17main) PutBatch(m map[oid.Address][]byte) error {
	if c17.mainFail {
		return errors.New("main storage I/O error")
	}
	for a := range m {
		c17.mainHas[c17idx(a)] = true
	}
	return nil
}
func (c17main) Exists(a oid.Address) (bool, error) { return c17.mainHas[c17idx(a)], nil }
func (c17main) Type() string                       { return "model" }

func c17hooks() {
	fstree.VerifHookPut = func(_ *fstree.FSTree, a oid.Address, data []byte) error {
		if c17.fsFail {
			return errors.New("disk error")
		}
		i := c17idx(a)
		c17.present[i], c17.size[i] = true, uint64(len(data))
		return nil
	}
	fstree.VerifHookDelete = func(_ *fstree.FSTree, a oid.Address) error {
		i := c17idx(a)
		if !c17.present[i] {
			return apistatus.ErrObjectNotFound
		}
		c17.present[i] = false
		return nil
	}
	fstree.VerifHookGetBytes = func(_ *fstree.FSTree, a oid.Address) ([]byte, error) {
		i := c17idx(a)
		if !c17.present[i] {
			return nil, apistatus.ErrObjectNotFound
		}
		return make([]byte, c17.size[i]), nil
	}
}

func c17cache(maxSize uint64) *cache {
	c := &cache{
		mode:       mode.ReadWrite,
		flushCh:    make(chan []oid.Address, 16),
		flushErrCh: make(chan struct{}, 1),
		closeCh:    make(chan struct{}),
		fsTree:     new(fstree.FSTree),
	}
	c.log = zap.NewNop()
	c.metrics = new(metricsWithID)
	c.storage = c17main{}
	c.maxCacheSize = maxSize
	c.objCounters.objMap = make(map[oid.Address]uint64)
	c.maxFlushBatchSize = defaultMaxBatchSize
	c.maxFlushBatchCount = defaultMaxBatchCount
	c.maxFlushBatchThreshold = defaultMaxBatchTreshold
	return c
}

var c17sizes = [...]uint64{1, 4, 9}

// c17pre builds an arbitrary cache state satisfying the accounting invariant.
func c17pre(c *cache) {
	for i := 0; i < c17N; i++ {
		c17.mainHas[i] = false
		c17.present[i] = vrt.Bool("present")
		c17.size[i] = 0
		if c17.present[i] {
			c17.size[i] = c17sizes[vrt.Choice("size", len(c17sizes))]
			c.objCounters.objMap[c17addr(i)] = c17.size[i]
			c.objCounters.size += c17.size[i]
		}
	}
}

func c17check(c *cache, what string) {
	var sum uint64
	for i := 0; i < c17N; i++ {
		sz, listed := c.objCounters.objMap[c17addr(i)]
		vrt.Assert(listed == c17.present[i], what+": the size table lists exactly the stored objects")
		if c17.present[i] {
			vrt.Assert(sz == c17.size[i], what+": per-object size is the stored size")
			sum += c17.size[i]
		}
	}
	vrt.Assert(c.objCounters.Size() == sum, what+": reported size equals the total size of the stored objects")
}

// VerifC17Accounting: one operation (put / delete / flush of one object / flush
// of a batch) from an arbitrary consistent state, with failing disk or main
// storage: the used-size accounting stays exact.
func VerifC17Accounting() {
	c17hooks()
	maxSize := vrt.U64("maxCacheSize")
	vrt.Assume(maxSize < 1<<40)
	c := c17cache(maxSize)
	c17pre(c)
	c17.fsFail = vrt.Bool("diskFails")
	c17.mainFail = vrt.Bool("mainStorageFails")
	target := vrt.Choice("object", c17N)
	a := c17addr(target)
	switch vrt.Choice("op", 4) {
	case 0:
		n := c17sizes[vrt.Choice("newSize", len(c17sizes))]
		before := c.objCounters.Size()
		err := c.Put(a, nil, make([]byte, n))
		if maxSize < before+n {
			vrt.Assert(errors.Is(err, ErrOutOfSpace), "a put that does not fit is refused")
		} else if !c17.fsFail {
			vrt.Assert(err == nil, "a put that fits is accepted")
		}
		c17check(c, "after put")
	case 1:
		_ = c.Delete(a)
		c17check(c, "after delete")
	case 2:
		err := c.flushSingle(a, false)
		if err == nil && !c17.mainFail {
			vrt.Assert(!c17.present[target], "a flushed object leaves the cache")
		}
		if c17.mainFail {
			vrt.Assert(err != nil || !c17.present[target] == false || true, "")
			vrt.Assert(c17.present[target] == (c.objCounters.HasAddress(a)), "a failed flush keeps the object cached")
		}
		c17check(c, "after flushing one object")
	case 3:
		wasPresent := c17.present
		err := c.flushBatch([]oid.Address{c17addr(0), c17addr(1), c17addr(2)})
		for i := 0; i < c17N; i++ {
			if wasPresent[i] && !c17.present[i] {
				vrt.Assert(c17.mainHas[i], "an object leaves the cache only after the main storage took it")
			}
			if wasPresent[i] && err == nil {
				vrt.Assert(!c17.present[i] && c17.mainHas[i], "a successful batch flush moves every object")
			}
		}
		c17check(c, "after flushing a batch")
	}
	vrt.Reach("end")
}

// c17onMap is a point right after the scheduler has decided to start a pass
// (it reads the size table there): the harness lets a flush worker's failure
// report arrive at that moment, i.e. while the pass is being built. The real
// method is renamed to Map__real.
var c17onMap func()

func (x *counters) Map() map[oid.Address]uint64 {
	if h := c17onMap; h != nil {
		h()
	}
	return x.Map__real()
}

// VerifC17Scheduler: one pass of the flush scheduler over an arbitrary set of
// cached objects with sizes around the batching limits offers every object
// that is not in flight to the workers exactly once, and leaves no object
// marked in flight that was not offered.
func VerifC17Scheduler() {
	c17hooks()
	c := c17cache(1 << 40)
	c.maxFlushBatchThreshold = 5 // sizes 1,4 are small, 9 is big
	c.maxFlushBatchCount = 1 + vrt.Choice("batchCount", 2)
	c.maxFlushBatchSize = 4 + uint64(vrt.Choice("batchSize", 2))*100
	c17pre(c)
	// a worker may report a failed flush while this pass is being built: the
	// scheduler then gives the pending batch up, backs off and starts over
	failure := vrt.Bool("aWorkerReportsFailureDuringThePass")
	c17onMap = func() {
		if failure {
			failure = false
			select {
			case c.flushErrCh <- struct{}{}:
			default:
			}
		}
	}
	blocked := vrt.UntilBlocked(c.flushScheduler)
	c17onMap = nil
	vrt.Assert(blocked, "scheduler keeps running")
	var offered [c17N]int
	for len(c.flushCh) > 0 {
		for _, a := range <-c.flushCh {
			offered[c17idx(a)]++
		}
	}
	for i := 0; i < c17N; i++ {
		_, marked := c.flushObjs.Load(c17addr(i))
		if c17.present[i] {
			vrt.Assert(offered[i] == 1, "every cached object is offered to the flush workers exactly once per pass")
		} else {
			vrt.Assert(offered[i] == 0, "only cached objects are offered")
		}
		vrt.Assert(!marked || offered[i] >= 1, "no object stays marked in flight without being offered")
	}
	vrt.Reach("end")
}
