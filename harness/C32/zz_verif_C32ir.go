//go:build verif

package control

import (
	"bytes"
	"context"
	"errors"

	"github.com/nspcc-dev/neofs-node/internal/vrt"
	control "github.com/nspcc-dev/neofs-node/pkg/services/control/ir"
	neofscrypto "github.com/nspcc-dev/neofs-sdk-go/crypto"
	neofsecdsa "github.com/nspcc-dev/neofs-sdk-go/crypto/ecdsa"
)

var c32valid bool
var c32asked int

func (s *Server) isValidRequest(req SignedMessage) error {
	c32asked++
	if !c32valid {
		return errors.New("invalid signature")
	}
	return nil
}

// VerifC32IRHandlers: every control service method of the inner ring on a server
// without dependencies: unverified requests are rejected before anything else.
func VerifC32IRHandlers() {
	c32valid = false
	c32asked = 0
	s := &Server{}
	ctx := context.Background()
	var err error
	switch vrt.Choice("method", 4) {
	case 0:
		_, err = s.HealthCheck(ctx, new(control.HealthCheckRequest))
	case 1:
		_, err = s.NotaryList(ctx, new(control.NotaryListRequest))
	case 2:
		_, err = s.NotaryRequest(ctx, new(control.NotaryRequestRequest))
	case 3:
		_, err = s.NotarySign(ctx, new(control.NotarySignRequest))
	}
	vrt.Assert(c32asked >= 1, "every control method verifies the request")
	vrt.Assert(err != nil, "an unverified control request is rejected and nothing else happens")
	vrt.Reach("rejected")
}

// VerifC32IRSignature: the verification itself (inner ring control server).
func VerifC32IRSignature() {
	allowed := [][]byte{vrt.Bytes("allowedKey", 2), vrt.Bytes("allowedKey", 2)}
	key := vrt.Bytes("requestKey", 2)
	sigBytes := vrt.Bytes("signature", 2)
	decodeOK := vrt.Bool("keyDecodes")
	verdict := vrt.Bool("signatureVerdict")
	var verified []byte
	neofsecdsa.VerifHookDecode = func(_ *neofsecdsa.PublicKey, data []byte) error {
		if !decodeOK || !bytes.Equal(data, key) {
			return errors.New("bad key")
		}
		return nil
	}
	neofscrypto.VerifHookVerify = func(x neofscrypto.Signature, data []byte) bool {
		verified = append([]byte{}, data...)
		return verdict && bytes.Equal(x.Value(), sigBytes) && x.Scheme() == neofscrypto.ECDSA_SHA512
	}
	s := &Server{allowedKeys: allowed}
	req := new(control.HealthCheckRequest)
	req.Body = new(control.HealthCheckRequest_Body)
	withSig := vrt.Bool("signaturePresent")
	if withSig {
		req.Signature = &control.Signature{Key: key, Sign: sigBytes}
	}
	err := s.isValidRequest__real(req)
	if err == nil {
		isAllowed := bytes.Equal(key, allowed[0]) || bytes.Equal(key, allowed[1])
		vrt.Assert(withSig && isAllowed, "accepted only with a signature by a configured key")
		vrt.Assert(decodeOK && verdict, "accepted only if the key decodes and the signature verifies")
		want, _ := req.ReadSignedData(nil)
		vrt.Assert(bytes.Equal(verified, want), "the signature is verified over exactly the request body")
		vrt.Reach("accepted")
	} else {
		vrt.Reach("rejected")
	}
	neofsecdsa.VerifHookDecode, neofscrypto.VerifHookVerify = nil, nil
}

// VerifC32IRSecondRequest: the same server verifies two requests in a row; the
// second one has another body and carries either its own signature or the
// bytes of the first one's. Whatever happened to the first request, the second
// one is accepted only if its signature verifies over its own body.
func VerifC32IRSecondRequest() {
	allowed := [][]byte{{1, 1}, {2, 2}}
	key := allowed[vrt.Choice("requestKey", 2)]
	sig1 := []byte{0xA1}
	sig2 := []byte{0xA2}
	verdict1 := vrt.Bool("firstSignatureVerdict")
	verdict2 := vrt.Bool("secondSignatureVerdict")
	req1 := new(control.HealthCheckRequest)
	req1.Body = new(control.HealthCheckRequest_Body)
	req2 := new(control.NotarySignRequest)
	req2.Body = &control.NotarySignRequest_Body{Hash: []byte{7, 7}}
	body1, _ := req1.ReadSignedData(nil)
	body2, _ := req2.ReadSignedData(nil)
	vrt.Assert(!bytes.Equal(body1, body2), "the two bodies differ")
	neofsecdsa.VerifHookDecode = func(_ *neofsecdsa.PublicKey, data []byte) error { return nil }
	// a signature verifies only over the body it was made for
	neofscrypto.VerifHookVerify = func(x neofscrypto.Signature, data []byte) bool {
		switch {
		case bytes.Equal(x.Value(), sig1):
			return verdict1 && bytes.Equal(data, body1)
		case bytes.Equal(x.Value(), sig2):
			return verdict2 && bytes.Equal(data, body2)
		}
		return false
	}
	s := &Server{allowedKeys: allowed}
	req1.Signature = &control.Signature{Key: key, Sign: sig1}
	err1 := s.isValidRequest__real(req1)
	vrt.Assert((err1 == nil) == verdict1, "the first request is accepted exactly when its signature verifies")
	reused := vrt.Bool("secondRequestReusesFirstSignature")
	if reused {
		req2.Signature = &control.Signature{Key: key, Sign: sig1}
	} else {
		req2.Signature = &control.Signature{Key: key, Sign: sig2}
	}
	err2 := s.isValidRequest__real(req2)
	if err2 == nil {
		vrt.Assert(!reused && verdict2, "a request is accepted only with a valid signature over its own body, whatever was verified before")
		vrt.Reach("second-accepted")
	} else {
		vrt.Assert(reused || !verdict2, "a correctly signed request is accepted")
		vrt.Reach("second-rejected")
	}
	neofsecdsa.VerifHookDecode, neofscrypto.VerifHookVerify = nil, nil
}
