//go:build verif

package fstree

import (
	"strconv"
	"time"

	"github.com/nspcc-dev/neofs-node/internal/vrt"
	"golang.org/x/sys/unix"
)

// c12crashPoints wraps every system call of the file model (zz_verif_C13.go)
// with a crash point before and after it.
func c12crashPoints() {
	open, write, writev, link, sync, cl := unix.VerifHookOpen, unix.VerifHookWrite, unix.VerifHookWritev, unix.VerifHookLinkat, unix.VerifHookFdatasync, unix.VerifHookClose
	unix.VerifHookOpen = func(path string, mode int, perm uint32) (int, error) {
		vrt.Crash("before open")
		fd, err := open(path, mode, perm)
		vrt.Crash("after open")
		return fd, err
	}
	unix.VerifHookWrite = func(fd int, p []byte) (int, error) {
		vrt.Crash("before write")
		n, err := write(fd, p)
		vrt.Crash("after write")
		return n, err
	}
	unix.VerifHookWritev = func(fd int, iovs [][]byte) (int, error) {
		vrt.Crash("before writev")
		n, err := writev(fd, iovs)
		vrt.Crash("after writev")
		return n, err
	}
	unix.VerifHookLinkat = func(o, n string) error {
		vrt.Crash("before link")
		err := link(o, n)
		vrt.Crash("after link")
		return err
	}
	unix.VerifHookFdatasync = func(fd int) error {
		vrt.Crash("before sync")
		err := sync(fd)
		vrt.Crash("after sync")
		return err
	}
	unix.VerifHookClose = func(fd int) error {
		vrt.Crash("before close")
		err := cl(fd)
		vrt.Crash("after close")
		return err
	}
}

// VerifC12CrashDuringWrite: W sequential writes through the Linux writer
// (single O_TMPFILE files and combined batches) with the process stopping at
// any system call boundary (bytes already handed to the kernel survive). After
// the crash: every write that had reported success is linked at its path,
// completely written; nothing is visible at an object path before all bytes of
// that object were written to the file (combined files are append-only, so
// later objects do not touch earlier ones); unlinked temporary files have no
// path at all.
func VerifC12CrashDuringWrite() {
	c13install()
	c12crashPoints()
	w := &linuxWriter{
		root: "/root", perm: 0o600,
		flags: unix.O_WRONLY | unix.O_TMPFILE | unix.O_CLOEXEC | unix.O_DSYNC, bFlags: unix.O_WRONLY | unix.O_TMPFILE | unix.O_CLOEXEC,
		combinedCountLimit: 2 + vrt.Choice("countLimit", 2), combinedSizeLimit: 80, combinedSizeThreshold: 8,
		combinedWriteInterval: time.Hour,
	}
	nw := vrt.Param("W")
	sizes := [...]int{3, 8, 9, 70}
	type done struct {
		p  string
		sz int
	}
	var succeeded []done
	szOf := map[string]int{}
	// bytes already in each inode when the write of the object at path p started
	before := map[string][]int{}
	reput := vrt.Bool("secondWriteRepeatsTheFirstObject")
	crashed := vrt.Run(func() {
		for i := 0; i < nw; i++ {
			sz := sizes[vrt.Choice("size", len(sizes))]
			p := "/root/obj" + strconv.Itoa(i)
			if i > 0 && reput {
				// the same object is put again (same address, same bytes)
				i0 := 0
				p = "/root/obj" + strconv.Itoa(i0)
				sz = szOf[p]
			}
			szOf[p] = sz
			if _, again := before[p]; !again {
				var snap []int
				for _, ino := range c13.inodes {
					snap = append(snap, ino.written)
				}
				before[p] = snap
			}
			// the writer of a combined file may still be waiting for its batch when the next one arrives
			c13defer = i < nw-1 && vrt.Bool("nextWriterArrivesBeforeTheTimer")
			c13waiting = nil
			id := c13id(i)
			if i > 0 && reput {
				id = c13id(0)
			}
			err := w.writeData(id, p, make([]byte, sz))
			c13defer = false
			if err == nil {
				succeeded = append(succeeded, done{p, sz})
			}
		}
		_ = w.finalize()
	})
	c13defer = false
	for _, d := range succeeded {
		p := d.p
		idx, linked := c13.links[p]
		vrt.Assert(linked, "a write that had reported success is found at its path after the crash")
		if linked {
			// the object's own bytes are complete: a short write, if any, began
			// after them (files are append-only; a later member of a combined file
			// may be cut short without touching the earlier ones)
			already := 0
			if idx < len(before[p]) {
				already = before[p][idx]
			}
			ino := c13.inodes[idx]
			vrt.Assert(!ino.short || ino.shortAt >= already+d.sz, "a write that had reported success has no short write behind it")
		}
	}
	for p, idx := range c13.links {
		already := 0
		if idx < len(before[p]) {
			already = before[p][idx]
		}
		vrt.Assert(c13.linkAt[p] >= already+szOf[p], "a file becomes visible at an object path only after all bytes of that object were written to it")
	}
	if crashed {
		vrt.Reach("crashed")
	} else {
		vrt.Reach("completed")
	}
}
