//go:build verif

package keys

// Hook that lets harnesses give public keys an abstract identity (a small
// integer) instead of elliptic-curve points: Address, Cmp and Equal are then
// functions of that identity. The real methods are renamed to <name>__real.
var VerifKeyID func(*PublicKey) int

func (p *PublicKey) Address() string {
	if VerifKeyID != nil {
		return string([]byte{'K', byte(VerifKeyID(p))})
	}
	return p.Address__real()
}

func (p *PublicKey) Cmp(key *PublicKey) int {
	if VerifKeyID != nil {
		a, b := VerifKeyID(p), VerifKeyID(key)
		switch {
		case a < b:
			return -1
		case a > b:
			return 1
		}
		return 0
	}
	return p.Cmp__real(key)
}

func (p *PublicKey) Equal(key *PublicKey) bool {
	if VerifKeyID != nil {
		return VerifKeyID(p) == VerifKeyID(key)
	}
	return p.Equal__real(key)
}
