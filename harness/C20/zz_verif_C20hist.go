//go:build verif

package engine

import (
	"context"

	"github.com/nspcc-dev/neofs-node/internal/vrt"
	"github.com/nspcc-dev/neofs-node/pkg/local_object_storage/shard/mode"
	"github.com/nspcc-dev/neofs-sdk-go/object"
)

var c20histModes = [...]mode.Mode{mode.ReadWrite, mode.ReadOnly, mode.DegradedReadOnly}

// VerifC20History: two real shards (metabase on the bbolt model, map blob
// model). An object is put through the engine while each shard is read-write or
// read-only; a second copy may be left on the other shard (as an evacuation of
// a read-only shard leaves one); the object is then removed through the engine
// (garbage mark or tombstone) while each shard is in an arbitrary mode, the
// removal may be retried with every shard writable, a GC pass may run, and the
// engine is read in arbitrary shard modes and visiting orders.
//   - not removed: the object is returned by Get, Head and the existence check;
//   - a removal the engine reported as done: the object is not returned any
//     more (unless a shard that holds its data is read without metadata).
func VerifC20History() {
	ctx := context.Background()
	verifOrderOnce = vrt.Param("ORDERS") == 0
	nm := int(vrt.Param("MODES"))
	w := vwNew(2, 10)
	obj := w.vwObj(1, object.TypeRegular, -1)
	addr := obj.Address()
	ts := w.vwObj(3, object.TypeTombstone, 30)
	ts.AssociateDeleted(obj.GetID())

	setModes := func(tag string, n int) {
		for i := range w.shards {
			w.shards[i].VerifSetModeRaw(c20histModes[vrt.Choice(tag, n)])
		}
	}
	allRW := func() {
		for i := range w.shards {
			w.shards[i].VerifSetModeRaw(mode.ReadWrite)
		}
	}
	holds := func(i int) bool { _, ok := w.blobs[i].data[addr]; return ok }

	// 1. the put
	setModes("modeAtPut", 2)
	stored := w.e.Put(ctx, obj, nil) == nil
	if !stored {
		allRW()
		_, err := w.e.Get(ctx, addr)
		vrt.Assert(err != nil, "an object nobody holds is not returned")
		vrt.Reach("absent")
		return
	}
	// 2. a copy on the other shard
	allRW()
	if vrt.Bool("copyLeftOnOtherShard") {
		for i := range w.shards {
			if !holds(i) {
				if err := w.shards[i].Put(obj, nil); err != nil {
					panic(err)
				}
			}
		}
	}
	// 3. the removal, possibly retried
	kind := vrt.Choice("removal", 3) // none, garbage mark, tombstone
	remove := func() bool {
		if kind == 1 {
			return w.e.Delete(ctx, addr, GarbageMarkDefault) == nil
		}
		return w.e.Put(ctx, ts, nil) == nil
	}
	// which holders of a copy were not writable when the engine accepted the removal
	accepted := false
	holderState := ""
	removalName := [...]string{"", "garbage mark", "tombstone"}[kind]
	if kind != 0 {
		setModes("modeAtRemoval", nm)
		ro, deg := false, false
		for i := range w.shards {
			if holds(i) {
				switch m := w.shards[i].GetMode(); {
				case m.NoMetabase():
					deg = true
				case m.ReadOnly():
					ro = true
				}
			}
		}
		accepted = remove()
		if accepted {
			switch {
			case ro && deg:
				holderState = "read-only and degraded"
			case ro:
				holderState = "read-only"
			case deg:
				holderState = "degraded"
			}
		}
		if vrt.Bool("removalRetriedWithAllShardsWritable") {
			allRW()
			if remove() {
				accepted = true
			}
		}
	}
	// 4. GC
	if vrt.Bool("gcPass") {
		allRW()
		for i := range w.shards {
			w.shards[i].VerifGC(w.epoch.E)
		}
	}
	// 5. the reads
	setModes("modeAtRead", nm)
	readWithoutMeta, someShardDegraded := false, false
	for i := range w.shards {
		if w.shards[i].GetMode().NoMetabase() {
			someShardDegraded = true
			if holds(i) {
				readWithoutMeta = true
			}
		}
	}
	got, err := w.e.Get(ctx, addr)
	hdr, herr := w.e.Head(ctx, addr, false)
	switch {
	case kind == 0:
		vrt.Assert(err == nil && got != nil && got.GetID() == addr.Object(), "a stored object that was not removed is returned whatever the shard modes and order")
		vrt.Assert(herr == nil && hdr != nil && hdr.GetID() == addr.Object(), "the header of a stored object that was not removed is returned whatever the shard modes and order")
		vrt.Reach("found")
	case accepted && !readWithoutMeta:
		if holderState != "" {
			vrt.Assert(err != nil && herr != nil, "an object whose removal the engine reported as done is not returned any more ("+removalName+" accepted while a shard holding a copy was "+holderState+")")
		} else if kind == 1 && someShardDegraded {
			vrt.Assert(err != nil && herr != nil, "an object whose removal the engine reported as done is not returned any more (garbage mark; another shard is degraded at read time)")
		} else {
			vrt.Assert(err != nil && herr != nil, "an object whose removal the engine reported as done is not returned any more")
		}
		vrt.Reach("removed")
	}
}
