//go:build verif

package container

import (
	"github.com/nspcc-dev/neofs-node/internal/vrt"
	cntClient "github.com/nspcc-dev/neofs-node/pkg/morph/client/container"
	fschaincontracts "github.com/nspcc-dev/neofs-node/pkg/morph/contracts"
	containerEvent "github.com/nspcc-dev/neofs-node/pkg/morph/event/container"
	"github.com/nspcc-dev/neofs-sdk-go/container"
	cid "github.com/nspcc-dev/neofs-sdk-go/container/id"
	"github.com/nspcc-dev/neofs-sdk-go/eacl"
)

// VerifC35ContainerRequests: the container processor's reactions to creation,
// removal, eACL and attribute requests - all of them authorised by the owner's
// direct signature so that an alphabet node approves them - run in both
// states: a non-alphabet node co-signs nothing.
func VerifC35ContainerRequests() {
	c37anyState = true
	e := c37setup()
	owner := byte(1)
	cnr := c37container(owner, true)
	bin := cnr.Marshal()
	c37reg.cnr[string(bin)] = cnr
	id := cid.NewFromMarshalledContainer(bin)
	cntClient.VerifHookGet = func(b []byte) (container.Container, error) { return cnr, nil }
	invoc, verif := []byte{0xEE}, []byte{1} // key of user #1
	switch vrt.Choice("request", 5) {
	case 0:
		e.cp.processContainerPut(containerEvent.CreateContainerRequest{MainTransaction: c37tx, CreateContainerParams: fschaincontracts.CreateContainerParams{
			Container: bin, InvocationScript: invoc, VerificationScript: verif}}, id)
	case 1:
		e.cp.processContainerDelete(containerEvent.RemoveContainerRequest{MainTransaction: c37tx, RemoveContainerParams: fschaincontracts.RemoveContainerParams{
			ID: id[:], InvocationScript: invoc, VerificationScript: verif}})
	case 2:
		tbl := eacl.NewTableForContainer(id, nil)
		tb := tbl.Marshal()
		c37reg.eacl[string(tb)] = tbl
		e.cp.processPutEACLRequest(containerEvent.PutContainerEACLRequest{MainTransaction: c37tx, PutContainerEACLParams: fschaincontracts.PutContainerEACLParams{
			EACL: tb, InvocationScript: invoc, VerificationScript: verif}})
	case 3:
		e.cp.processSetAttributeRequest(containerEvent.SetAttributeRequest{MainTransaction: c37tx, ID: id[:], Attribute: "k", Value: "v", ValidUntil: 1 << 40,
			InvocationScript: invoc, VerificationScript: verif})
	case 4:
		e.cp.processRemoveAttributeRequest(containerEvent.RemoveAttributeRequest{MainTransaction: c37tx, ID: id[:], Attribute: "k", ValidUntil: 1 << 40,
			InvocationScript: invoc, VerificationScript: verif})
	}
	if len(e.calls) > 0 {
		vrt.Assert(e.alpha, "a non-alphabet node never co-signs a container request")
		vrt.Reach("acted")
	} else if !e.alpha {
		vrt.Reach("silent")
	}
}
