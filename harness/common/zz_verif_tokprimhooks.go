//go:build verif

package crypto

import (
	"crypto/ecdsa"
	"crypto/sha256"

	"github.com/nspcc-dev/neo-go/pkg/util"
)

// Hooks modelling the cryptographic primitives below token authentication as
// verdicts: public key decoding and the run of N3 witness scripts (the ECDSA
// verifications are hooked in the SDK). The real functions are renamed to <name>__real.
var (
	VerifHookDecodeKey func(b []byte) (*ecdsa.PublicKey, error)
	VerifHookN3        func(height uint32, acc util.Uint160, invocScript, verifScript []byte, dataHash [sha256.Size]byte) error
)

func decodeECDSAPublicKey(b []byte) (*ecdsa.PublicKey, error) {
	if h := VerifHookDecodeKey; h != nil {
		return h(b)
	}
	return decodeECDSAPublicKey__real(b)
}

func verifyN3Scripts(nsr N3ScriptRunner, height uint32, acc util.Uint160, invocScript, verifScript []byte, dataHash [sha256.Size]byte) error {
	if h := VerifHookN3; h != nil {
		return h(height, acc, invocScript, verifScript, dataHash)
	}
	return verifyN3Scripts__real(nsr, height, acc, invocScript, verifScript, dataHash)
}
