//go:build verif

package objectcore

import (
	"github.com/nspcc-dev/neofs-node/internal/signed256"
	"github.com/nspcc-dev/neofs-node/internal/vrt"
	"github.com/nspcc-dev/neofs-sdk-go/object"
)

func c03int(name string) (signed256.Int, bool) {
	b := vrt.Bytes(name, signed256.EncodedLen)
	vrt.Assume(b[0] <= 1)
	z, err := signed256.DecodeBytes(b)
	return z, err == nil
}

var c03ops = [...]object.SearchMatchType{object.MatchNumGT, object.MatchNumGE, object.MatchNumLT, object.MatchNumLE}

// VerifC03IntMatchers: the primary-index path (byte comparison of stored keys)
// and the secondary path (numeric comparison) decide every numeric filter the
// same way, for every pair of integers in [-(2^256-1), 2^256-1].
func VerifC03IntMatchers() {
	a, okA := c03int("dbValue")
	b, okB := c03int("filterValue")
	vrt.Assume(okA && okB)
	op := c03ops[vrt.Choice("op", len(c03ops))]
	viaKeys := intBytesMatch(IntBytes(&a), op, IntBytes(&b))
	viaInts := intMatches(a, op, &b)
	vrt.Assert(viaKeys == viaInts, "primary-index and secondary-attribute numeric matching agree")
	c := a.Cmp(&b)
	var want bool
	switch op {
	case object.MatchNumGT:
		want = c > 0
	case object.MatchNumGE:
		want = c >= 0
	case object.MatchNumLT:
		want = c < 0
	case object.MatchNumLE:
		want = c <= 0
	}
	vrt.Assert(viaInts == want, "numeric matcher semantics")
	vrt.Reach("end")
}

// VerifC03StringMatchers: EQ / NE / PREFIX on arbitrary byte strings.
func VerifC03StringMatchers() {
	db := vrt.Bytes("dbValue", vrt.Param("ND"))
	flt := vrt.Bytes("filterValue", vrt.Param("NF"))
	eq := len(db) == len(flt)
	pre := len(flt) <= len(db)
	for i := range flt {
		if i < len(db) {
			if db[i] != flt[i] {
				eq, pre = false, false
			}
		}
	}
	vrt.Assert(matchValues(db, object.MatchStringEqual, flt) == eq, "EQ matches exactly equal values")
	vrt.Assert(matchValues(db, object.MatchStringNotEqual, flt) == !eq, "NE matches exactly different values")
	vrt.Assert(matchValues(db, object.MatchCommonPrefix, flt) == pre, "PREFIX matches exactly values with that prefix")
	vrt.Reach("end")
}

// VerifC03NumericFilterValue: the query side parses numeric filter values
// exactly like the put side parses attribute values (same strings, same key).
func VerifC03NumericFilterValue() {
	s := vrt.String("value", vrt.Param("N"))
	var fs object.SearchFilters
	fs.AddFilter("Attr", s, object.MatchNumGE)
	n, err := parseNumericFilterValue(SearchFilter{SearchFilter: fs[0]})
	put, perr := signed256.ParseDecimal(s)
	vrt.Assert((err == nil) == (perr == nil), "a value is an integer for the query side exactly when it is one for the put side")
	if err == nil && perr == nil {
		vrt.Assert(string(IntBytes(&n)) == string(IntBytes(&put)), "same index key on both sides")
		vrt.Reach("int")
	}
}

// VerifC03WideFilterValue: numeric filter values around the uint64 boundary
// (20 digits): query side and put side agree on the value.
func VerifC03WideFilterValue() {
	tail := vrt.String("tail", 3)
	for i := 0; i < 3; i++ {
		vrt.Assume(tail[i] >= '0' && tail[i] <= '9')
	}
	s := "18446744073709551" + tail
	if vrt.Bool("negative") {
		s = "-" + s
	}
	var fs object.SearchFilters
	fs.AddFilter("Attr", s, object.MatchNumGT)
	n, err := parseNumericFilterValue(SearchFilter{SearchFilter: fs[0]})
	put, perr := signed256.ParseDecimal(s)
	vrt.Assert(err == nil && perr == nil, "20-digit values are integers on both sides")
	if err == nil && perr == nil {
		vrt.Assert(string(IntBytes(&n)) == string(IntBytes(&put)), "same index key on both sides across the uint64 boundary")
	}
	vrt.Reach("end")
}
