//go:build verif

package nodevalidation

import (
	"errors"
	"math/big"
	"time"

	"github.com/nspcc-dev/neo-go/pkg/core/transaction"
	"github.com/nspcc-dev/neo-go/pkg/crypto/keys"
	"github.com/nspcc-dev/neo-go/pkg/network/payload"
	"github.com/nspcc-dev/neo-go/pkg/util"
	netmaprpc "github.com/nspcc-dev/neofs-contract/rpc/netmap"
	"github.com/nspcc-dev/neofs-node/internal/vrt"
	netmapprocessor "github.com/nspcc-dev/neofs-node/pkg/innerring/processors/netmap"
	"github.com/nspcc-dev/neofs-node/pkg/innerring/processors/netmap/nodevalidation/state"
	"github.com/nspcc-dev/neofs-node/pkg/morph/client"
	nmClient "github.com/nspcc-dev/neofs-node/pkg/morph/client/netmap"
	"github.com/nspcc-dev/neofs-node/pkg/morph/event"
	netmapEvent "github.com/nspcc-dev/neofs-node/pkg/morph/event/netmap"
	"github.com/nspcc-dev/neofs-sdk-go/netmap"
	"go.uber.org/zap"
)

type c38alpha struct{ is bool }

func (a c38alpha) IsAlphabet() bool { return a.is }

type c38epoch struct{ counter, duration uint64 }

func (e *c38epoch) SetEpochCounter(v uint64)     { e.counter = v }
func (e *c38epoch) EpochCounter() uint64         { return e.counter }
func (e *c38epoch) SetEpochDuration(v uint64)    { e.duration = v }
func (e *c38epoch) EpochDuration() time.Duration { return time.Duration(e.duration) }

type c38timer struct{}

func (c38timer) ResetEpochTimer(uint32) error { return nil }

type c38validator struct {
	name   string
	asked  int
	accept bool
}

func (v *c38validator) Verify(netmap.NodeInfo) error {
	v.asked++
	if !v.accept {
		return errors.New(v.name + " rejects the node")
	}
	return nil
}

var c38contract = util.Uint160{0x4e}

func c38processor(alpha bool, es *c38epoch, nv netmapprocessor.NodeValidator) (*netmapprocessor.Processor, *[]client.VerifCall) {
	calls := new([]client.VerifCall)
	sendFails := vrt.Bool("chainSendFails")
	client.VerifHookSend = func(c client.VerifCall) error {
		*calls = append(*calls, c)
		if sendFails {
			return errors.New("chain is unavailable")
		}
		return nil
	}
	nmc, err := nmClient.NewFromMorph(&client.Client{}, c38contract, nmClient.AsAlphabet())
	if err != nil {
		panic(err)
	}
	nop := func(event.Event) {}
	return netmapprocessor.VerifNewProcessor(&netmapprocessor.Params{
		Log:                  zap.NewNop(),
		NetmapClient:         nmc,
		EpochTimer:           c38timer{},
		EpochState:           es,
		AlphabetState:        c38alpha{alpha},
		AlphabetSyncHandler:  nop,
		NotaryDepositHandler: nop,
		NodeValidator:        nv,
	}), calls
}

// VerifC38AddNode: a candidate's notary request is co-signed only by an
// alphabet node, only if the main script test-runs to HALT, the node
// descriptor parses (state online or maintenance) and every configured
// validator accepted it; then exactly the received main transaction is signed.
func VerifC38AddNode() {
	alpha := vrt.Bool("isAlphabet")
	nval := vrt.Choice("configuredValidators", 4)
	vs := make([]*c38validator, nval)
	var list []netmapprocessor.NodeValidator
	withState := vrt.Bool("stateValidatorConfigured")
	if withState {
		list = append(list, state.New())
	}
	for i := range vs {
		vs[i] = &c38validator{name: []string{"v0", "v1", "v2"}[i], accept: vrt.Bool("validatorAccepts")}
		list = append(list, vs[i])
	}
	np, calls := c38processor(alpha, &c38epoch{}, New(list...))

	scriptOK, scriptErr := vrt.Bool("scriptHalts"), vrt.Bool("scriptTestRunFails")
	asked := 0
	tx := &transaction.Transaction{Script: []byte{1, 2, 3}, Signers: []transaction.Signer{{Account: util.Uint160{1}}}}
	client.VerifHookValidScript = func(script []byte, signers []transaction.Signer) (bool, error) {
		asked++
		vrt.Assert(len(script) == 3 && script[0] == 1 && len(signers) == 1 && signers[0].Account == util.Uint160{1}, "the script and signers of the request's main transaction are the ones test-run")
		if scriptErr {
			return scriptOK, errors.New("RPC failure")
		}
		return scriptOK, nil
	}
	st := int64(vrt.Choice("nodeState", 4)) // 0 offline?, 1 online, 2 maintenance, 3 unknown
	node := netmaprpc.NetmapNode2{
		Addresses:  []string{"/ip4/1.2.3.4/tcp/8080"},
		Attributes: map[string]string{"Price": "1"},
		Key:        &keys.PublicKey{},
		State:      big.NewInt(st),
	}
	stateOK := node.State.Cmp(netmaprpc.NodeStateOnline) == 0 || node.State.Cmp(netmaprpc.NodeStateMaintenance) == 0
	ev := netmapEvent.VerifNewAddNode(node, &payload.P2PNotaryRequest{MainTransaction: tx})
	np.VerifProcessAddNode(ev)

	allAccept := true
	for _, v := range vs {
		allAccept = allAccept && v.accept
	}
	if len(*calls) > 0 {
		vrt.Assert(alpha, "a non-alphabet node never co-signs an admission request")
		vrt.Assert(asked == 1 && scriptOK && !scriptErr, "admission is approved only if the request's main script test-runs to HALT")
		vrt.Assert(stateOK, "admission is approved only for a parsable node descriptor")
		for _, v := range vs {
			vrt.Assert(v.asked == 1 && v.accept, "admission is approved only if every configured validator accepted the node")
		}
		vrt.Assert(len(*calls) == 1 && (*calls)[0].Kind == "cosign" && (*calls)[0].Tx == tx, "exactly the received main transaction is co-signed, once")
		vrt.Reach("approved")
	} else {
		vrt.Assert(!(alpha && scriptOK && !scriptErr && stateOK && allAccept), "a valid admission request accepted by every validator is approved by an alphabet node")
		vrt.Reach("ignored")
	}
}

// VerifC38EpochTicks: over a history of up to three new-epoch notifications
// (arbitrary 64-bit epoch numbers) and timer ticks, every tick of an alphabet
// node asks the Netmap contract for exactly the last notified epoch + 1 (one
// alphabet notary call), and a non-alphabet node sends nothing.
func VerifC38EpochTicks() {
	alpha := vrt.Bool("isAlphabet")
	es := &c38epoch{counter: vrt.U64("initialEpoch")}
	np, calls := c38processor(alpha, es, New())
	cur := es.counter
	steps := vrt.Param("STEPS")
	for i := 0; i < steps; i++ {
		before := len(*calls)
		if vrt.Bool("stepIsNotification") {
			n := vrt.U64("notifiedEpoch")
			np.VerifProcessNewEpoch(netmapEvent.VerifNewEpoch(n))
			cur = n
			vrt.Assert(len(*calls) == before, "a new-epoch notification sends no epoch tick")
			vrt.Assert(es.counter == n, "the notified epoch becomes the current one")
			continue
		}
		np.VerifProcessNewEpochTick()
		if !alpha {
			vrt.Assert(len(*calls) == before, "a non-alphabet node never asks for a new epoch")
			continue
		}
		vrt.Assert(len(*calls) == before+1, "an alphabet node asks for the next epoch once per tick")
		c := (*calls)[before]
		vrt.Assert(c.Contract == c38contract && c.Method == "newEpoch", "the tick is a call of Netmap.newEpoch")
		e, ok := c.Args[0].(uint64)
		vrt.Assert(len(c.Args) == 1 && ok && e == cur+1, "the epoch asked for is exactly the current epoch + 1")
		vrt.Reach("ticked")
	}
	vrt.Reach("end")
}
