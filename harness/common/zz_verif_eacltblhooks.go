//go:build verif

package eacl

// VerifHookUnmarshalTable replaces the reflection-based protobuf decoding of
// eACL tables by a model codec. The real method is renamed to Unmarshal__real.
var VerifHookUnmarshalTable func(t *Table, data []byte) error

func (t *Table) Unmarshal(data []byte) error {
	if h := VerifHookUnmarshalTable; h != nil {
		return h(t, data)
	}
	return t.Unmarshal__real(data)
}
