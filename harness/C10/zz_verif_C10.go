//go:build verif

package fstree

import (
	"errors"
	"io"
	"io/fs"
	"os"
	"slices"
	"strconv"
	"strings"
	"time"

	objectwire "github.com/nspcc-dev/neofs-node/internal/object"
	"github.com/nspcc-dev/neofs-node/internal/vrt"
	"github.com/nspcc-dev/neofs-node/pkg/util"
	apistatus "github.com/nspcc-dev/neofs-sdk-go/client/status"
	cid "github.com/nspcc-dev/neofs-sdk-go/container/id"
	oid "github.com/nspcc-dev/neofs-sdk-go/object/id"
	"golang.org/x/sys/unix"
)

// ---- a content-carrying file system model shared by the writer (system calls
// through golang.org/x/sys/unix) and the reader (package os calls, substituted
// by the verif* functions below in an overlay copy of the sources) ----

type c10node struct {
	data []byte
	open bool
}

type c10fs struct {
	nodes []*c10node
	links map[string]int
}

var c10 *c10fs

// verifFile is what the reader needs of *os.File.
type verifFile interface {
	io.Reader
	io.Seeker
	io.Closer
	Stat() (fs.FileInfo, error)
}

type c10file struct {
	n   *c10node
	pos int
}

func (f *c10file) Read(b []byte) (int, error) {
	if len(b) == 0 {
		return 0, nil
	}
	if f.pos >= len(f.n.data) {
		return 0, io.EOF
	}
	n := copy(b, f.n.data[f.pos:])
	f.pos += n
	return n, nil
}

func (f *c10file) Seek(off int64, whence int) (int64, error) {
	switch whence {
	case io.SeekStart:
		f.pos = int(off)
	case io.SeekCurrent:
		f.pos += int(off)
	case io.SeekEnd:
		f.pos = len(f.n.data) + int(off)
	}
	return int64(f.pos), nil
}
func (f *c10file) Close() error               { return nil }
func (f *c10file) Stat() (fs.FileInfo, error) { return c10info{size: int64(len(f.n.data))}, nil }

type c10info struct {
	name string
	size int64
	dir  bool
}

func (i c10info) Name() string       { return i.name }
func (i c10info) Size() int64        { return i.size }
func (i c10info) Mode() fs.FileMode  { return 0o600 }
func (i c10info) ModTime() time.Time { return time.Time{} }
func (i c10info) IsDir() bool        { return i.dir }
func (i c10info) Sys() any           { return nil }

type c10entry struct{ c10info }

func (e c10entry) Type() fs.FileMode          { return 0 }
func (e c10entry) Info() (fs.FileInfo, error) { return e.c10info, nil }

func verifOpen(p string) (verifFile, error) {
	if c10 == nil {
		f, err := os.Open(p)
		if err != nil {
			return nil, err
		}
		return f, nil
	}
	i, ok := c10.links[p]
	if !ok {
		return nil, fs.ErrNotExist
	}
	return &c10file{n: c10.nodes[i]}, nil
}

func verifStat(p string) (fs.FileInfo, error) {
	if c10 == nil {
		return os.Stat(p)
	}
	i, ok := c10.links[p]
	if !ok {
		return nil, fs.ErrNotExist
	}
	return c10info{size: int64(len(c10.nodes[i].data))}, nil
}

func verifRemove(p string) error {
	if c10 == nil {
		return os.Remove(p)
	}
	if _, ok := c10.links[p]; !ok {
		return fs.ErrNotExist
	}
	delete(c10.links, p)
	return nil
}

func verifMkdirAll(p string, perm fs.FileMode) error {
	if c10 == nil {
		return util.MkdirAllX(p, perm)
	}
	return nil
}

func verifReadDir(dir string) ([]fs.DirEntry, error) {
	if c10 == nil {
		return os.ReadDir(dir)
	}
	seen := map[string]bool{}
	var names []string
	isDir := map[string]bool{}
	pref := dir + "/"
	for p := range c10.links {
		if !strings.HasPrefix(p, pref) {
			continue
		}
		rest := p[len(pref):]
		name, more, _ := strings.Cut(rest, "/")
		if !seen[name] {
			seen[name] = true
			names = append(names, name)
		}
		if more != "" || strings.Contains(rest, "/") {
			isDir[name] = true
		}
	}
	slices.Sort(names)
	var out []fs.DirEntry
	for _, n := range names {
		out = append(out, c10entry{c10info{name: n, dir: isDir[n]}})
	}
	return out, nil
}

func c10install() {
	c10 = &c10fs{links: map[string]int{}}
	node := func(fd int) *c10node {
		i := fd - 100
		if i < 0 || i >= len(c10.nodes) {
			return nil
		}
		return c10.nodes[i]
	}
	unix.VerifHookOpen = func(path string, mode int, perm uint32) (int, error) {
		c10.nodes = append(c10.nodes, &c10node{open: true})
		return 100 + len(c10.nodes) - 1, nil
	}
	unix.VerifHookWrite = func(fd int, p []byte) (int, error) {
		n := node(fd)
		n.data = append(n.data, p...)
		return len(p), nil
	}
	unix.VerifHookWritev = func(fd int, iovs [][]byte) (int, error) {
		n := node(fd)
		t := 0
		for _, v := range iovs {
			n.data = append(n.data, v...)
			t += len(v)
		}
		return t, nil
	}
	unix.VerifHookLinkat = func(oldpath, newpath string) error {
		fd, _ := strconv.Atoi(oldpath[len("/proc/self/fd/"):])
		if _, ok := c10.links[newpath]; ok {
			return unix.EEXIST
		}
		c10.links[newpath] = fd - 100
		return nil
	}
	unix.VerifHookFdatasync = func(int) error { return nil }
	unix.VerifHookClose = func(fd int) error { node(fd).open = false; return nil }
}

// the batch timer fires as soon as the writer waits (sequential model)
func (b *syncBatch) wait() error {
	select {
	case <-b.ready:
	default:
		b.sync()
	}
	<-b.ready
	return b.err
}

func c10addr(i byte) oid.Address {
	var c cid.ID
	c[0] = 0xC1
	var o oid.ID
	o[0], o[31] = i, 0x55
	return oid.NewAddress(c, o)
}

// VerifC10Map: a file tree (depth 0..2, combined-file threshold 4 bytes, combined
// count limit 2) under histories of K operations - put of object A or B, batch
// put of both, deletion of A or B - with arbitrary object bytes (3 or 6 of them,
// i.e. below and above the threshold). Afterwards, for both addresses: a full
// read returns exactly the stored bytes or not-found, existence agrees, and
// iteration lists every stored address exactly once with its bytes.
func VerifC10Map() {
	c10install()
	defer func() { c10 = nil }()
	t := New(WithPath("/root"), WithDepth(uint64(vrt.Choice("treeDepth", 3))))
	t.writer = &linuxWriter{
		root: "/root", perm: 0o600,
		flags: unix.O_WRONLY | unix.O_TMPFILE | unix.O_CLOEXEC | unix.O_DSYNC, bFlags: unix.O_WRONLY | unix.O_TMPFILE | unix.O_CLOEXEC,
		combinedCountLimit: 2, combinedSizeLimit: 80, combinedSizeThreshold: 4,
		combinedWriteInterval: time.Hour,
	}
	addrs := [2]oid.Address{c10addr(1), c10addr(2)}
	var data [2][]byte
	for i := range data {
		n := 3
		if vrt.Bool("objectAboveThreshold") {
			n = 6
		}
		data[i] = vrt.Bytes("objectBytes", n)
		vrt.Assume(data[i][0] != combinedPrefix && data[i][0] != 0x28) // a stored object starts with a protobuf tag
	}
	stored := [2]bool{}
	k := vrt.Param("K")
	for step := 0; step < k; step++ {
		switch op := vrt.Choice("op", 5); op {
		case 0, 1:
			err := t.Put(addrs[op], data[op])
			vrt.Assert(err == nil, "put succeeds")
			stored[op] = true
		case 2, 3:
			err := t.Delete(addrs[op-2])
			if stored[op-2] {
				vrt.Assert(err == nil, "deleting a stored object succeeds")
			} else {
				vrt.Assert(errors.Is(err, apistatus.ErrObjectNotFound), "deleting an absent object reports not found")
			}
			stored[op-2] = false
		case 4:
			err := t.PutBatch(map[oid.Address][]byte{addrs[0]: data[0], addrs[1]: data[1]})
			vrt.Assert(err == nil, "batch put succeeds")
			stored[0], stored[1] = true, true
		}
	}
	seen := [2]int{}
	err := t.Iterate(func(a oid.Address, b []byte) error {
		for i := range addrs {
			if a == addrs[i] {
				seen[i]++
				vrt.Assert(slices.Equal(b, data[i]), "iteration yields the stored bytes of the address")
			}
		}
		return nil
	}, nil)
	vrt.Assert(err == nil, "iteration works")
	for i := range addrs {
		got, err := t.GetBytes(addrs[i])
		ex, eerr := t.Exists(addrs[i])
		vrt.Assert(eerr == nil && ex == stored[i], "existence check agrees with the history")
		if stored[i] {
			vrt.Assert(err == nil && slices.Equal(got, data[i]), "a full read returns exactly the bytes stored under the address")
			vrt.Assert(seen[i] == 1, "iteration lists every stored address exactly once")
		} else {
			vrt.Assert(errors.Is(err, apistatus.ErrObjectNotFound), "a deleted or never stored address reads as not found")
			vrt.Assert(seen[i] == 0, "iteration lists no absent address")
		}
	}
	vrt.Reach("end")
}

// verifHeadBuf replaces the constant header buffer length (20480) in the
// overlay copy of head.go so that the buffer boundaries are within reach.
var verifHeadBuf = objectwire.NonPayloadFieldsBufferLength

// VerifC10ReadHeader: a combined file of two or three objects written by the
// real batch writer, with object sizes around the reader's buffer length B
// (here 100 instead of 20480: 1, B-1, B, B+1, 2B+3 bytes): for every member,
// readHeader's buffered head followed by the rest of the stream it returns is
// exactly that member's bytes - nothing of the neighbours, nothing missing.
func VerifC10ReadHeader() {
	c10install()
	defer func() { c10 = nil }()
	const b = 100
	verifHeadBuf = b
	defer func() { verifHeadBuf = objectwire.NonPayloadFieldsBufferLength }()
	t := New(WithPath("/root"), WithDepth(0))
	t.writer = &linuxWriter{
		root: "/root", perm: 0o600,
		flags: unix.O_WRONLY | unix.O_TMPFILE | unix.O_CLOEXEC | unix.O_DSYNC, bFlags: unix.O_WRONLY | unix.O_TMPFILE | unix.O_CLOEXEC,
		combinedCountLimit: 4, combinedSizeLimit: 4096, combinedSizeThreshold: 1024,
		combinedWriteInterval: time.Hour,
	}
	sizes := [...]int{1, b - 1, b, b + 1, 2*b + 3}
	n := 2 + vrt.Choice("objectsInFile", 2)
	var units []writeDataUnit
	var datas [][]byte
	for i := 0; i < n; i++ {
		d := vrt.Bytes("objectBytes", sizes[vrt.Choice("objectSize", len(sizes))])
		vrt.Assume(d[0] != combinedPrefix && d[0] != 0x28)
		a := c10addr(byte(i + 1))
		units = append(units, writeDataUnit{id: a.Object(), path: t.treePath(a), data: d})
		datas = append(datas, d)
	}
	vrt.Assert(t.writer.writeBatch(units) == nil, "batch write succeeds")
	for i := 0; i < n; i++ {
		f, err := verifOpen(units[i].path)
		vrt.Assert(err == nil, "every member has its path")
		if err != nil {
			continue
		}
		head, stream, err := t.readHeader(units[i].id, f, make([]byte, 2*b))
		vrt.Assert(err == nil, "the member is found in the combined file")
		if err != nil {
			continue
		}
		got := append([]byte{}, head...)
		buf := make([]byte, 16)
		// a head shorter than the buffer is the whole object: callers
		// (preprocessStreamHead) close and ignore the stream then
		for k := 0; k < 64 && len(head) >= b; k++ {
			m, rerr := stream.Read(buf)
			got = append(got, buf[:m]...)
			if rerr != nil {
				break
			}
		}
		vrt.Assert(slices.Equal(got, datas[i]), "head plus stream of a combined-file member is exactly that member's bytes")
	}
	vrt.Reach("end")
}

// VerifC10PrefixedReader: the payload stream handed to callers is a buffered
// prefix followed by the (limited) rest of the file: read in chunks of any
// size until EOF - as io.ReadAll does, stopping at the first error - it yields
// the whole prefix and exactly the permitted bytes of the rest, also when the
// rest is already exhausted (limit 0) or the file has nothing left.
func VerifC10PrefixedReader() {
	pl := vrt.Choice("prefixLength", 5)
	rl := vrt.Choice("restLength", 4)
	all := vrt.Bytes("bytes", pl+rl+2)
	limit := vrt.Choice("restLimit", rl+1)
	file := &c10file{n: &c10node{data: all[pl : pl+rl+2]}}
	r := newPrefixedReadSeekCloser(all[:pl], &limitedFileReader{ReadSeekCloser: file, limit: int64(limit)})
	buf := make([]byte, 1+vrt.Choice("readBufferSize", 3))
	var got []byte
	for k := 0; k < 16; k++ {
		n, err := r.Read(buf)
		got = append(got, buf[:n]...)
		if err != nil {
			break
		}
	}
	vrt.Assert(slices.Equal(got, all[:pl+limit]), "reading the stream to its end yields the prefix and exactly the permitted rest")
	vrt.Reach("end")
}
