//go:build verif

package putsvc

import (
	"errors"

	iec "github.com/nspcc-dev/neofs-node/internal/ec"
	"github.com/nspcc-dev/neofs-node/internal/vrt"
	neofscrypto "github.com/nspcc-dev/neofs-sdk-go/crypto"
	"github.com/nspcc-dev/neofs-sdk-go/netmap"
	"github.com/nspcc-dev/neofs-sdk-go/object"
	oid "github.com/nspcc-dev/neofs-sdk-go/object/id"
	"go.uber.org/zap"
)

// replaced collaborators (rename overlay): the distribution of the parts of one
// EC rule is a verdict - all parts stored on distinct nodes of the list, or an
// error (the part placement itself is decided by C23/C21 and the EC tests).
func (t *distributedTarget) applyECRule(_ neofscrypto.Signer, _ object.Object, ruleIdx int, _ [][]byte, _ iec.Rule, _ []netmap.NodeInfo) error {
	c25.ecTried[ruleIdx]++
	if c25.ecFail[ruleIdx] {
		return errors.New("not enough nodes took the parts")
	}
	c25.ecStored[ruleIdx] = true
	return nil
}
func (t *distributedTarget) replicateRemainingECRules(object.Object, []iec.Rule, [][]netmap.NodeInfo, []bool) {
}

type c25signer struct{ neofscrypto.Signer }

var c25ecPlacements = []struct {
	lists [][]int
	reps  []uint
	ec    []iec.Rule
}{
	{[][]int{{1, 2, 3}, {2, 3, 4, 5}}, nil, []iec.Rule{{DataPartNum: 2, ParityPartNum: 1}, {DataPartNum: 3, ParityPartNum: 1}}},
	{[][]int{{1, 2}, {3, 4, 5}}, []uint{2}, []iec.Rule{{DataPartNum: 2, ParityPartNum: 1}}},
}

// VerifC25PutEC: server-side EC encoding (a session signer is present): a
// container with EC rules (alone, or after a replication rule), every
// combination of failing rules and nodes, without and with an initial placement
// policy (per-rule limits, total limit, local preference). Success only if the
// policy in force is satisfied: without a total limit every enabled rule - EC
// rules included - was stored; with a total limit the stored rules and copies
// reach it.
func VerifC25PutEC() {
	pl := c25ecPlacements[vrt.Choice("placement", len(c25ecPlacements))]
	c25.lists = pl.lists
	for i := range c25.acked {
		c25.acked[i], c25.calls[i], c25.fail[i] = false, 0, false
	}
	for i := range c25.ecFail {
		c25.ecFail[i], c25.ecTried[i], c25.ecStored[i] = false, 0, false
	}
	for i := range pl.ec {
		c25.ecFail[i] = vrt.Bool("ecRuleFails")
	}
	if len(pl.reps) > 0 {
		for _, j := range pl.lists[0] {
			c25.fail[j] = vrt.Bool("nodeFails")
		}
	}
	obj := new(object.Object)
	var id oid.ID
	id[0] = 1
	obj.SetID(id)
	t := &distributedTarget{obj: obj, containerNodes: c25cnr{reps: pl.reps, ec: pl.ec}}
	t.placementIterator = placementIterator{log: zap.NewNop(), neoFSNet: c25net{}}
	t.ecPart.RuleIndex = -1
	t.sessionSigner = c25signer{}
	t.encodedECParts = make([][][]byte, len(pl.reps)+len(pl.ec))
	nRules := len(pl.reps) + len(pl.ec)
	initial := vrt.Bool("initialPolicy")
	var limits []uint32
	var maxReplicas uint32
	if initial {
		var ip netmap.InitialPlacementPolicy
		var sum uint32
		differs := false
		if vrt.Bool("withLimits") {
			limits = make([]uint32, nRules)
			for i := range limits {
				if i < len(pl.reps) {
					limits[i] = uint32(vrt.IntRange("limit", 0, int(pl.reps[i])))
					differs = differs || limits[i] < uint32(pl.reps[i])
				} else {
					limits[i] = uint32(vrt.IntRange("ecLimit", 0, 1))
					differs = differs || limits[i] == 0
				}
				sum += limits[i]
			}
			ip.SetReplicaLimits(limits)
		} else {
			for i := range pl.reps {
				sum += uint32(pl.reps[i])
			}
			sum += uint32(len(pl.ec))
		}
		maxReplicas = uint32(vrt.IntRange("maxReplicas", 0, 3))
		ip.SetMaxReplicas(maxReplicas)
		prefer := vrt.Bool("preferLocal")
		ip.SetPreferLocal(prefer)
		// validity of an initial policy as the SDK verifies it when a container is created
		vrt.Assume(sum > 0 && maxReplicas <= sum)
		vrt.Assume(maxReplicas > 0 || (limits != nil && differs && !prefer))
		t.initialPolicy = &ip
	}
	err := t.saveObject(*obj, encodedObject{})
	for i := range pl.ec {
		vrt.Assert(c25.ecTried[i] <= 1, "no EC rule is applied twice")
	}
	if err == nil {
		var total uint
		for i := 0; i < nRules; i++ {
			enabled := limits == nil || limits[i] > 0
			if i < len(pl.reps) {
				need := pl.reps[i]
				if limits != nil {
					need = uint(limits[i])
				}
				got := c25acks(pl.lists[i])
				if maxReplicas == 0 {
					vrt.Assert(got >= need, "success: every rule has its required number of distinct acknowledging nodes")
				}
				total += min(got, need)
				continue
			}
			e := i - len(pl.reps)
			if maxReplicas == 0 && enabled {
				vrt.Assert(c25.ecStored[e], "success without a total limit: every enabled EC rule has all its parts stored")
			}
			if c25.ecStored[e] {
				vrt.Assert(enabled, "an EC rule disabled by the initial policy is not applied at PUT time")
				total++
			}
		}
		if maxReplicas > 0 {
			vrt.Assert(total >= uint(maxReplicas), "success under a total limit: the stored rules and copies reach MaxReplicas")
		}
		vrt.Reach("ec-success")
	} else {
		vrt.Reach("ec-error")
	}
}
