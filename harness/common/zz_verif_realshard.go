//go:build verif

package shard

import (
	"github.com/nspcc-dev/neofs-node/pkg/local_object_storage/blobstor/common"
	meta "github.com/nspcc-dev/neofs-node/pkg/local_object_storage/metabase"
	"github.com/nspcc-dev/neofs-node/pkg/local_object_storage/shard/mode"
	"go.uber.org/zap"
)

// VerifNewShard returns a Shard made of a real metabase (on the bbolt model)
// and the given blob storage model, without write-cache and without the GC
// workers; identified by id.
func VerifNewShard(id byte, db *meta.DB, blob common.Storage, m mode.Mode) *Shard {
	s := &Shard{cfg: &cfg{log: zap.NewNop(), rmBatchSize: 10}, gc: &gc{}, metaBase: db, metaBaseIface: db}
	s.blobStor = blob
	raw := make([]byte, common.IDSize)
	raw[0] = id
	s.info.ID, _ = common.NewIDFromBytes(raw)
	s.info.Mode = m
	return s
}

// VerifSetModeRaw sets the shard's mode flag without reopening components.
func (s *Shard) VerifSetModeRaw(m mode.Mode) { s.info.Mode = m }

// VerifIndex returns the id byte given to VerifNewShard.
func (s *Shard) VerifIndex() int { return int(s.info.ID.Bytes()[0]) }

// VerifMeta returns the shard's metabase.
func (s *Shard) VerifMeta() *meta.DB { return s.metaBase }

// VerifSetExpiredCallback wires the engine's handler of expired objects.
func (s *Shard) VerifSetExpiredCallback(cb ExpiredObjectsCallback) { s.expiredObjectsCallback = cb }

// VerifGC runs one garbage collection pass (expired objects, then garbage) as
// the GC worker would at the given epoch.
func (s *Shard) VerifGC(epoch uint64) {
	s.gc.currentEpoch.Store(epoch)
	s.removeGarbage()
}
