#!/bin/bash
# usage: tools_seed_confirm.sh <ID> <variant> [stored-variant] [source-dir-name] : confirms a seeded change produced by a sub-agent in /tmp/seed/<ID>/seed_out/<variant>
# (patch applies to /repo HEAD, builds, touched packages' tests pass, demo fails with patch and passes without), then stores it in /verif/seeded/<ID>-<variant>/
set -u
ID=$1; V=$2; OUTV=${3:-$2}; SRCDIR=${4:-$1}
SRC=/tmp/seed/$SRCDIR/seed_out/$V
WT=/tmp/confirm-$ID-$OUTV
export GOFLAGS=-mod=mod GOPROXY=off
git -C /repo worktree remove --force $WT 2>/dev/null
git -C /repo worktree add -q --detach $WT HEAD || exit 2
cd $WT
cleanup() { cd /; git -C /repo worktree remove --force $WT 2>/dev/null; }
trap cleanup EXIT
git apply --check $SRC/patch.diff || { echo "RESULT $ID-$OUTV: patch does not apply"; exit 1; }
PKGDIR=$(python3 -c "import json;print(json.load(open('$SRC/meta.json'))['demo_pkg_dir'])")
DEMO=$(ls $SRC/demo_*_test.go 2>/dev/null | head -1)
[ -z "$DEMO" ] && { echo "RESULT $ID-$OUTV: no demo test"; exit 1; }
cp $DEMO $PKGDIR/
DEMON=$(basename $DEMO)
TESTRE=$(grep -o '^func Test[A-Za-z0-9_]*' $DEMO | sed 's/func //' | paste -sd'|')
echo "== demo without patch"
go test -vet=off -count=1 -run "^($TESTRE)\$" ./$PKGDIR/ > /tmp/confirm-$ID-$V.nopatch.log 2>&1; R0=$?
git apply $SRC/patch.diff
echo "== build with patch"
go build ./... > /tmp/confirm-$ID-$V.build.log 2>&1; RB=$?
echo "== demo with patch"
go test -vet=off -count=1 -run "^($TESTRE)\$" ./$PKGDIR/ > /tmp/confirm-$ID-$V.patch.log 2>&1; R1=$?
rm -f $PKGDIR/$DEMON
echo "== existing tests of touched packages with patch"
PKGS=$(git diff --name-only | xargs -n1 dirname | sort -u | sed 's|^|./|')
capsh --drop=cap_dac_override,cap_dac_read_search -- -c "go test -vet=off -count=1 $PKGS" > /tmp/confirm-$ID-$V.tests.log 2>&1; RT=$?
# compare failing set with unpatched tree (sandbox runs as root: some chmod-based tests fail on the clean tree as well)
FAILP=$(grep -E '^--- FAIL|^FAIL' /tmp/confirm-$ID-$V.tests.log | sort -u)
git checkout -q -- .
capsh --drop=cap_dac_override,cap_dac_read_search -- -c "go test -vet=off -count=1 $PKGS" > /tmp/confirm-$ID-$V.tests0.log 2>&1
FAIL0=$(grep -E '^--- FAIL|^FAIL' /tmp/confirm-$ID-$V.tests0.log | sort -u)
SAME=no; [ "$FAILP" = "$FAIL0" ] && SAME=yes
echo "RESULT $ID-$OUTV: demo_without_patch_exit=$R0 build_exit=$RB demo_with_patch_exit=$R1 tests_exit=$RT same_failing_set_as_clean=$SAME pkgs=[$PKGS]"
if [ $R0 -eq 0 ] && [ $RB -eq 0 ] && [ $R1 -ne 0 ] && [ $SAME = yes ]; then
  D=/verif/seeded/$ID-$OUTV; mkdir -p $D
  cp $SRC/patch.diff $D/patch.diff; cp $DEMO $D/; 
  python3 - <<PY
import json
m=json.load(open('$SRC/meta.json'))
out={"property":"$ID","variant":"$OUTV","breaks":m.get("summary"),"needs_to_manifest":m.get("needs_to_manifest"),"files_changed":m.get("files_changed"),"demo_pkg_dir":m.get("demo_pkg_dir"),
 "confirmed":{"against_repo_head":"$(git -C /repo rev-parse --short HEAD)","demo_passes_without_patch":True,"builds_with_patch":True,"demo_fails_with_patch":True,"existing_tests_of_touched_packages":"same pass/fail set as the clean tree (exit $RT)","ran":"tools_seed_confirm.sh $ID $V in scratch worktree $WT"},
 "detected_by":None}
json.dump(out,open('$D/meta.json','w'),indent=1)
PY
  echo "STORED $D"
else
  echo "NOT CONFIRMED $ID-$V"
fi
