//go:build verif

package meta

import (
	"encoding/base64"
	"strconv"

	"github.com/nspcc-dev/neofs-node/internal/vrt"
	objectcore "github.com/nspcc-dev/neofs-node/pkg/core/object"
	"github.com/nspcc-dev/neofs-sdk-go/object"
	oid "github.com/nspcc-dev/neofs-sdk-go/object/id"
)

// stored objects of the search harness: id -> value of user attribute "N"
// ("" = attribute absent). Values are fixed, the query and paging are symbolic.
var c03vals = [...]string{1: "1", 2: "7", 3: "12", 4: "x7", 5: "", 6: "-3", 7: "7"}

const c03max = "115792089237316195423570985008687907853269984665640564039457584007913129639935"

// a second user attribute "M" of the same objects, and a third one, "K", that
// every object carries with the same value (a primary filter that keeps all)
var c03mvals = [...]string{1: "3", 2: "x", 3: "", 4: "8", 5: "1", 6: "y", 7: "20"}

type c03flt struct {
	op   object.SearchMatchType
	val  string
	attr string // "" = N
}

func (f c03flt) of(id int) string {
	switch f.attr {
	case "M":
		return c03mvals[id]
	case "K":
		return "k"
	case object.FilterCreationEpoch:
		return "1"
	}
	return c03vals[id]
}

func c03matches(v string, f c03flt) bool {
	if f.op == object.MatchNotPresent {
		return v == ""
	}
	if v == "" {
		return false
	}
	switch f.op {
	case object.MatchStringEqual:
		return v == f.val
	case object.MatchStringNotEqual:
		return v != f.val
	case object.MatchCommonPrefix:
		return len(v) >= len(f.val) && v[:len(f.val)] == f.val
	}
	n, err := strconv.Atoi(v)
	if err != nil {
		return false // a value counts as an integer only if it is an optionally signed decimal number
	}
	if f.val == c03max {
		return f.op == object.MatchNumLE || f.op == object.MatchNumLT
	}
	if f.val == "-"+c03max {
		return f.op == object.MatchNumGE || f.op == object.MatchNumGT
	}
	m, _ := strconv.Atoi(f.val)
	switch f.op {
	case object.MatchNumGT:
		return n > m
	case object.MatchNumGE:
		return n >= m
	case object.MatchNumLT:
		return n < m
	case object.MatchNumLE:
		return n <= m
	}
	return false
}

// VerifC03Search: the real search (PreprocessSearchQuery + DB.Search on the
// bbolt model) over a fixed set of objects, for a forked set of queries mixing
// numeric, equality, inequality, prefix and absence filters on one attribute,
// with and without the attribute requested, paged with a symbolic page size
// through the returned cursors: exactly the matching objects, each once, in
// index order, then the end.
func VerifC03Search() {
	db := vmNewDB(&vmEpoch{e: 3})
	for id := 1; id < len(c03vals); id++ {
		o := vmObj(0, byte(id), object.TypeRegular, -1, 4)
		attrs := []object.Attribute{object.NewAttribute("K", "k")}
		if c03vals[id] != "" {
			attrs = append(attrs, object.NewAttribute("N", c03vals[id]))
		}
		if c03mvals[id] != "" {
			attrs = append(attrs, object.NewAttribute("M", c03mvals[id]))
		}
		o.SetAttributes(attrs...)
		vrt.Assert(db.Put(o) == nil, "put")
	}
	// one object may have been physically removed before the search
	removed := 0
	if vrt.Bool("oneObjectPhysicallyRemoved") {
		removed = 1 + vrt.Choice("removedObject", len(c03vals)-1)
		_, _, err := db.Delete(vmCID(0), []oid.ID{vmOID(byte(removed))})
		vrt.Assert(err == nil, "physical removal")
	}
	queries := [][]c03flt{
		{{object.MatchNumGE, "5", ""}},
		{{object.MatchNumLT, "10", ""}, {object.MatchNumGT, "5", ""}},
		{{object.MatchNumGT, "5", ""}, {object.MatchNumLT, "10", ""}},
		{{object.MatchNumLE, "7", ""}},
		{{object.MatchStringEqual, "7", ""}},
		{{object.MatchStringNotEqual, "7", ""}},
		{{object.MatchCommonPrefix, "1", ""}},
		{{object.MatchNotPresent, "", ""}},
		{{object.MatchStringEqual, "7", ""}, {object.MatchNumGT, "10", ""}},
		{{object.MatchNumGE, "-3", ""}, {object.MatchStringNotEqual, "12", ""}},
		{{object.MatchNumLE, c03max, ""}},
		{{object.MatchNumGE, "-" + c03max, ""}},
		// filters over different attributes: a primary one that keeps everything,
		// then numeric ones on N and on M
		{{object.MatchStringEqual, "k", "K"}, {object.MatchNumGE, "5", ""}, {object.MatchNumLT, "10", "M"}},
		{{object.MatchStringEqual, "k", "K"}, {object.MatchNumLT, "10", "M"}, {object.MatchNumGE, "5", ""}},
		{{object.MatchNumGE, "0", "M"}, {object.MatchNumGE, "5", ""}},
		// a system attribute every object has (its integer index entry must go with the object)
		{{object.MatchNumGE, "0", object.FilterCreationEpoch}},
	}
	qnames := [...]string{"N>=5", "N<10 && N>5", "N>5 && N<10", "N<=7", "N==7", "N!=7", "N prefix 1", "N absent", "N==7 && N>10", "N>=-3 && N!=12", "N<=2^256-1", "N>=-(2^256-1)", "K==k && N>=5 && M<10", "K==k && M<10 && N>=5", "M>=0 && N>=5", "creationEpoch>=0"}
	qi := vrt.Choice("query", len(queries))
	q := queries[qi]
	withAttr := vrt.Bool("attributeRequested")
	qname := ", query " + qnames[qi]
	if withAttr {
		qname += " (attribute requested)"
	}
	var fs object.SearchFilters
	for _, f := range q {
		a := f.attr
		if a == "" {
			a = "N"
		}
		fs.AddFilter(a, f.val, f.op)
	}
	primary := q[0].attr
	if primary == "" {
		primary = "N"
	}
	var attrs []string
	if withAttr && q[0].op != object.MatchNotPresent {
		attrs = []string{primary}
	}
	// reference result set
	var want [8]bool
	nwant := 0
	for id := 1; id < len(c03vals); id++ {
		ok := true
		for _, f := range q {
			ok = ok && c03matches(f.of(id), f)
		}
		if id == removed {
			ok = false
		}
		want[id] = ok
		if ok {
			nwant++
		}
	}
	count := uint16(vrt.IntRange("pageSize", 1, 3))
	var seen [8]int
	cursor := ""
	ended := false
	total := 0
	for page := 0; page < 9; page++ {
		ofs, cur, err := objectcore.PreprocessSearchQuery(fs, attrs, cursor)
		if err != nil {
			vrt.Assert(err == objectcore.ErrUnreachableQuery && nwant == 0, "a cursor returned by the node is accepted by the next request")
			ended = true
			break
		}
		res, next, serr := db.Search(vmCID(0), ofs, attrs, cur, count)
		vrt.Assert(serr == nil && len(res) <= int(count), "a page holds at most pageSize items")
		if serr != nil {
			return
		}
		for _, it := range res {
			id := int(it.ID[0])
			vrt.Assert(id >= 1 && id < len(c03vals), "a returned ID is a stored one")
			if id < 1 || id >= len(c03vals) {
				return
			}
			seen[id]++
			total++
			if len(attrs) > 0 {
				vrt.Assert(len(it.Attributes) == 1 && it.Attributes[0] == q[0].of(id), "the requested attribute value is returned")
			}
		}
		if next == nil {
			ended = true
			break
		}
		cursor = base64.StdEncoding.EncodeToString(next)
	}
	vrt.Assert(ended, "paging stops")
	for id := 1; id < len(c03vals); id++ {
		if want[id] {
			vrt.Assert(seen[id] == 1, "every matching object is returned exactly once across the pages"+qname)
		} else {
			if id == removed {
				vrt.Assert(seen[id] == 0, "a physically removed object is never returned"+qname)
			} else {
				vrt.Assert(seen[id] == 0, "objects that do not satisfy every filter are never returned"+qname)
			}
		}
	}
	vrt.Reach("end")
}
