//go:build verif

package neofs

import (
	"sync"

	lru "github.com/hashicorp/golang-lru/v2"
	"github.com/nspcc-dev/neo-go/pkg/util"
	"github.com/nspcc-dev/neofs-node/internal/vrt"
	"github.com/nspcc-dev/neofs-node/pkg/morph/client"
	"github.com/nspcc-dev/neofs-node/pkg/morph/client/balance"
	nmClient "github.com/nspcc-dev/neofs-node/pkg/morph/client/netmap"
	neofsEvent "github.com/nspcc-dev/neofs-node/pkg/morph/event/neofs"
	"github.com/nspcc-dev/neofs-node/pkg/util/precision"
	"go.uber.org/zap"
)

type c35alpha struct{ is bool }

func (a c35alpha) IsAlphabet() bool { return a.is }

type c35epoch struct{}

func (c35epoch) EpochCounter() uint64 { return 7 }

// VerifC35MainnetEvents: deposit (mint + GAS emission), withdraw (lock), cheque
// (burn) and config relays are sent only in alphabet state.
func VerifC35MainnetEvents() {
	alpha := vrt.Bool("isAlphabet")
	var calls []client.VerifCall
	client.VerifHookSend = func(c client.VerifCall) error {
		calls = append(calls, c)
		return nil
	}
	client.VerifHookNonceVUB = func() (uint32, uint32, error) { return 1, 100, nil }
	client.VerifHookGasBalance = func() (int64, error) { return 1 << 40, nil }
	bc, err := balance.NewFromMorph(&client.Client{}, util.Uint160{0xb0}, balance.AsAlphabet())
	if err != nil {
		panic(err)
	}
	nmc, err := nmClient.NewFromMorph(&client.Client{}, util.Uint160{0x4e}, nmClient.AsAlphabet())
	if err != nil {
		panic(err)
	}
	cache, _ := lru.New[util.Uint160, uint64](4)
	np := &Processor{
		log: zap.NewNop(), balanceClient: bc, netmapClient: nmc, fsChain: &client.Client{},
		epochState: c35epoch{}, alphabetState: c35alpha{alpha}, converter: precision.NewConverter(12),
		mintEmitLock: new(sync.Mutex), mintEmitCache: cache, mintEmitThreshold: 1, mintEmitValue: 100, gasBalanceThreshold: 1,
	}
	ev := vrt.Choice("event", 4)
	switch ev {
	case 0:
		np.processDeposit(new(neofsEvent.Deposit))
	case 1:
		np.processWithdraw(neofsEvent.VerifNewWithdraw(make([]byte, 32)))
	case 2:
		np.processCheque(new(neofsEvent.Cheque))
	case 3:
		np.processConfig(new(neofsEvent.Config))
	}
	if len(calls) > 0 {
		vrt.Assert(alpha, "a non-alphabet node never mints, locks, burns, emits or relays configuration")
		if ev == 0 {
			vrt.Assert(len(calls) == 2 && calls[1].Kind == "transfer-gas", "a deposit is followed by one GAS emission")
		}
		vrt.Reach("acted")
	} else {
		vrt.Assert(!alpha, "an alphabet node acts on the main chain event")
		vrt.Reach("silent")
	}
}
