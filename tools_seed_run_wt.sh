#!/bin/bash
# usage: tools_seed_run_wt.sh <seed-name e.g. C05-a> [check-id] [tier]
# Same as tools_seed_run.sh but in a scratch worktree of /repo HEAD (so that other
# checks can keep reading /repo meanwhile): applies the seeded patch there, runs the
# property's check against it (VERIF_REPO), removes the worktree.
S=$1; ID=${2:-${S%%-*}}; TIER=${3:-quick}
WT=/var/tmp/seedrepo-$S
cd /verif
git -C /repo worktree remove --force $WT 2>/dev/null
git -C /repo worktree add -q --detach $WT HEAD || exit 3
trap 'git -C /repo worktree remove --force '$WT' 2>/dev/null' EXIT
git -C $WT apply /verif/seeded/$S/patch.diff || { echo "SEEDRUN $S check=$ID apply failed"; exit 3; }
VERIF_REPO=$WT timeout 3000 ./check $ID --tier $TIER --out /var/tmp/seedrun-$S-$ID.json > /var/tmp/seedrun-$S-$ID.log 2>&1
RC=$?
grep -E "^VIOLATION|^INCONCLUSIVE|^PASS" /var/tmp/seedrun-$S-$ID.log | head -3 | cut -c1-220
grep -E "label=" /var/tmp/seedrun-$S-$ID.log | head -2 | cut -c1-260
echo "SEEDRUN $S check=$ID exit=$RC"
