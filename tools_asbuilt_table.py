#!/usr/bin/env python3
"""Regenerate the table of DESIGN.md §13.5 (entries per property) from harness/<ID>/harness.json."""
import json, os, re
root = os.path.dirname(os.path.abspath(__file__))
claims = json.load(open(os.path.join(root, 'claims.json')))
ids = sorted(claims.keys()) if isinstance(claims, dict) else sorted(c['id'] for c in claims)
rows = []
for i in ids:
    hp = os.path.join(root, 'harness', i, 'harness.json')
    if not os.path.exists(hp):
        continue
    h = json.load(open(hp))
    units = []
    for u in h['units']:
        names = [e['name'].replace('Verif' + i, '') for e in u['entries']]
        seen = []
        for n in names:
            if n not in seen:
                seen.append(n)
        units.append('`%s`: %s' % (u['package'].lstrip('./'), ', '.join(seen)))
    stubs = '; '.join(h.get('stubs_described', [])).replace('|', '/')
    rows.append('| %s | %s | %s |' % (i, '<br>'.join(units), stubs))
p = os.path.join(root, 'DESIGN.md')
txt = open(p).read()
hdr = '| property | package: entries | modelled collaborators |\n|---|---|---|\n'
a = txt.index(hdr) + len(hdr)
b = txt.find('\n\n', a)
if b < 0:
    b = len(txt.rstrip('\n'))
txt = txt[:a] + '\n'.join(rows) + txt[b:]
open(p, 'w').write(txt)
print('rows', len(rows))
