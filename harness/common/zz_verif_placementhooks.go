//go:build verif

package placement

import (
	containercore "github.com/nspcc-dev/neofs-node/pkg/core/container"
	netmapcore "github.com/nspcc-dev/neofs-node/pkg/core/netmap"
	cid "github.com/nspcc-dev/neofs-sdk-go/container/id"
	"github.com/nspcc-dev/neofs-sdk-go/netmap"
)

// VerifNewService builds the real placement service whose policy application
// (HRW selection over a network map: hashing, outside the encoder) is the given
// function - the service's own test seam.
func VerifNewService(containers containercore.Source, network netmapcore.Source, get func(netmap.NetMap, netmap.PlacementPolicy, cid.ID) ([][]netmap.NodeInfo, error)) *Service {
	s, err := New(containers, network)
	if err != nil {
		panic(err)
	}
	s.getContainerNodesFunc = get
	return s
}
