//go:build verif

package meta

import (
	"errors"

	"github.com/nspcc-dev/neofs-node/internal/vrt"
	apistatus "github.com/nspcc-dev/neofs-sdk-go/client/status"
	"github.com/nspcc-dev/neofs-sdk-go/object"
	oid "github.com/nspcc-dev/neofs-sdk-go/object/id"
)

// abstract facts about the target object T (id 1) of container 0
type c01facts struct {
	stored    bool
	exp       int64 // -1: never expires
	tomb      bool  // a tombstone aimed at T was accepted
	lock      bool  // a lock aimed at T was accepted
	lockExp   int64
	lockGone  bool // the lock object itself was marked as garbage
	garbage   bool // T marked as garbage
	cnrGone   bool
}

const (
	c01T    = 1
	c01TS   = 2
	c01L    = 3
	c01Else = 9
)

func (f *c01facts) lockedLive(epoch uint64) bool {
	return f.lock && !f.lockGone && !(f.lockExp >= 0 && epoch > uint64(f.lockExp))
}

// status classes
const (
	c01Available = iota
	c01NotFound
	c01Removed
	c01Expired
	c01Absent
)

func c01class(ok bool, err error) int {
	switch {
	case err == nil && ok:
		return c01Available
	case err == nil:
		return c01Absent
	case errors.Is(err, ErrObjectIsExpired):
		return c01Expired
	case errors.As(err, new(apistatus.ObjectAlreadyRemoved)):
		return c01Removed
	case errors.As(err, new(apistatus.ObjectNotFound)):
		return c01NotFound
	}
	return -1
}

// VerifC01History: histories of K operations on one object (put, tombstone,
// lock, garbage mark of the object or of its lock, container removal) through
// the real metabase mutators on the bbolt model, with the current epoch a
// symbolic 64-bit value; afterwards existence check, lock check, listing and
// expired-object iteration must report the status the reference rules define.
func VerifC01History() {
	ep := &vmEpoch{e: vrt.U64("epoch")}
	db := vmNewDB(ep)
	var f c01facts
	f.exp, f.lockExp = -1, -1
	exps := [...]int64{-1, 5, 10}
	expT := exps[vrt.Choice("expiration", len(exps))] // the object's header (and so its expiration) is fixed by its ID
	// another object of the same container keeps the container bucket alive
	vrt.Assert(db.Put(vmObj(0, c01Else, object.TypeRegular, -1, 3)) == nil, "setup put")
	k := vrt.Param("K")
	for step := 0; step < k; step++ {
		switch vrt.Choice("op", 7) {
		case 0: // put T
			e := expT
			err := db.Put(vmObj(0, c01T, object.TypeRegular, e, 7))
			if err == nil && !f.stored && !f.cnrGone {
				f.stored, f.exp = true, e
			}
		case 1: // tombstone for T
			ts := vmObj(0, c01TS, object.TypeTombstone, 20, 0)
			ts.AssociateDeleted(vmOID(c01T))
			err := db.Put(ts)
			if f.lockedLive(ep.e) && !f.cnrGone {
				vrt.Assert(errors.Is(err, apistatus.ErrObjectLocked), "a tombstone for an object with a live lock is rejected")
			}
			if err == nil && !f.cnrGone {
				f.tomb = true
			}
		case 2: // lock for T
			e := exps[1+vrt.Choice("lockExpiration", 2)]
			l := vmObj(0, c01L, object.TypeLock, e, 0)
			l.AssociateLocked(vmOID(c01T))
			err := db.Put(l)
			if f.tomb && !f.cnrGone {
				vrt.Assert(err != nil, "a lock for an already tombstoned object is rejected")
			}
			if err == nil && !f.lock && !f.cnrGone {
				f.lock, f.lockExp = true, e
			}
		case 3: // garbage mark on T
			_, err := db.MarkGarbage(vmCID(0), []oid.ID{vmOID(c01T)}, GarbageMarkDefault)
			if err == nil && !f.cnrGone {
				f.garbage = true // the mark is kept even if the object arrives later
			}
		case 4: // garbage mark on the lock object
			_, err := db.MarkGarbage(vmCID(0), []oid.ID{vmOID(c01L)}, GarbageMarkDefault)
			if err == nil && !f.cnrGone {
				f.lockGone = true
			}
		case 5: // container removal
			_, err := db.InhumeContainer(vmCID(0))
			if err == nil {
				f.cnrGone = true
			}
		case 6: // "redundant copy" mark on T: the object stays available, an earlier removal mark stays in force
			_, _ = db.MarkGarbage(vmCID(0), []oid.ID{vmOID(c01T)}, GarbageMarkRedundant)
		}
	}
	epoch := ep.e
	ok, err := db.Exists(vmAddr(0, c01T), false)
	got := c01class(ok, err)
	vrt.Assert(got >= 0, "existence check reports a documented status")
	live := f.lockedLive(epoch)
	expired := f.stored && f.exp >= 0 && epoch > uint64(f.exp)
	switch {
	case f.cnrGone:
		vrt.Assert(got == c01NotFound || got == c01Absent, "objects of a removed container are not found")
	case !f.stored:
		vrt.Assert(got != c01Available, "an object that was never stored is not available")
	case f.tomb && expired:
		vrt.Assert(got == c01Removed || got == c01Expired, "a tombstoned and expired object is removed or expired, never available")
	case f.tomb:
		vrt.Assert(got == c01Removed, "a tombstoned object is reported as removed")
	case live:
		vrt.Assert(got == c01Available, "a live lock overrides expiry and garbage marks")
	case expired:
		vrt.Assert(got == c01Expired, "an object is expired after its expiration epoch")
	case f.garbage:
		vrt.Assert(got == c01NotFound, "a garbage-marked object is not found")
	default:
		vrt.Assert(got == c01Available, "otherwise the object is available")
	}
	locked, lerr := db.IsLocked(vmAddr(0, c01T))
	vrt.Assert(lerr == nil && locked == (live && !f.cnrGone), "lock check reports exactly the live locks")
	vrt.Reach("end")
}
