//go:build verif

package main

import (
	"sync/atomic"

	"github.com/nspcc-dev/neofs-node/internal/vrt"
	"github.com/nspcc-dev/neofs-node/pkg/services/object/placement"
	"github.com/nspcc-dev/neofs-sdk-go/container"
	cid "github.com/nspcc-dev/neofs-sdk-go/container/id"
	"github.com/nspcc-dev/neofs-sdk-go/netmap"
)

type c31cnrs struct{ cnr container.Container }

func (c c31cnrs) Get(cid.ID) (container.Container, error) { return c.cnr, nil }

type c31net struct{ epoch uint64 }

func (n c31net) GetNetMapByDiff(d uint64) (*netmap.NetMap, error) {
	return n.GetNetMapByEpoch(n.epoch - d)
}
func (n c31net) GetNetMapByEpoch(e uint64) (*netmap.NetMap, error) {
	var nm netmap.NetMap
	nm.SetEpoch(e)
	return &nm, nil
}
func (n c31net) Epoch() (uint64, error)        { return n.epoch, nil }
func (n c31net) NetMap() (*netmap.NetMap, error) { return n.GetNetMapByEpoch(n.epoch) }

func c31node(k byte) netmap.NodeInfo {
	var n netmap.NodeInfo
	n.SetPublicKey([]byte{k})
	return n
}

// VerifC31Wiring: the node's FS chain adapter for the object service
// (cmd/neofs-node) over the real placement service: the container's nodes are
// {A, B} in the current epoch and {B, C} in the previous one, the local node is
// one of A, B, C or an outsider D. "Is the local node in the container" (the
// receiving side of a replication request) is answered from the current epoch
// only; "is the sender in the container" from the current and the previous one.
func VerifC31Wiring() {
	const A, B, C, D = 0xA0, 0xB0, 0xC0, 0xD0
	var pp netmap.PlacementPolicy
	var rd netmap.ReplicaDescriptor
	rd.SetNumberOfObjects(2)
	pp.SetReplicas([]netmap.ReplicaDescriptor{rd})
	var cnr container.Container
	cnr.SetPlacementPolicy(pp)
	net := c31net{epoch: 10}
	svc := placement.VerifNewService(c31cnrs{cnr}, net, func(nm netmap.NetMap, _ netmap.PlacementPolicy, _ cid.ID) ([][]netmap.NodeInfo, error) {
		if nm.Epoch() == 10 {
			return [][]netmap.NodeInfo{{c31node(A), c31node(B)}}, nil
		}
		return [][]netmap.NodeInfo{{c31node(B), c31node(C)}}, nil
	})
	local := [...]byte{A, B, C, D}[vrt.Choice("localNode", 4)]
	var maintenance atomic.Bool
	x := newFSChainForObjects(svc, func(k []byte) bool { return len(k) == 1 && k[0] == local }, nil, c31cnrs{cnr}, &maintenance, nil)

	// the server-in-container question as Server.Replicate asks it
	localIn := false
	err := x.ForEachContainerNodePublicKey(cid.ID{}, func(k []byte) bool {
		if x.IsOwnPublicKey(k) {
			localIn = true
			return false
		}
		return true
	})
	vrt.Assert(err == nil, "placement works")
	vrt.Assert(localIn == (local == A || local == B), "the receiving node counts as a container node only if it belongs to the container in the current epoch")

	// the sender-in-container question
	for _, k := range []byte{A, B, C, D} {
		in, err := x.InContainerInLastTwoEpochs(cid.ID{}, []byte{k})
		vrt.Assert(err == nil, "placement works")
		vrt.Assert(in == (k != D), "a sender counts as a container node if it belongs to the container in the current or the previous epoch")
	}
	seen := map[byte]int{}
	_ = x.ForEachContainerNodePublicKeyInLastTwoEpochs(cid.ID{}, func(k []byte) bool { seen[k[0]]++; return true })
	vrt.Assert(seen[A] > 0 && seen[B] > 0 && seen[C] > 0 && seen[D] == 0, "the two-epoch listing yields the nodes of both epochs")
	vrt.Reach("end")
}
