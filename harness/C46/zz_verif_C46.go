//go:build verif

package shard

import (
	"encoding/binary"
	"io"

	"github.com/nspcc-dev/neofs-node/internal/vrt"
	"github.com/nspcc-dev/neofs-node/pkg/local_object_storage/shard/mode"
	"github.com/nspcc-dev/neofs-sdk-go/object"
	"go.uber.org/zap"
)

// c46Reader delivers a byte stream in chunks of arbitrary (symbolic) size >= 1,
// as the io.Reader contract allows.
type c46Reader struct {
	data []byte
	pos  int
}

func (r *c46Reader) Read(p []byte) (int, error) {
	rem := len(r.data) - r.pos
	if rem == 0 {
		return 0, io.EOF
	}
	if len(p) == 0 {
		return 0, nil
	}
	max := len(p)
	if rem < max {
		max = rem
	}
	n := vrt.IntRange("chunk", 1, max)
	copy(p, r.data[r.pos:r.pos+n])
	r.pos += n
	return n, nil
}

var c46stored [][]byte
var c46puts, c46failAt int

// replaced collaborator: Shard.Put records the payload of the stored object
func (s *Shard) Put(obj *object.Object, objBin []byte) error {
	c46puts++
	if c46puts == c46failAt {
		return io.ErrClosedPipe // storage refuses this object
	}
	c46stored = append(c46stored, append([]byte(nil), obj.Payload()...))
	return nil
}

// model object codec (protobuf decoding is reflection based and replaced): an
// encoded object is its payload; a first byte 0xEE does not decode.
func c46unmarshal(o *object.Object, data []byte) error {
	if len(data) > 0 && data[0] == 0xEE {
		return io.ErrUnexpectedEOF
	}
	o.SetPayload(append([]byte(nil), data...))
	return nil
}

func c46record(payload []byte) []byte {
	b := payload
	rec := make([]byte, 4, 4+len(b))
	binary.LittleEndian.PutUint32(rec, uint32(len(b)))
	return append(rec, b...)
}

// VerifC46Restore: restoring a dump of R records through a reader that splits
// the stream into arbitrary chunks stores exactly the dumped objects, in order.
func VerifC46Restore() {
	nrec := vrt.Param("R")
	dump := append([]byte(nil), dumpMagic...)
	var want [][]byte
	for i := 0; i < nrec; i++ {
		pl := []byte{byte(0xA0 + i), byte(i), 0x55}
		want = append(want, pl)
		dump = append(dump, c46record(pl)...)
	}
	c46stored, c46puts, c46failAt = nil, 0, 0
	object.VerifHookUnmarshal = c46unmarshal
	s := &Shard{cfg: &cfg{log: zap.NewNop()}, gc: &gc{}}
	s.info.Mode = mode.ReadWrite
	count, failed, err := s.Restore(&c46Reader{data: dump}, vrt.Bool("ignoreErrors"))
	vrt.Assert(err == nil, "restoring an intact dump succeeds for every chunking")
	vrt.Assert(count == nrec && failed == 0, "every dumped object is counted as restored")
	vrt.Assert(len(c46stored) == nrec, "exactly the dumped objects are stored")
	if len(c46stored) == nrec {
		for i := range want {
			vrt.Assert(string(c46stored[i]) == string(want[i]), "stored bytes are identical to the dumped ones")
		}
	}
	vrt.Reach("end")
}

// VerifC46Corrupted: a record that does not decode is skipped iff requested.
func VerifC46Corrupted() {
	dump := append([]byte(nil), dumpMagic...)
	good := []byte{1, 2, 3}
	dump = append(dump, c46record(good)...)
	// a record of 3 bytes that does not decode
	dump = append(dump, 3, 0, 0, 0, 0xEE, 0x7f, 0x00)
	dump = append(dump, c46record(good)...)
	c46stored, c46puts, c46failAt = nil, 0, 0
	object.VerifHookUnmarshal = c46unmarshal
	s := &Shard{cfg: &cfg{log: zap.NewNop()}, gc: &gc{}}
	s.info.Mode = mode.ReadWrite
	ignore := vrt.Bool("ignoreErrors")
	rd := &c46wholeReader{data: dump}
	count, failed, err := s.Restore(rd, ignore)
	if ignore {
		vrt.Assert(err == nil && count == 2 && failed == 1 && len(c46stored) == 2, "corrupted record is skipped and counted when errors are ignored")
	} else {
		vrt.Assert(err != nil && count == 1 && len(c46stored) == 1, "corrupted record is reported when errors are not ignored")
	}
	vrt.Reach("end")
}

type c46wholeReader struct {
	data []byte
	pos  int
}

func (r *c46wholeReader) Read(p []byte) (int, error) {
	if r.pos == len(r.data) {
		return 0, io.EOF
	}
	n := copy(p, r.data[r.pos:])
	r.pos += n
	return n, nil
}

// VerifC46PutFails: when the storage refuses one of the dumped objects the
// restore never counts it as restored, whatever ignoreErrors says.
func VerifC46PutFails() {
	dump := append([]byte(nil), dumpMagic...)
	for i := 0; i < 2; i++ {
		dump = append(dump, c46record([]byte{byte(i + 1), 7})...)
	}
	c46stored, c46puts = nil, 0
	c46failAt = 1 + vrt.Choice("failingPut", 2)
	object.VerifHookUnmarshal = c46unmarshal
	s := &Shard{cfg: &cfg{log: zap.NewNop()}, gc: &gc{}}
	s.info.Mode = mode.ReadWrite
	count, failed, err := s.Restore(&c46wholeReader{data: dump}, vrt.Bool("ignoreErrors"))
	vrt.Assert(count == len(c46stored), "the restored count equals the number of objects actually stored")
	vrt.Assert(err != nil || failed > 0, "a refused object is reported")
	c46failAt = 0
	vrt.Reach("end")
}
