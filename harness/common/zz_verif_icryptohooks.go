//go:build verif

package crypto

import (
	apistatus "github.com/nspcc-dev/neofs-sdk-go/client/status"
	neofscrypto "github.com/nspcc-dev/neofs-sdk-go/crypto"
)

// VerifHookChain models the verification of a request's signature chain
// (ECDSA / N3 witnesses are outside the encoder's reach): nil verdict = valid.
// The real function is renamed to verifyRequestSignatures__real.
var VerifHookChain func() error

func verifyRequestSignatures[B neofscrypto.ProtoMessage](req neofscrypto.SignedRequest[B], verifyN3 func(data, invocScript, verifScript []byte) error) error {
	if err, done := verifyRequestSignaturesN3hooked(verifyN3); done {
		return err
	}
	if h := VerifHookChain; h != nil {
		if err := h(); err != nil {
			var st apistatus.SignatureVerification
			st.SetMessage(err.Error())
			return st
		}
		return nil
	}
	return verifyRequestSignatures__real(req, verifyN3)
}

// VerifHookChainN3, when set, models the SDK's walk over the signed parts of a
// request whose signatures use the N3 scheme: it receives the node's witness
// callback and returns the verdict of the walk.
var VerifHookChainN3 func(verifyN3 func(data, invocScript, verifScript []byte) error) error

func verifyRequestSignaturesN3hooked(verifyN3 func(data, invocScript, verifScript []byte) error) (error, bool) {
	h := VerifHookChainN3
	if h == nil || verifyN3 == nil {
		return nil, false
	}
	if err := h(verifyN3); err != nil {
		var st apistatus.SignatureVerification
		st.SetMessage(err.Error())
		return st, true
	}
	return nil, true
}
