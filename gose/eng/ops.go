package eng

import (
	"fmt"
	"go/token"
	"go/types"
	"math"
	"unicode/utf8"

	"golang.org/x/tools/go/ssa"
)

func (in *Interp) unop(fr *frame, x *ssa.UnOp, v Value) Value {
	switch x.Op {
	case token.MUL: // load
		return in.load(v)
	case token.ARROW:
		return in.chanRecv(v.(*Chan), x.CommaOk, x.Type())
	case token.NOT:
		return in.tb.Not(v.(*Term))
	case token.SUB:
		switch a := v.(type) {
		case *Term:
			return in.tb.Neg(a)
		case FloatV:
			return -a
		case ComplexV:
			return -a
		}
	case token.XOR:
		return in.tb.BNot(v.(*Term))
	}
	in.unsupported("unop %v on %T", x.Op, v)
	return nil
}

func (in *Interp) boolTerm(v Value) *Term { return v.(*Term) }

// binop implements BinOp. t is the static type of the left operand.
func (in *Interp) binop(op token.Token, t types.Type, x, y Value) Value {
	b := in.tb
	switch op {
	case token.EQL:
		return in.equals(t, x, y)
	case token.NEQ:
		return b.Not(in.equals(t, x, y))
	}
	switch a := x.(type) {
	case *Term:
		c := y.(*Term)
		if a.S.K == KBool {
			switch op {
			case token.AND, token.LAND:
				return b.And(a, c)
			case token.OR, token.LOR:
				return b.Or(a, c)
			}
			in.unsupported("bool binop %v", op)
		}
		_, signed, _ := intWidth(t)
		switch op {
		case token.ADD:
			return b.Add(a, c)
		case token.SUB:
			return b.Sub(a, c)
		case token.MUL:
			return b.Mul(a, c)
		case token.QUO, token.REM:
			z := b.Eq(c, ConstBV(c.S.W, 0))
			if in.branch(z) {
				in.gopanic("runtime error: integer divide by zero")
			}
			if signed {
				if op == token.QUO {
					return b.SDiv(a, c)
				}
				return b.SRem(a, c)
			}
			if op == token.QUO {
				return b.UDiv(a, c)
			}
			return b.URem(a, c)
		case token.AND:
			return b.BAnd(a, c)
		case token.OR:
			return b.BOr(a, c)
		case token.XOR:
			return b.BXor(a, c)
		case token.AND_NOT:
			return b.BAnd(a, b.BNot(c))
		case token.SHL, token.SHR:
			return in.shift(op, signed, a, c)
		case token.LSS:
			if signed {
				return b.Slt(a, c)
			}
			return b.Ult(a, c)
		case token.LEQ:
			if signed {
				return b.Sle(a, c)
			}
			return b.Ule(a, c)
		case token.GTR:
			if signed {
				return b.Slt(c, a)
			}
			return b.Ult(c, a)
		case token.GEQ:
			if signed {
				return b.Sle(c, a)
			}
			return b.Ule(c, a)
		}
	case FloatV:
		c := y.(FloatV)
		f32 := false
		if bt, ok := t.Underlying().(*types.Basic); ok && bt.Kind() == types.Float32 {
			f32 = true
		}
		r := func(f float64) Value {
			if f32 {
				return FloatV(float64(float32(f)))
			}
			return FloatV(f)
		}
		switch op {
		case token.ADD:
			return r(float64(a + c))
		case token.SUB:
			return r(float64(a - c))
		case token.MUL:
			return r(float64(a * c))
		case token.QUO:
			return r(float64(a / c))
		case token.LSS:
			return ConstBool(a < c)
		case token.LEQ:
			return ConstBool(a <= c)
		case token.GTR:
			return ConstBool(a > c)
		case token.GEQ:
			return ConstBool(a >= c)
		}
	case ComplexV:
		c := y.(ComplexV)
		switch op {
		case token.ADD:
			return a + c
		case token.SUB:
			return a - c
		case token.MUL:
			return a * c
		case token.QUO:
			return a / c
		}
	case *Str:
		c := y.(*Str)
		switch op {
		case token.ADD:
			if a.Sym == nil && c.Sym == nil {
				return mkStr(a.S + c.S)
			}
			return strFromTerms(append(append([]*Term{}, a.Terms()...), c.Terms()...))
		case token.LSS:
			return b.Slt(in.strCompare(a, c), ConstBV(64, 0))
		case token.LEQ:
			return b.Sle(in.strCompare(a, c), ConstBV(64, 0))
		case token.GTR:
			return b.Slt(ConstBV(64, 0), in.strCompare(a, c))
		case token.GEQ:
			return b.Sle(ConstBV(64, 0), in.strCompare(a, c))
		}
	}
	in.unsupported("binop %v on %T", op, x)
	return nil
}

func (in *Interp) shift(op token.Token, signed bool, a, c *Term) Value {
	b := in.tb
	w := a.S.W
	// shift count is unsigned in SSA (or checked non-negative by the compiler-inserted panic in go >=1.13: ssa leaves signed counts)
	cnt := c
	if cnt.S.W < w {
		cnt = b.Zext(cnt, w)
	} else if cnt.S.W > w {
		// if any high bit set => count >= w
		big := b.Not(b.Ule(cnt, ConstBV(cnt.S.W, uint64(w-1))))
		low := b.Extract(cnt, w-1, 0)
		var sh *Term
		switch {
		case op == token.SHL:
			sh = b.Shl(a, low)
			return b.Ite(big, ConstBV(w, 0), sh)
		case signed:
			sh = b.Ashr(a, low)
			return b.Ite(big, b.Ashr(a, ConstBV(w, uint64(w-1))), sh)
		default:
			sh = b.Lshr(a, low)
			return b.Ite(big, ConstBV(w, 0), sh)
		}
	}
	switch {
	case op == token.SHL:
		return b.Shl(a, cnt)
	case signed:
		return b.Ashr(a, cnt)
	}
	return b.Lshr(a, cnt)
}

// strCompare returns a BV64 term: -1, 0, +1 (lexicographic byte comparison).
func (in *Interp) strCompare(a, c *Str) *Term {
	if a.Sym == nil && c.Sym == nil {
		switch {
		case a.S < c.S:
			return ConstBV(64, ^uint64(0))
		case a.S > c.S:
			return ConstBV(64, 1)
		}
		return ConstBV(64, 0)
	}
	return in.bytesCompare(a.Terms(), c.Terms())
}

func (in *Interp) bytesCompare(x, y []*Term) *Term {
	b := in.tb
	n := min(len(x), len(y))
	var r *Term
	switch {
	case len(x) < len(y):
		r = ConstBV(64, ^uint64(0))
	case len(x) > len(y):
		r = ConstBV(64, 1)
	default:
		r = ConstBV(64, 0)
	}
	for i := n - 1; i >= 0; i-- {
		lt := b.Ult(x[i], y[i])
		eq := b.Eq(x[i], y[i])
		r = b.Ite(eq, r, b.Ite(lt, ConstBV(64, ^uint64(0)), ConstBV(64, 1)))
	}
	return r
}

func (in *Interp) bytesEqual(x, y []*Term) *Term {
	if len(x) != len(y) {
		return FalseT
	}
	r := TrueT
	for i := range x {
		r = in.tb.And(r, in.tb.Eq(x[i], y[i]))
		if r.IsFalse() {
			return r
		}
	}
	return r
}

// equals returns a Bool term for x == y.
func (in *Interp) equals(t types.Type, x, y Value) *Term {
	switch a := x.(type) {
	case *Term:
		c, ok := y.(*Term)
		if !ok {
			in.unsupported("compare %T with %T", x, y)
		}
		return in.tb.Eq(a, c)
	case FloatV:
		return ConstBool(a == y.(FloatV))
	case ComplexV:
		return ConstBool(a == y.(ComplexV))
	case *Str:
		c := y.(*Str)
		if a.Sym == nil && c.Sym == nil {
			return ConstBool(a.S == c.S)
		}
		if a.Len() != c.Len() {
			return FalseT
		}
		return in.bytesEqual(a.Terms(), c.Terms())
	case Struct:
		c := y.(Struct)
		r := TrueT
		var st *types.Struct
		if t != nil {
			st, _ = t.Underlying().(*types.Struct)
		}
		for i := range a {
			if st != nil && st.Field(i).Name() == "_" {
				continue
			}
			var ft types.Type
			if st != nil {
				ft = st.Field(i).Type()
			}
			r = in.tb.And(r, in.equals(ft, a[i], c[i]))
		}
		return r
	case Array:
		c := y.(Array)
		r := TrueT
		var et types.Type
		if t != nil {
			if at, ok := t.Underlying().(*types.Array); ok {
				et = at.Elem()
			}
		}
		for i := range a {
			r = in.tb.And(r, in.equals(et, a[i], c[i]))
		}
		return r
	case *Value:
		switch c := y.(type) {
		case *Value:
			return ConstBool(a == c)
		case *IdxPtr:
			return ConstBool(false)
		}
	case *IdxPtr:
		if c, ok := y.(*IdxPtr); ok && a != nil && c != nil && len(a.A) > 0 && len(c.A) > 0 && &a.A[0] == &c.A[0] {
			return in.tb.Eq(a.Idx, c.Idx)
		}
		return ConstBool(a == y)
	case UnsafePtr:
		c := y.(UnsafePtr)
		if isNilPtr(a) || isNilPtr(c) {
			return ConstBool(isNilPtr(a) == isNilPtr(c))
		}
		return ConstBool(a.P == c.P)
	case *Map:
		return ConstBool(a == y.(*Map))
	case *Chan:
		return ConstBool(a == y.(*Chan))
	case Slice:
		c := y.(Slice)
		if a.A == nil || c.A == nil {
			return ConstBool((a.A == nil) == (c.A == nil))
		}
		in.unsupported("slice comparison")
	case *ssa.Function, *Closure, *ssa.Builtin:
		return ConstBool(isNilFunc(x) == isNilFunc(y) && (isNilFunc(x) || x == y))
	case Iface:
		c, ok := y.(Iface)
		if !ok {
			in.unsupported("compare iface with %T", y)
		}
		if a.T == nil || c.T == nil {
			return ConstBool(a.T == nil && c.T == nil)
		}
		if !types.Identical(a.T, c.T) {
			return FalseT
		}
		if !types.Comparable(a.T) {
			in.gopanic("runtime error: comparing uncomparable type " + a.T.String())
		}
		return in.equals(a.T, a.V, c.V)
	case nil:
		return ConstBool(y == nil)
	}
	in.unsupported("equals on %T / %T", x, y)
	return nil
}

func isNilFunc(v Value) bool {
	switch f := v.(type) {
	case *Closure:
		return f == nil
	case *ssa.Function:
		return f == nil
	case nil:
		return true
	}
	return false
}

// ---- conversions ----

func (in *Interp) conv(dst, src types.Type, v Value) Value {
	ud, us := dst.Underlying(), src.Underlying()
	// pointer / unsafe
	switch d := ud.(type) {
	case *types.Pointer:
		if up, ok := v.(UnsafePtr); ok {
			if up.P == nil {
				return (*Value)(nil)
			}
			// unsafe.Pointer -> *T: allow only if the pointee already has a compatible shape
			return in.reinterpret(up.P, d.Elem())
		}
		return v
	case *types.Slice:
		switch s := v.(type) {
		case *Str:
			// string -> []byte / []rune
			eb := d.Elem().Underlying().(*types.Basic)
			if eb.Kind() == types.Uint8 {
				ts := s.Terms()
				a := make([]Value, len(ts))
				for i, t := range ts {
					a[i] = t
				}
				return Slice{A: a}
			}
			cs, ok := s.Concrete()
			if !ok {
				in.unsupported("[]rune(symbolic string)")
			}
			rs := []rune(cs)
			a := make([]Value, len(rs))
			for i, r := range rs {
				a[i] = ConstBV(32, uint64(uint32(r)))
			}
			return Slice{A: a}
		}
		return v
	case *types.Basic:
		if d.Kind() == types.UnsafePointer {
			if _, ok := v.(UnsafePtr); ok {
				return v
			}
			if t, ok := v.(*Term); ok { // uintptr -> unsafe.Pointer
				if t.IsConst() && t.C == 0 {
					return UnsafePtr{}
				}
				in.unsupported("uintptr -> unsafe.Pointer")
			}
			return UnsafePtr{P: v}
		}
		if d.Info()&types.IsString != 0 {
			switch s := v.(type) {
			case *Str:
				return s
			case Slice:
				// []byte / []rune -> string
				eb := us.(*types.Slice).Elem().Underlying().(*types.Basic)
				if eb.Kind() == types.Uint8 {
					ts := make([]*Term, len(s.A))
					for i, e := range s.A {
						ts[i] = e.(*Term)
					}
					return strFromTerms(ts)
				}
				rs := make([]rune, len(s.A))
				for i, e := range s.A {
					t := e.(*Term)
					if !t.IsConst() {
						in.unsupported("string(symbolic []rune)")
					}
					rs[i] = rune(int32(t.C))
				}
				return mkStr(string(rs))
			case *Term:
				// integer -> string (rune)
				if !s.IsConst() {
					// symbolic rune to string: ASCII only by forking
					isASCII := in.tb.Ult(in.tb.Zext(s, 64), ConstBV(64, 0x80))
					if s.S.W < 64 {
						isASCII = in.tb.Ult(in.tb.Zext(s, 64), ConstBV(64, 0x80))
					}
					if in.branch(isASCII) {
						return strFromTerms([]*Term{in.tb.Extract(s, 7, 0)})
					}
					in.unsupported("string(symbolic non-ASCII rune)")
				}
				return mkStr(string(rune(s.sval())))
			}
		}
		if w, _, ok := intWidth(dst); ok {
			switch s := v.(type) {
			case *Term:
				if s.S.K == KBool {
					in.unsupported("bool->int conv")
				}
				_, ssigned, _ := intWidth(src)
				if w <= s.S.W {
					return in.tb.Extract(s, w-1, 0)
				}
				if ssigned {
					return in.tb.Sext(s, w)
				}
				return in.tb.Zext(s, w)
			case FloatV:
				_, dsigned, _ := intWidth(dst)
				f := float64(s)
				if dsigned {
					return ConstBV(w, uint64(int64(f)))
				}
				if f < 0 {
					return ConstBV(w, uint64(int64(f)))
				}
				return ConstBV(w, uint64(f))
			case UnsafePtr:
				if isNilPtr(s) {
					return ConstBV(64, 0)
				}
				// pointer identity as opaque nonzero constant
				return ConstBV(64, 0xdead0000)
			}
		}
		if d.Info()&types.IsFloat != 0 {
			f32 := d.Kind() == types.Float32
			switch s := v.(type) {
			case FloatV:
				if f32 {
					return FloatV(float64(float32(s)))
				}
				return s
			case *Term:
				if !s.IsConst() {
					in.unsupported("symbolic int -> float conversion")
				}
				_, ssigned, _ := intWidth(src)
				var f float64
				if ssigned {
					f = float64(s.sval())
				} else {
					f = float64(s.C)
				}
				if f32 {
					f = float64(float32(f))
				}
				return FloatV(f)
			}
		}
		if d.Info()&types.IsComplex != 0 {
			return v
		}
	}
	switch v.(type) {
	case Struct, Array, Slice, *Map, *Chan, Iface, *Closure, *ssa.Function, *Value, *IdxPtr:
		return v // ChangeType-like conversion between identical underlying types
	}
	in.unsupported("conversion %v -> %v (%T)", src, dst, v)
	return nil
}

// reinterpret handles unsafe.Pointer -> *T casts for the few idioms in use
// (same-shape casts such as *[N]byte <-> *T with identical layout are not
// supported; identical underlying value kinds pass through).
func (in *Interp) reinterpret(p Value, elem types.Type) Value {
	if pv, ok := p.(*Value); ok {
		return pv
	}
	in.unsupported("unsafe reinterpret to *%v", elem)
	return nil
}

// ---- slices, indexing ----

func (in *Interp) slice(fr *frame, x *ssa.Slice) Value {
	v := in.get(fr, x.X)
	var lo, hi, mx int64 = 0, -1, -1
	if x.Low != nil {
		lo = in.boundInt(in.get(fr, x.Low).(*Term))
	}
	if x.High != nil {
		hi = in.boundInt(in.get(fr, x.High).(*Term))
	}
	if x.Max != nil {
		mx = in.boundInt(in.get(fr, x.Max).(*Term))
	}
	switch s := v.(type) {
	case *Str:
		n := int64(s.Len())
		if hi < 0 && x.High == nil {
			hi = n
		}
		if lo < 0 || hi < lo || hi > n {
			in.gopanic(fmt.Sprintf("runtime error: slice bounds out of range [%d:%d] with length %d", lo, hi, n))
		}
		return s.Sub(int(lo), int(hi))
	case Slice:
		n, c := int64(len(s.A)), int64(cap(s.A))
		if x.High == nil {
			hi = n
		}
		if x.Max == nil {
			mx = c
		}
		if lo < 0 || hi < lo || mx < hi || mx > c {
			in.gopanic(fmt.Sprintf("runtime error: slice bounds out of range [%d:%d:%d] with capacity %d", lo, hi, mx, c))
		}
		if s.A == nil {
			return Slice{}
		}
		return Slice{A: s.A[lo:hi:mx]}
	case *Value: // pointer to array
		if s == nil {
			if (x.Low == nil || lo == 0) && (x.High == nil || hi == 0) {
				return Slice{}
			}
			in.gopanic("runtime error: invalid memory address or nil pointer dereference")
		}
		arr := (*s).(Array)
		n := int64(len(arr))
		if x.High == nil {
			hi = n
		}
		if x.Max == nil {
			mx = n
		}
		if lo < 0 || hi < lo || mx < hi || mx > n {
			in.gopanic(fmt.Sprintf("runtime error: slice bounds out of range [%d:%d:%d] with capacity %d", lo, hi, mx, n))
		}
		return Slice{A: []Value(arr)[lo:hi:mx]}
	}
	in.unsupported("slice of %T", v)
	return nil
}

// boundInt concretises a slice bound. Symbolic bounds are forked per feasible value.
func (in *Interp) boundInt(t *Term) int64 {
	if t.IsConst() {
		return t.sval()
	}
	return int64(in.concretize(t, "slice bound"))
}

// checkIndex returns the concrete index or, for symbolic i in range, -1 with ok.
func (in *Interp) checkIndex(i *Term, n int) (int, bool) {
	if i.S.W < 64 {
		i = in.tb.Zext(i, 64) // index operands of narrower unsigned types
	}
	if i.IsConst() {
		k := i.sval()
		if k < 0 || k >= int64(n) {
			in.gopanic(fmt.Sprintf("runtime error: index out of range [%d] with length %d", k, n))
		}
		return int(k), true
	}
	inb := in.tb.Ult(i, ConstBV(64, uint64(n)))
	if !in.branch(inb) {
		in.gopanic(fmt.Sprintf("runtime error: index out of range [symbolic] with length %d", n))
	}
	return -1, false
}

func idx64(in *Interp, i *Term, t types.Type) *Term {
	if i.S.W == 64 {
		return i
	}
	_, signed, _ := intWidth(t)
	if signed {
		return in.tb.Sext(i, 64)
	}
	return in.tb.Zext(i, 64)
}

func (in *Interp) indexAddr(fr *frame, x *ssa.IndexAddr) Value {
	base := in.get(fr, x.X)
	i := idx64(in, in.get(fr, x.Index).(*Term), x.Index.Type())
	var elems []Value
	switch s := base.(type) {
	case Slice:
		elems = s.A
	case *Value:
		if s == nil {
			in.gopanic("runtime error: invalid memory address or nil pointer dereference")
		}
		elems = []Value((*s).(Array))
	default:
		in.unsupported("IndexAddr on %T", base)
	}
	k, conc := in.checkIndex(i, len(elems))
	if conc {
		return &elems[k]
	}
	if len(elems) > in.cfg.MaxIte {
		k := in.concretize(i, "index")
		return &elems[k]
	}
	return &IdxPtr{A: elems, Idx: i}
}

func (in *Interp) index(fr *frame, x *ssa.Index) Value {
	base := in.get(fr, x.X)
	i := idx64(in, in.get(fr, x.Index).(*Term), x.Index.Type())
	switch s := base.(type) {
	case Array:
		k, conc := in.checkIndex(i, len(s))
		if conc {
			return copyVal(s[k])
		}
		return in.loadIdx(&IdxPtr{A: []Value(s), Idx: i})
	case *Str:
		k, conc := in.checkIndex(i, s.Len())
		if conc {
			return s.At(k)
		}
		ts := s.Terms()
		r := ts[len(ts)-1]
		for j := len(ts) - 2; j >= 0; j-- {
			r = in.tb.Ite(in.tb.Eq(i, ConstBV(64, uint64(j))), ts[j], r)
		}
		return r
	}
	in.unsupported("Index on %T", base)
	return nil
}

// ---- maps ----

func (m *Map) reindex() {
	m.Index = map[string]int{}
	for i, k := range m.Keys {
		if ck, ok := canonKey(k); ok {
			m.Index[ck] = i
		}
	}
}

// mapFind returns the position of key k, or -1. Symbolic keys fork on equality.
func (in *Interp) mapFind(m *Map, k Value) int {
	if ck, ok := canonKey(k); ok {
		if i, ok := m.Index[ck]; ok {
			return i
		}
		// may still equal a symbolic stored key
		for i, sk := range m.Keys {
			if _, conc := canonKey(sk); conc {
				continue
			}
			if in.branch(in.equals(m.KT, sk, k)) {
				return i
			}
		}
		return -1
	}
	for i, sk := range m.Keys {
		if in.branch(in.equals(m.KT, sk, k)) {
			return i
		}
	}
	return -1
}

func (in *Interp) mapSnapshot(m *Map) {
	if in.noUndo == 0 {
		in.undo = append(in.undo, undoRec{m: m, mk: append([]Value(nil), m.Keys...), mv: append([]Value(nil), m.Vals...)})
	}
}

func (in *Interp) mapSet(m *Map, k, v Value) {
	if _, isIface := k.(Iface); isIface {
		if i := k.(Iface); i.T != nil && !types.Comparable(i.T) {
			in.gopanic("runtime error: hash of unhashable type " + i.T.String())
		}
	}
	i := in.mapFind(m, k)
	in.mapSnapshot(m)
	if i >= 0 {
		m.Vals[i] = v
		return
	}
	m.Keys = append(m.Keys, copyVal(k))
	m.Vals = append(m.Vals, v)
	if ck, ok := canonKey(k); ok {
		m.Index[ck] = len(m.Keys) - 1
	}
}

func (in *Interp) mapDelete(m *Map, k Value) {
	if m == nil {
		return
	}
	i := in.mapFind(m, k)
	if i < 0 {
		return
	}
	in.mapSnapshot(m)
	m.Keys = append(append([]Value(nil), m.Keys[:i]...), m.Keys[i+1:]...)
	m.Vals = append(append([]Value(nil), m.Vals[:i]...), m.Vals[i+1:]...)
	m.reindex()
}

func (in *Interp) lookup(fr *frame, x *ssa.Lookup) Value {
	base := in.get(fr, x.X)
	k := in.get(fr, x.Index)
	switch m := base.(type) {
	case *Str:
		i := idx64(in, k.(*Term), x.Index.Type())
		kk, conc := in.checkIndex(i, m.Len())
		if conc {
			return m.At(kk)
		}
		ts := m.Terms()
		r := ts[len(ts)-1]
		for j := len(ts) - 2; j >= 0; j-- {
			r = in.tb.Ite(in.tb.Eq(i, ConstBV(64, uint64(j))), ts[j], r)
		}
		return r
	case *Map:
		vt := x.X.Type().Underlying().(*types.Map).Elem()
		var v Value
		ok := false
		if m != nil {
			if i := in.mapFind(m, k); i >= 0 {
				v, ok = copyVal(m.Vals[i]), true
			}
		}
		if !ok {
			v = zero(vt)
		}
		if x.CommaOk {
			return Tuple{v, ConstBool(ok)}
		}
		return v
	}
	in.unsupported("Lookup on %T", base)
	return nil
}

// ---- type assertions ----

func (in *Interp) implements(dyn types.Type, iface *types.Interface) bool {
	return types.Implements(dyn, iface)
}

func (in *Interp) typeAssert(x *ssa.TypeAssert, v Iface) Value {
	ok := false
	var res Value
	if it, isI := x.AssertedType.Underlying().(*types.Interface); isI {
		if v.T != nil && in.implements(v.T, it) {
			ok = true
			res = v
		} else {
			res = Iface{}
		}
	} else {
		if v.T != nil && types.Identical(v.T, x.AssertedType) {
			ok = true
			res = v.V
		} else {
			res = zero(x.AssertedType)
		}
	}
	if x.CommaOk {
		return Tuple{res, ConstBool(ok)}
	}
	if !ok {
		have := "nil"
		if v.T != nil {
			have = v.T.String()
		}
		in.gopanic(fmt.Sprintf("interface conversion: interface is %s, not %s", have, x.AssertedType))
	}
	return res
}

// ---- range ----

func (in *Interp) rangeIter(v Value) Value {
	switch x := v.(type) {
	case *Str:
		return &StrIter{S: x}
	case *Map:
		it := &MapIter{M: x}
		if x != nil {
			it.Keys = append([]Value(nil), x.Keys...)
			if in.cfg.MapOrder == "any" && len(it.Keys) > 1 && in.P != nil {
				// forked permutation: choose successive elements
				keys := it.Keys
				perm := make([]Value, 0, len(keys))
				rest := append([]Value(nil), keys...)
				for len(rest) > 1 {
					c := in.choice("maporder", len(rest))
					perm = append(perm, rest[c])
					rest = append(rest[:c], rest[c+1:]...)
				}
				perm = append(perm, rest[0])
				it.Keys = perm
			}
		}
		return it
	}
	in.unsupported("range over %T", v)
	return nil
}

func (in *Interp) next(x *ssa.Next, itv Value) Value {
	switch it := itv.(type) {
	case *StrIter:
		if it.Pos >= it.S.Len() {
			return Tuple{FalseT, ConstBV(64, 0), ConstBV(32, 0)}
		}
		pos := it.Pos
		b0 := it.S.At(pos)
		if b0.IsConst() && b0.C < 0x80 {
			it.Pos++
			return Tuple{TrueT, ConstBV(64, uint64(pos)), ConstBV(32, b0.C)}
		}
		if cs, ok := it.S.Concrete(); ok {
			r, sz := utf8.DecodeRuneInString(cs[pos:])
			it.Pos += sz
			return Tuple{TrueT, ConstBV(64, uint64(pos)), ConstBV(32, uint64(uint32(r)))}
		}
		// symbolic byte: ASCII or give up
		if in.branch(in.tb.Ult(b0, ConstBV(8, 0x80))) {
			it.Pos++
			return Tuple{TrueT, ConstBV(64, uint64(pos)), in.tb.Zext(b0, 32)}
		}
		r, sz := in.decodeRuneSym(it.S, pos)
		it.Pos += sz
		return Tuple{TrueT, ConstBV(64, uint64(pos)), r}
	case *MapIter:
		for it.Pos < len(it.Keys) {
			k := it.Keys[it.Pos]
			it.Pos++
			// skip deleted entries
			i := -1
			if ck, ok := canonKey(k); ok {
				if j, ok := it.M.Index[ck]; ok {
					i = j
				}
			} else {
				for j, sk := range it.M.Keys {
					if kk, ok := sk.(*Term); ok && kk == k {
						i = j
						break
					}
					if canonPtrEq(sk, k) {
						i = j
						break
					}
				}
			}
			if i < 0 {
				continue
			}
			return Tuple{TrueT, copyVal(k), copyVal(it.M.Vals[i])}
		}
		mt := x.Iter.(*ssa.Range).X.Type().Underlying().(*types.Map)
		return Tuple{FalseT, zero(mt.Key()), zero(mt.Elem())}
	}
	in.unsupported("next on %T", itv)
	return nil
}

func canonPtrEq(a, b Value) bool {
	defer func() { recover() }()
	return a == b
}

// ---- channels (single-thread latch semantics) ----

func (in *Interp) chanSend(ch *Chan, v Value) {
	if ch == nil {
		in.abortf("blocked", "send on nil channel")
	}
	if ch.Closed {
		in.gopanic("send on closed channel")
	}
	if len(ch.Buf) >= ch.Cap {
		if in.cfg.ChanUnbounded {
			in.chanMut(ch)
			ch.Buf = append(ch.Buf, v)
			return
		}
		in.abortf("blocked", "send would block (cap %d)", ch.Cap)
	}
	in.chanMut(ch)
	ch.Buf = append(ch.Buf, v)
}

func (in *Interp) chanMut(ch *Chan) {
	if in.noUndo == 0 {
		old := *ch
		old.Buf = append([]Value(nil), ch.Buf...)
		in.chanUndo = append(in.chanUndo, chanUndoRec{ch, old})
	}
}

type chanUndoRec struct {
	ch  *Chan
	old Chan
}

func (in *Interp) chanRecv(ch *Chan, commaOk bool, t types.Type) Value {
	if ch == nil {
		in.abortf("blocked", "receive from nil channel")
	}
	var et types.Type
	if commaOk {
		et = t.(*types.Tuple).At(0).Type()
	} else {
		et = t
	}
	if len(ch.Buf) > 0 {
		in.chanMut(ch)
		v := ch.Buf[0]
		ch.Buf = append([]Value(nil), ch.Buf[1:]...)
		if commaOk {
			return Tuple{v, TrueT}
		}
		return v
	}
	if ch.Closed {
		if commaOk {
			return Tuple{zero(et), FalseT}
		}
		return zero(et)
	}
	in.abortf("blocked", "receive would block")
	return nil
}

func (in *Interp) chanClose(ch *Chan) {
	if ch == nil {
		in.gopanic("close of nil channel")
	}
	if ch.Closed {
		in.gopanic("close of closed channel")
	}
	in.chanMut(ch)
	ch.Closed = true
}

func (in *Interp) selectOp(fr *frame, x *ssa.Select) Value {
	// result tuple: (index int, recvOk bool, r_0 T_0, ... for each recv)
	nrecv := 0
	for _, st := range x.States {
		if st.Dir == types.RecvOnly {
			nrecv++
		}
	}
	res := make(Tuple, 2+nrecv)
	ri := 2
	recvPos := make([]int, len(x.States))
	for i, st := range x.States {
		if st.Dir == types.RecvOnly {
			recvPos[i] = ri
			res[ri] = zero(st.Chan.Type().Underlying().(*types.Chan).Elem())
			ri++
		}
	}
	res[1] = FalseT
	for i, st := range x.States {
		chv := in.get(fr, st.Chan)
		ch, _ := chv.(*Chan)
		if ch == nil {
			continue
		}
		if st.Dir == types.RecvOnly {
			if len(ch.Buf) > 0 || ch.Closed {
				et := st.Chan.Type().Underlying().(*types.Chan).Elem()
				r := in.chanRecv(ch, true, types.NewTuple(types.NewVar(0, nil, "", et), types.NewVar(0, nil, "", types.Typ[types.Bool]))).(Tuple)
				res[0] = ConstBV(64, uint64(i))
				res[1] = r[1]
				res[recvPos[i]] = r[0]
				return res
			}
		} else {
			if ch.Closed {
				in.gopanic("send on closed channel")
			}
			if len(ch.Buf) < ch.Cap || in.cfg.ChanUnbounded {
				in.chanSend(ch, in.get(fr, st.Send))
				res[0] = ConstBV(64, uint64(i))
				return res
			}
		}
	}
	if !x.Blocking {
		res[0] = ConstBV(64, ^uint64(0))
		return res
	}
	in.abortf("blocked", "select would block in %s", fr.fn)
	return nil
}

// ---- builtins ----

func (in *Interp) callBuiltin(fr *frame, fn *ssa.Builtin, args []Value, site *ssa.CallCommon) Value {
	switch fn.Name() {
	case "append":
		s := args[0].(Slice)
		switch t := args[1].(type) {
		case Slice:
			return in.appendVals(s, t.A)
		case *Str:
			ts := t.Terms()
			vs := make([]Value, len(ts))
			for i, x := range ts {
				vs[i] = x
			}
			return in.appendVals(s, vs)
		}
		in.unsupported("append of %T", args[1])
	case "copy":
		dst := args[0].(Slice)
		var src []Value
		switch t := args[1].(type) {
		case Slice:
			src = t.A
		case *Str:
			ts := t.Terms()
			src = make([]Value, len(ts))
			for i, x := range ts {
				src[i] = x
			}
		}
		n := min(len(dst.A), len(src))
		if n > 0 && len(src) > 0 && len(dst.A) > 0 {
			// handle overlap like memmove
			tmp := make([]Value, n)
			for i := 0; i < n; i++ {
				tmp[i] = copyVal(src[i])
			}
			for i := 0; i < n; i++ {
				in.store(&dst.A[i], tmp[i])
			}
		}
		return ConstBV(64, uint64(n))
	case "len":
		switch x := args[0].(type) {
		case *Str:
			return ConstBV(64, uint64(x.Len()))
		case Slice:
			return ConstBV(64, uint64(len(x.A)))
		case Array:
			return ConstBV(64, uint64(len(x)))
		case *Map:
			if x == nil {
				return ConstBV(64, 0)
			}
			// symbolic keys may coincide; length is exact only for distinct keys (we keep keys distinct by forking on insert)
			return ConstBV(64, uint64(len(x.Keys)))
		case *Chan:
			if x == nil {
				return ConstBV(64, 0)
			}
			return ConstBV(64, uint64(len(x.Buf)))
		case *Value:
			if x == nil {
				in.gopanic("nil pointer in len")
			}
			return ConstBV(64, uint64(len((*x).(Array))))
		}
	case "cap":
		switch x := args[0].(type) {
		case Slice:
			return ConstBV(64, uint64(cap(x.A)))
		case Array:
			return ConstBV(64, uint64(len(x)))
		case *Chan:
			if x == nil {
				return ConstBV(64, 0)
			}
			return ConstBV(64, uint64(x.Cap))
		case *Value:
			return ConstBV(64, uint64(len((*x).(Array))))
		}
	case "delete":
		in.mapDelete(args[0].(*Map), args[1])
		return nil
	case "clear":
		switch x := args[0].(type) {
		case *Map:
			if x != nil {
				in.mapSnapshot(x)
				x.Keys, x.Vals = nil, nil
				x.reindex()
			}
		case Slice:
			et := site.Args[0].Type().Underlying().(*types.Slice).Elem()
			for i := range x.A {
				in.store(&x.A[i], zero(et))
			}
		}
		return nil
	case "close":
		in.chanClose(args[0].(*Chan))
		return nil
	case "panic":
		panic(&goPanic{val: args[0], msg: in.panicMsg(args[0]), stack: in.stack()})
	case "recover":
		// valid when called directly by a deferred function while its caller frame is panicking
		if fr.isDefer && fr.caller != nil && fr.caller.panic != nil {
			p := fr.caller.panic
			fr.caller.panic = nil
			if i, ok := p.val.(Iface); ok {
				if i.T == nil {
					// runtime error: wrap as error-ish string iface
					return Iface{T: types.Typ[types.String], V: i.V}
				}
				return i
			}
			return Iface{T: types.Typ[types.String], V: mkStr(p.msg)}
		}
		return Iface{}
	case "print", "println":
		return nil
	case "min", "max":
		r := args[0]
		t := site.Args[0].Type()
		for _, a := range args[1:] {
			var lt Value
			if fn.Name() == "min" {
				lt = in.binop(token.LSS, t, a, r)
			} else {
				lt = in.binop(token.GTR, t, a, r)
			}
			c := lt.(*Term)
			switch rv := r.(type) {
			case *Term:
				r = in.tb.Ite(c, a.(*Term), rv)
			default:
				if in.branch(c) {
					r = a
				}
			}
		}
		return r
	case "real":
		return FloatV(real(complex128(args[0].(ComplexV))))
	case "imag":
		return FloatV(imag(complex128(args[0].(ComplexV))))
	case "complex":
		return ComplexV(complex(float64(args[0].(FloatV)), float64(args[1].(FloatV))))
	case "ssa:wrapnilchk":
		if isNilPtr(args[0]) {
			in.gopanic("value method called using nil pointer")
		}
		return args[0]
	case "String": // unsafe.String(ptr, len)
		n := in.concreteInt(args[1].(*Term), "unsafe.String len")
		if n == 0 {
			return mkStr("")
		}
		if sd, ok := args[0].(sliceData); ok {
			ts := make([]*Term, n)
			for i := range ts {
				ts[i] = sd.A[i].(*Term)
			}
			return strFromTerms(ts)
		}
		in.unsupported("unsafe.String on %T", args[0])
	case "SliceData":
		s := args[0].(Slice)
		return sliceData{A: s.A[:cap(s.A)]}
	case "StringData":
		ts := args[0].(*Str).Terms()
		vs := make([]Value, len(ts))
		for i, t := range ts {
			vs[i] = t
		}
		return sliceData{A: vs}
	case "Slice": // unsafe.Slice(ptr, len)
		n := in.concreteInt(args[1].(*Term), "unsafe.Slice len")
		if sd, ok := args[0].(sliceData); ok {
			return Slice{A: sd.A[:n:n]}
		}
		if n == 0 {
			return Slice{}
		}
		in.unsupported("unsafe.Slice on %T", args[0])
	}
	in.unsupported("builtin %s on %T", fn.Name(), firstOrNil(args))
	return nil
}

// sliceData is the result of unsafe.SliceData/StringData: a pointer to the
// first element that remembers its backing store.
type sliceData struct{ A []Value }

func firstOrNil(a []Value) Value {
	if len(a) > 0 {
		return a[0]
	}
	return nil
}

func (in *Interp) appendVals(s Slice, vs []Value) Value {
	if len(vs) == 0 {
		return s
	}
	n := len(s.A)
	if n+len(vs) <= cap(s.A) {
		a := s.A[:n+len(vs)]
		for i, v := range vs {
			in.store(&a[n+i], copyVal(v))
		}
		return Slice{A: a}
	}
	// grow: Go's growth policy is implementation-defined; mimic roughly (double)
	nc := cap(s.A) * 2
	if nc < n+len(vs) {
		nc = n + len(vs)
	}
	if nc < 8 && n+len(vs) <= 8 {
		nc = max(n+len(vs), nc)
	}
	a := make([]Value, n+len(vs), nc)
	for i := 0; i < n; i++ {
		a[i] = copyVal(s.A[i])
	}
	for i, v := range vs {
		a[n+i] = copyVal(v)
	}
	// spare capacity must hold zero values of the element type: copy shape from an existing element
	full := a[:nc]
	if len(a) > 0 {
		z := zeroLike(a[0])
		for i := len(a); i < nc; i++ {
			full[i] = zeroLikeCopy(z)
		}
	}
	return Slice{A: a}
}

func zeroLike(v Value) Value {
	switch x := v.(type) {
	case *Term:
		if x.S.K == KBool {
			return FalseT
		}
		return ConstBV(x.S.W, 0)
	case *Str:
		return mkStr("")
	case FloatV:
		return FloatV(0)
	case Struct:
		r := make(Struct, len(x))
		for i := range x {
			r[i] = zeroLike(x[i])
		}
		return r
	case Array:
		r := make(Array, len(x))
		for i := range x {
			r[i] = zeroLike(x[i])
		}
		return r
	case *Value:
		return (*Value)(nil)
	case Slice:
		return Slice{}
	case *Map:
		return (*Map)(nil)
	case Iface:
		return Iface{}
	case *Closure, *ssa.Function:
		return (*Closure)(nil)
	case *Chan:
		return (*Chan)(nil)
	case UnsafePtr:
		return UnsafePtr{}
	}
	return nil
}

func zeroLikeCopy(z Value) Value { return copyVal(z) }

var _ = math.MaxInt64

// decodeRuneSym decodes one UTF-8 sequence starting at a non-ASCII (possibly
// symbolic) byte, forking on the validity conditions exactly as
// unicode/utf8.DecodeRuneInString does. Returns the rune (BV32) and width.
func (in *Interp) decodeRuneSym(s *Str, pos int) (*Term, int) {
	b := in.tb
	runeErr := ConstBV(32, 0xFFFD)
	inRange := func(x *Term, lo, hi uint64) bool {
		return in.branch(b.And(b.Ule(ConstBV(8, lo), x), b.Ule(x, ConstBV(8, hi))))
	}
	is := func(x *Term, v uint64) bool { return in.branch(b.Eq(x, ConstBV(8, v))) }
	n := s.Len() - pos
	b0 := s.At(pos)
	z32 := func(x *Term, m uint64) *Term { return b.Zext(b.BAnd(x, ConstBV(8, m)), 32) }
	sh := func(x *Term, k uint64) *Term { return b.Shl(x, ConstBV(32, k)) }
	switch {
	case inRange(b0, 0xC2, 0xDF):
		if n < 2 || !inRange(s.At(pos+1), 0x80, 0xBF) {
			return runeErr, 1
		}
		return b.BOr(sh(z32(b0, 0x1F), 6), z32(s.At(pos+1), 0x3F)), 2
	case inRange(b0, 0xE0, 0xEF):
		if n < 3 {
			return runeErr, 1
		}
		lo, hi := uint64(0x80), uint64(0xBF)
		if is(b0, 0xE0) {
			lo = 0xA0
		} else if is(b0, 0xED) {
			hi = 0x9F
		}
		if !inRange(s.At(pos+1), lo, hi) || !inRange(s.At(pos+2), 0x80, 0xBF) {
			return runeErr, 1
		}
		return b.BOr(b.BOr(sh(z32(b0, 0x0F), 12), sh(z32(s.At(pos+1), 0x3F), 6)), z32(s.At(pos+2), 0x3F)), 3
	case inRange(b0, 0xF0, 0xF4):
		if n < 4 {
			return runeErr, 1
		}
		lo, hi := uint64(0x80), uint64(0xBF)
		if is(b0, 0xF0) {
			lo = 0x90
		} else if is(b0, 0xF4) {
			hi = 0x8F
		}
		if !inRange(s.At(pos+1), lo, hi) || !inRange(s.At(pos+2), 0x80, 0xBF) || !inRange(s.At(pos+3), 0x80, 0xBF) {
			return runeErr, 1
		}
		return b.BOr(b.BOr(b.BOr(sh(z32(b0, 0x07), 18), sh(z32(s.At(pos+1), 0x3F), 12)), sh(z32(s.At(pos+2), 0x3F), 6)), z32(s.At(pos+3), 0x3F)), 4
	}
	return runeErr, 1
}
