//go:build verif

package meta

import (
	"bytes"
	"context"
	"encoding/binary"
	"errors"
	"slices"
	"time"

	"github.com/nspcc-dev/bbolt"
	"github.com/nspcc-dev/neofs-node/internal/vrt"
	objectcore "github.com/nspcc-dev/neofs-node/pkg/core/object"
	"github.com/nspcc-dev/neofs-sdk-go/object"
	oid "github.com/nspcc-dev/neofs-sdk-go/object/id"
)

// c42ctx is an initialisation context that is cancelled at the N-th check.
type c42ctx struct {
	checks, cancelAt int
}

func (c *c42ctx) Deadline() (time.Time, bool) { return time.Time{}, false }
func (c *c42ctx) Done() <-chan struct{} {
	c.checks++
	ch := make(chan struct{})
	if c.cancelAt > 0 && c.checks >= c.cancelAt {
		close(ch)
	}
	return ch
}
func (c *c42ctx) Err() error {
	if c.cancelAt > 0 && c.checks >= c.cancelAt {
		return context.Canceled
	}
	return nil
}
func (c *c42ctx) Value(any) any { return nil }

type c42kv struct{ b, k, v []byte }

func c42dump(db *DB) []c42kv {
	var out []c42kv
	_ = db.boltDB.View(func(tx *bbolt.Tx) error {
		return tx.ForEach(func(name []byte, b *bbolt.Bucket) error {
			return b.ForEach(func(k, v []byte) error {
				if bytes.Equal(name, shardInfoBucket) && bytes.Equal(k, versionKey) {
					return nil
				}
				if len(k) == 1 && bytes.Equal(v, make([]byte, 8)) {
					return nil // a per-container counter that is zero: same as absent
				}
				out = append(out, c42kv{slices.Clone(name), slices.Clone(k), slices.Clone(v)})
				return nil
			})
		})
	})
	return out
}

func c42equal(a, b []c42kv) bool {
	if len(a) != len(b) {
		return false
	}
	for i := range a {
		if !bytes.Equal(a[i].b, b[i].b) || !bytes.Equal(a[i].k, b[i].k) || !bytes.Equal(a[i].v, b[i].v) {
			return false
		}
	}
	return true
}

// c42downgrade rewrites a current-format database into the layout the
// migration code reads as version 10 (associated-object attribute values as
// Base58 strings; homomorphic hash index entries present) and, for version 9,
// adds what that migration removes (the container volume bucket and the old
// global counters).
func c42downgrade(db *DB, to uint64, homo bool) {
	_ = db.boltDB.Update(func(tx *bbolt.Tx) error {
		b := tx.Bucket(metaBucketKey(vmCID(0)))
		pref := append(append([]byte{metaPrefixAttrIDPlain}, object.AttributeAssociatedObject...), 0)
		type pair struct{ id, target oid.ID }
		var pairs []pair
		c := b.Cursor()
		for k, _ := c.Seek(pref); k != nil && bytes.HasPrefix(k, pref); k, _ = c.Next() {
			val, idRaw, err := splitAttributeValueObjectID(k[len(pref):])
			if err != nil || len(val) != oid.Size {
				continue
			}
			var p pair
			copy(p.id[:], idRaw)
			copy(p.target[:], val)
			pairs = append(pairs, p)
		}
		var buf keyBuffer
		for _, p := range pairs {
			k, off := prepareMetaAttrIDKey(&buf, p.id, object.AttributeAssociatedObject, oid.Size, false)
			copy(k[off:], p.target[:])
			_ = b.Delete(slices.Clone(k))
			k = prepareMetaIDAttrKey(&buf, p.id, object.AttributeAssociatedObject, oid.Size)
			copy(k[len(k)-oid.Size:], p.target[:])
			_ = b.Delete(slices.Clone(k))
			_ = putPlainAttribute(b, &buf, p.id, object.AttributeAssociatedObject, p.target.EncodeToString())
		}
		if homo {
			_ = putPlainAttribute(b, &buf, vmOID(1), object.FilterPayloadHomomorphicHash, "0a0b")
			_ = putPlainAttribute(b, &buf, vmOID(9), object.FilterPayloadHomomorphicHash, "0c")
		}
		if to == 9 {
			vb, _ := tx.CreateBucketIfNotExists([]byte{unusedContainerVolumePrefix})
			_ = vb.Put([]byte("x"), []byte{1})
			ib, _ := tx.CreateBucketIfNotExists(shardInfoBucket)
			raw := make([]byte, 8)
			binary.LittleEndian.PutUint64(raw, 77)
			_ = ib.Put(objectPhyCounterKey, raw)
			_ = ib.Put(objectLogicCounterKey, raw)
		}
		return updateVersion(tx, to)
	})
}

// VerifC42Upgrade: a database written by the real current code (an object,
// optionally tombstoned and/or locked, a bystander, optionally an already
// expired object), rewritten into the version 10 (or 9) layout, is upgraded by
// the real checkVersion - optionally interrupted at any of its cancellation
// checks and then resumed. Afterwards every key/value pair of every bucket,
// counters included, equals the database before the rewrite, the version is
// current, and the statuses (existence, lock, removal) are unchanged.
func VerifC42Upgrade() {
	ep := &vmEpoch{e: 3}
	db := vmNewDB(ep)
	vrt.Assert(db.Put(vmObj(0, 9, object.TypeRegular, -1, 11)) == nil, "setup put")
	vrt.Assert(db.Put(vmObj(0, 1, object.TypeRegular, -1, 7)) == nil, "setup put")
	locked := vrt.Bool("objectLocked")
	if locked {
		l := vmObj(0, 3, object.TypeLock, 20, 0)
		l.AssociateLocked(vmOID(1))
		vrt.Assert(db.Put(l) == nil, "setup lock")
	}
	removed := !locked && vrt.Bool("objectTombstoned")
	if removed {
		ts := vmObj(0, 2, object.TypeTombstone, 20, 0)
		ts.AssociateDeleted(vmOID(1))
		vrt.Assert(db.Put(ts) == nil, "setup tombstone")
	}
	if vrt.Bool("expiredObjectStored") {
		_ = db.Put(vmObj(0, 4, object.TypeRegular, 2, 5))
	}
	// more associated-object entries than one migration batch takes (the batch
	// size is shrunk to 2 keys in the overlay copy of version.go), so that a
	// batch ends inside the container bucket and the next one resumes there
	if vrt.Bool("moreAssociatedObjectsThanOneBatch") {
		for _, o := range []byte{5, 6, 7} {
			l := vmObj(0, o, object.TypeLock, 20, 0)
			l.AssociateLocked(vmOID(9))
			vrt.Assert(db.Put(l) == nil, "setup lock")
		}
	}
	_ = db.boltDB.Update(func(tx *bbolt.Tx) error { return updateVersion(tx, currentMetaVersion) })
	want := c42dump(db)

	from := uint64(9 + vrt.Choice("storedVersion", 2))
	c42downgrade(db, from, vrt.Bool("homomorphicIndexPresent"))

	ctx := &c42ctx{cancelAt: vrt.Choice("interruptedAtCheck", 6)} // 0: never
	db.initCtx = ctx
	err := db.checkVersion()
	if err != nil {
		vrt.Assert(ctx.cancelAt > 0 && errors.Is(err, context.Canceled), "an upgrade fails only when it is interrupted")
		vrt.Reach("interrupted")
		db.initCtx = context.Background()
		err = db.checkVersion()
		vrt.Assert(err == nil, "an interrupted upgrade can be resumed")
	}
	var v uint64
	_ = db.boltDB.View(func(tx *bbolt.Tx) error { v, _ = getVersion(tx); return nil })
	vrt.Assert(v == currentMetaVersion, "the upgraded database has the current version")
	got := c42dump(db)
	vrt.Assert(c42equal(got, want), "after the upgrade every key/value pair (indexes, marks, counters) equals what the current code writes")
	ok, eerr := db.Exists(vmAddr(0, 1), false)
	if removed {
		vrt.Assert(!ok && eerr != nil, "a tombstoned object stays removed across the upgrade")
	} else {
		vrt.Assert(ok && eerr == nil, "an available object stays available across the upgrade")
	}
	l, lerr := db.IsLocked(vmAddr(0, 1))
	vrt.Assert(lerr == nil && l == locked, "the lock status is unchanged by the upgrade")
	vrt.Reach("end")
	_ = objectcore.MetaAttributeDelimiter
}
