//go:build verif

package object

import (
	"bytes"
	"context"
	"errors"

	"github.com/nspcc-dev/neofs-node/internal/vrt"
	cid "github.com/nspcc-dev/neofs-sdk-go/container/id"
	neofsecdsa "github.com/nspcc-dev/neofs-sdk-go/crypto/ecdsa"
	"github.com/nspcc-dev/neofs-sdk-go/object"
	protoobject "github.com/nspcc-dev/neofs-sdk-go/proto/object"
	"github.com/nspcc-dev/neofs-sdk-go/proto/refs"
	"go.uber.org/zap"
)

var c31 struct {
	stored       int
	currentNodes [][]byte // public keys of the container nodes in the current epoch
	previousOnly [][]byte // keys that were container nodes in the previous epoch only
	ownKey       []byte
	cnrErr       int // 0 none, 1 container not found, 2 other
	maintenance  bool
}

type c31chain struct{ FSChain }

func (c31chain) err() error {
	switch c31.cnrErr {
	case 1:
		return errC31NotFound
	case 2:
		return errors.New("network map is unavailable")
	}
	return nil
}

var errC31NotFound = errors.New("container not found")

func (c c31chain) ForEachContainerNodePublicKey(_ cid.ID, f func([]byte) bool) error {
	if e := c.err(); e != nil {
		return e
	}
	for _, k := range c31.currentNodes {
		if !f(k) {
			break
		}
	}
	return nil
}
func (c c31chain) ForEachContainerNodePublicKeyInLastTwoEpochs(_ cid.ID, f func([]byte) bool) error {
	if e := c.err(); e != nil {
		return e
	}
	for _, k := range append(append([][]byte{}, c31.currentNodes...), c31.previousOnly...) {
		if !f(k) {
			break
		}
	}
	return nil
}
func (c31chain) IsOwnPublicKey(k []byte) bool   { return bytes.Equal(k, c31.ownKey) }
func (c31chain) LocalNodeUnderMaintenance() bool { return c31.maintenance }

type c31storage struct{ Storage }

func (c31storage) VerifyAndStoreObjectLocally(context.Context, object.Object) error {
	c31.stored++
	return nil
}

// VerifC31Replicate: the replication handler with every optional request field
// present or absent, every signature scheme value, key decode and signature
// verdicts symbolic, and the container membership of the server and of the
// sender (current or previous epoch) symbolic: the object is handed to the
// local validation-and-storage only if the signature over the object ID
// verifies with the sender's key, the server is a container node now and the
// sender is a container node now or in the previous epoch; otherwise nothing
// is stored and a non-OK status is returned. Maintenance does not refuse
// replication.
func VerifC31Replicate() {
	c31.stored = 0
	c31.maintenance = vrt.Bool("nodeUnderMaintenance")
	c31.ownKey = []byte{0x10}
	sender := []byte{0x20 + vrt.Byte("senderKeyByte")&1}
	c31.cnrErr = vrt.Choice("containerLookup", 3)
	serverIn := vrt.Bool("serverInContainer")
	senderNow := vrt.Bool("senderInContainerNow")
	senderBefore := vrt.Bool("senderInContainerBefore")
	c31.currentNodes, c31.previousOnly = [][]byte{{0x30}}, nil
	if serverIn {
		c31.currentNodes = append(c31.currentNodes, c31.ownKey)
	}
	if senderNow {
		c31.currentNodes = append(c31.currentNodes, []byte{0x20})
	}
	if senderBefore {
		c31.previousOnly = append(c31.previousOnly, []byte{0x20})
	}
	decodeOK, verdict := vrt.Bool("keyDecodes"), vrt.Bool("signatureVerdict")
	var verifiedData, verifiedSig []byte
	neofsecdsa.VerifHookDecodeAny = func(_ int, data []byte) error {
		if !decodeOK {
			return errors.New("bad key")
		}
		return nil
	}
	neofsecdsa.VerifHookVerifyAny = func(_ int, data, sig []byte) bool {
		verifiedData, verifiedSig = data, sig
		return verdict
	}
	req := new(protoobject.ReplicateRequest)
	idVal := make([]byte, 32)
	idVal[0], idVal[31] = 7, 7
	if vrt.Bool("objectPresent") {
		req.Object = new(protoobject.Object)
		if vrt.Bool("idPresent") {
			req.Object.ObjectId = &refs.ObjectID{Value: idVal}
		}
		if vrt.Bool("headerPresent") {
			req.Object.Header = new(protoobject.Header)
			if vrt.Bool("containerPresent") {
				c := make([]byte, 32)
				c[0] = 1
				req.Object.Header.ContainerId = &refs.ContainerID{Value: c}
			}
		}
	}
	sig := []byte{9}
	if vrt.Bool("signaturePresent") {
		req.Signature = &refs.Signature{Scheme: refs.SignatureScheme(vrt.IntRange("scheme", 0, 4))}
		if vrt.Bool("keyPresent") {
			req.Signature.Key = sender
		}
		if vrt.Bool("signValuePresent") {
			req.Signature.Sign = sig
		}
	}
	s := &Server{fsChain: c31chain{}, storage: c31storage{}, log: zap.NewNop()}
	resp, err := s.Replicate(context.Background(), req)
	vrt.Assert(err == nil && resp != nil, "the result is reported as a status")
	senderIsNode := bytes.Equal(sender, []byte{0x20}) && (senderNow || senderBefore)
	if c31.stored > 0 {
		vrt.Assert(c31.stored == 1, "stored once")
		vrt.Assert(decodeOK && verdict, "stored only if the signature verifies")
		vrt.Assert(bytes.Equal(verifiedData, idVal) && bytes.Equal(verifiedSig, sig), "the signature is checked over the object ID")
		vrt.Assert(c31.cnrErr == 0 && serverIn, "stored only if the receiving node belongs to the container")
		vrt.Assert(senderIsNode, "stored only if the sender belongs to the container in the current or previous epoch")
		vrt.Reach("stored")
	} else {
		if decodeOK && verdict && serverIn && senderIsNode && c31.cnrErr == 0 {
			vrt.Observe("msg", resp.GetStatus().GetMessage())
		}
		vrt.Assert(resp.GetStatus().GetCode() != 0, "nothing stored: an error status is returned")
		vrt.Reach("refused")
	}
	neofsecdsa.VerifHookDecodeAny, neofsecdsa.VerifHookVerifyAny = nil, nil
}
