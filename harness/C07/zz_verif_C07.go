//go:build verif

package meta

import (
	"errors"

	"github.com/nspcc-dev/neofs-node/internal/vrt"
	apistatus "github.com/nspcc-dev/neofs-sdk-go/client/status"
	"github.com/nspcc-dev/neofs-sdk-go/object"
	oid "github.com/nspcc-dev/neofs-sdk-go/object/id"
)

// VerifC07LockProtects: an object with one or two locks: for every current epoch
// (symbolic) and forked expirations of object and lock, with the lock object
// optionally garbage-marked (removed): a tombstone is rejected exactly while
// the lock is live; expired-object iteration never yields a locked object; a
// lock object cannot be tombstoned; a rejected tombstone leaves no mark.
func VerifC07LockProtects() {
	ep := &vmEpoch{e: 1}
	db := vmNewDB(ep)
	exps := [...]int64{-1, 5, 10}
	expT := exps[vrt.Choice("objectExpiration", 3)]
	expL := exps[1+vrt.Choice("lockExpiration", 2)]
	vrt.Assert(db.Put(vmObj(0, 1, object.TypeRegular, expT, 7)) == nil, "put object")
	l := vmObj(0, 3, object.TypeLock, expL, 0)
	l.AssociateLocked(vmOID(1))
	vrt.Assert(db.Put(l) == nil, "put lock")
	// optionally a second lock (larger ID) with its own expiration
	second := vrt.Bool("secondLock")
	expL2 := exps[1+vrt.Choice("secondLockExpiration", 2)]
	if second {
		l2 := vmObj(0, 4, object.TypeLock, expL2, 0)
		l2.AssociateLocked(vmOID(1))
		vrt.Assert(db.Put(l2) == nil, "put second lock")
	}
	lockRemoved := vrt.Bool("lockObjectRemoved")
	if lockRemoved {
		_, err := db.MarkGarbage(vmCID(0), []oid.ID{vmOID(3)}, GarbageMarkDefault)
		vrt.Assert(err == nil, "operator removes the lock object")
	}
	ep.e = vrt.U64("epoch")
	live := !lockRemoved && ep.e <= uint64(expL) || second && ep.e <= uint64(expL2)

	// expired-object iteration
	sawT := false
	err := db.IterateExpired(ep.e, func(a oid.Address, _ object.Type) error {
		if a.Object() == vmOID(1) {
			sawT = true
		}
		return nil
	})
	vrt.Assert(err == nil, "iteration works")
	expiredT := expT >= 0 && ep.e > uint64(expT)
	vrt.Assert(sawT == (expiredT && !live), "expired iteration yields the object exactly when it is expired and not locked")

	// a tombstone aimed at the lock object itself
	tl := vmObj(0, 5, object.TypeTombstone, 100, 0)
	tl.AssociateDeleted(vmOID(3))
	vrt.Assert(errors.Is(db.Put(tl), ErrLockObjectRemoval), "a lock object cannot be tombstoned")

	// a tombstone aimed at the locked object
	ts := vmObj(0, 2, object.TypeTombstone, 100, 0)
	ts.AssociateDeleted(vmOID(1))
	terr := db.Put(ts)
	if live {
		vrt.Assert(errors.Is(terr, apistatus.ErrObjectLocked), "a tombstone for an object with a live lock is rejected")
		ok, eerr := db.Exists(vmAddr(0, 1), false)
		vrt.Assert(ok && eerr == nil, "the locked object stays available after the rejected tombstone")
		gb, gerr := db.GetGarbage(10)
		vrt.Assert(gerr == nil, "garbage listing works")
		for _, b := range gb {
			for _, id := range b.Objects {
				vrt.Assert(id != vmOID(1), "a rejected tombstone leaves no garbage mark on the locked object")
			}
		}
		vrt.Reach("locked")
	} else {
		vrt.Assert(terr == nil, "without a live lock the tombstone is accepted")
		vrt.Reach("unlocked")
	}
}

// VerifC07LockedSplit: a split object (first part F, last part L carrying the
// parent header P) is stored and P is locked; a tombstone of P arrives through
// the ordinary put or through the batch put of a metabase rebuild. It is not
// accepted, and neither P nor any of its parts gets a garbage mark: GC has
// nothing of the locked object to delete.
func VerifC07LockedSplit() {
	ep := &vmEpoch{e: 3}
	db := vmNewDB(ep)
	first := vmObj(0, 5, object.TypeRegular, -1, 4)
	noID := vmObj(0, 0, object.TypeRegular, -1, 0)
	noID.ResetID()
	first.SetParent(noID)
	par := vmObj(0, 4, object.TypeRegular, -1, 8)
	last := vmObj(0, 6, object.TypeRegular, -1, 4)
	last.SetParent(par)
	last.SetParentID(vmOID(4))
	last.SetFirstID(vmOID(5))
	vrt.Assert(db.Put(first) == nil, "put first part")
	vrt.Assert(db.Put(last) == nil, "put last part")
	l := vmObj(0, 3, object.TypeLock, 10, 0)
	l.AssociateLocked(vmOID(4))
	vrt.Assert(db.Put(l) == nil, "put lock of the split object")
	ep.e = vrt.U64("epoch")
	vrt.Assume(ep.e >= 3 && ep.e <= 10) // the lock is live

	ts := vmObj(0, 2, object.TypeTombstone, 100, 0)
	ts.AssociateDeleted(vmOID(4))
	if vrt.Bool("tombstoneArrivesInRebuildBatch") {
		// the batch put skips objects that are refused for a logical reason
		extra := vmObj(0, 9, object.TypeRegular, -1, 1)
		vrt.Assert(db.PutBatch([]*object.Object{ts, extra}) == nil, "batch put")
		ok, err := db.Exists(vmAddr(0, 2), false)
		vrt.Assert(!ok || err != nil, "a tombstone for a locked split object is not stored by the batch put")
	} else {
		vrt.Assert(errors.Is(db.Put(ts), apistatus.ErrObjectLocked), "a tombstone for a locked split object is rejected")
	}
	gb, gerr := db.GetGarbage(10)
	vrt.Assert(gerr == nil, "garbage listing works")
	for _, b := range gb {
		for _, id := range b.Objects {
			vrt.Assert(id != vmOID(4) && id != vmOID(5) && id != vmOID(6), "a refused tombstone leaves no garbage mark on the locked object or its parts")
		}
	}
	for _, o := range []byte{5, 6} {
		ok, err := db.Exists(vmAddr(0, o), false)
		vrt.Assert(ok && err == nil, "the parts of a locked split object stay available after the refused tombstone")
	}
	locked, lerr := db.IsLocked(vmAddr(0, 4))
	vrt.Assert(lerr == nil && locked, "the split object is still locked")
	vrt.Reach("locked-split")
}
