//go:build verif

package ants

// VerifInline makes Pool.Submit run the task in the caller (the worker pool's
// goroutines are outside the sequential engine). The real method is renamed to
// Submit__real.
var VerifInline bool

func (p *Pool) Submit(task func()) error {
	if VerifInline {
		task()
		return nil
	}
	return p.Submit__real(task)
}
