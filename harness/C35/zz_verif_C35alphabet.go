//go:build verif

package alphabet

import (
	"github.com/nspcc-dev/neo-go/pkg/util"
	"github.com/nspcc-dev/neofs-node/internal/vrt"
	"github.com/nspcc-dev/neofs-node/pkg/morph/client"
	nmClient "github.com/nspcc-dev/neofs-node/pkg/morph/client/netmap"
	"go.uber.org/zap"
)

type c35idx struct{ i int }

func (x c35idx) AlphabetIndex() int { return x.i }

// VerifC35Emit: GAS emission is invoked only by a node whose alphabet index
// (any 64-bit value, negative = not a member) is inside the range of alphabet
// contracts, and only on that node's own contract.
func VerifC35Emit() {
	idx := int(vrt.I64("alphabetIndex"))
	n := 1 + vrt.Choice("alphabetContracts", 3)
	var calls []client.VerifCall
	client.VerifHookSend = func(c client.VerifCall) error {
		calls = append(calls, c)
		return nil
	}
	nmc, err := nmClient.NewFromMorph(&client.Client{}, util.Uint160{0x4e})
	if err != nil {
		panic(err)
	}
	ap := &Processor{log: zap.NewNop(), netmapClient: nmc, fsChainClient: &client.Client{}, irList: c35idx{idx}, storageEmission: vrt.U64("storageEmission")}
	for i := 0; i < n; i++ {
		ap.alphabetContracts = append(ap.alphabetContracts, util.Uint160{byte(0xa0 + i)})
	}
	ap.processEmit()
	member := idx >= 0 && idx < n
	if len(calls) > 0 {
		vrt.Assert(member, "emission is invoked only by a node inside the alphabet range")
		vrt.Assert(calls[0].Method == "emit" && calls[0].Contract == (util.Uint160{byte(0xa0 + idx)}), "the node invokes emit of its own alphabet contract")
		vrt.Reach("emitted")
	} else {
		vrt.Assert(!member, "an alphabet member emits")
		vrt.Reach("silent")
	}
}
