//go:build verif

package peerauth

import "context"

// VerifHookTrusted models "the connection was authenticated during the TLS
// handshake". The real function is renamed to IsTrustedPeer__real.
var VerifHookTrusted func() bool

func IsTrustedPeer(ctx context.Context) bool {
	if h := VerifHookTrusted; h != nil {
		return h()
	}
	return IsTrustedPeer__real(ctx)
}
