//go:build verif

package objectcore

import (
	"github.com/nspcc-dev/neofs-node/internal/signed256"
	"github.com/nspcc-dev/neofs-node/internal/vrt"
)

func c05Digits(s string) bool {
	if len(s) == 0 {
		return false
	}
	for i := 0; i < len(s); i++ {
		if s[i] < '0' || s[i] > '9' {
			return false
		}
	}
	return true
}

func c05Ref(s string) (int64, bool) {
	neg := false
	d := s
	if len(s) > 0 && (s[0] == '+' || s[0] == '-') {
		neg = s[0] == '-'
		d = s[1:]
	}
	if !c05Digits(d) {
		return 0, false
	}
	var v int64
	for i := 0; i < len(d); i++ {
		v = v*10 + int64(d[i]-'0')
	}
	if neg {
		v = -v
	}
	return v, true
}

// VerifC05SplitInt: splitIntString accepts exactly [+-]?[0-9]+; digits normalised.
func VerifC05SplitInt() {
	s := vrt.String("s", vrt.Param("N"))
	neg, digits, err := splitIntString(s)
	want, ok := c05Ref(s)
	vrt.Assert((err == nil) == ok, "splitIntString accepts exactly [+-]?[0-9]+")
	if err == nil && ok {
		vrt.Assert(neg == (want < 0), "sign (minus zero is not negative)")
		vrt.Assert(c05Digits(digits) && (digits == "0" || digits[0] != '0'), "digits are normalised")
		z, perr := signed256.ParseNormalizedDecimal(neg, digits)
		w := signed256.NewInt(want)
		vrt.Assert(perr == nil && z.Cmp(&w) == 0, "filter-side parser value")
		vrt.Reach("accept")
	}
}

// VerifC05Agree: the put side (ParseDecimal) and the query side
// (splitIntString + ParseNormalizedDecimal) treat the same strings as integers
// with the same value.
func VerifC05Agree() {
	s := vrt.String("s", vrt.Param("N"))
	a, errA := signed256.ParseDecimal(s)
	neg, digits, errB := splitIntString(s)
	doubleSign := len(s) >= 2 && (s[0] == '+' || s[0] == '-') && s[1] == '+'
	if doubleSign {
		vrt.Assert((errA == nil) == (errB == nil), "put side and query side agree on strings with a second sign character")
	} else {
		vrt.Assert((errA == nil) == (errB == nil), "put side and query side accept the same strings")
	}
	if errA == nil && errB == nil {
		b, err := signed256.ParseNormalizedDecimal(neg, digits)
		vrt.Assert(err == nil && a == b, "put side and query side agree on the value")
		ka, kb := IntBytes(&a), IntBytes(&b)
		vrt.Assert(string(ka) == string(kb), "same index key")
		vrt.Reach("both")
	}
}

// VerifC05CompareIntStrings: agrees with numeric order on all pairs.
func VerifC05CompareIntStrings() {
	a := vrt.String("a", vrt.Param("NA"))
	b := vrt.String("b", vrt.Param("NB"))
	va, okA := c05Ref(a)
	vb, okB := c05Ref(b)
	c, err := compareIntStrings(a, b)
	vrt.Assert((err == nil) == (okA && okB), "compareIntStrings fails exactly on non-integers")
	if err == nil && okA && okB {
		want := 0
		if va < vb {
			want = -1
		} else if va > vb {
			want = 1
		}
		vrt.Assert(c == want, "compareIntStrings is the numeric order")
		vrt.Reach("cmp")
	}
}
