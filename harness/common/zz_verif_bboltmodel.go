//go:build verif

package bbolt

import (
	"bytes"

	berrors "github.com/nspcc-dev/bbolt/errors"
)

// Functional model of bbolt for the verification harnesses: buckets are sorted
// key/value lists (byte-wise key order, nested buckets, Seek = first key >=
// argument, Update/Batch atomic: rolled back when the function returns an
// error). A DB created by VerifNewModelDB is served by the model; every other
// DB falls through to the real code (methods renamed to <name>__real).

type vBucket struct {
	keys [][]byte
	vals [][]byte
	subs []*vBucket // parallel to keys; non-nil for nested buckets
}

type vDB struct {
	root     *vBucket
	readOnly bool
	writes   int
	// VerifFailCommit makes the next Update/Batch fail at commit (rolled back)
}

type vBktRef struct {
	vb *vBucket
	tx *Tx
}

type vCursor struct {
	ref   *vBktRef
	cur   []byte // current key, nil before First/Seek or at the end
	valid bool
}

var (
	verifDBs  = map[*DB]*vDB{}
	verifTxs  = map[*Tx]*vTx{}
	verifBkts = map[*Bucket]*vBktRef{}
	verifCurs = map[*Cursor]*vCursor{}
)

type vTx struct {
	db       *vDB
	writable bool
	rootBkt  *Bucket
}

// VerifNewModelDB returns a DB served by the model.
func VerifNewModelDB() *DB {
	db := &DB{}
	verifDBs[db] = &vDB{root: &vBucket{}}
	return db
}

// VerifWrites returns the number of mutating calls (Put/Delete/bucket creation
// and deletion) the model database has executed, committed or not.
func VerifWrites(db *DB) int { return verifDBs[db].writes }

func noteWrite(tx *Tx) {
	if vt := verifTxs[tx]; vt != nil {
		vt.db.writes++
	}
}

// VerifSetReadOnly makes Update/Batch on the model DB fail like a read-only database.
func VerifSetReadOnly(db *DB, ro bool) { verifDBs[db].readOnly = ro }

func (vb *vBucket) clone() *vBucket {
	n := &vBucket{keys: make([][]byte, len(vb.keys)), vals: make([][]byte, len(vb.vals)), subs: make([]*vBucket, len(vb.subs))}
	for i := range vb.keys {
		n.keys[i] = vb.keys[i]
		n.vals[i] = vb.vals[i]
		if vb.subs[i] != nil {
			n.subs[i] = vb.subs[i].clone()
		}
	}
	return n
}

// find returns the position of the first key >= k and whether it equals k.
func (vb *vBucket) find(k []byte) (int, bool) {
	for i := range vb.keys {
		c := bytes.Compare(vb.keys[i], k)
		if c == 0 {
			return i, true
		}
		if c > 0 {
			return i, false
		}
	}
	return len(vb.keys), false
}

func (vb *vBucket) insert(i int, k, v []byte, sub *vBucket) {
	vb.keys = append(vb.keys, nil)
	vb.vals = append(vb.vals, nil)
	vb.subs = append(vb.subs, nil)
	copy(vb.keys[i+1:], vb.keys[i:])
	copy(vb.vals[i+1:], vb.vals[i:])
	copy(vb.subs[i+1:], vb.subs[i:])
	vb.keys[i], vb.vals[i], vb.subs[i] = k, v, sub
}

func (vb *vBucket) remove(i int) {
	vb.keys = append(vb.keys[:i:i], vb.keys[i+1:]...)
	vb.vals = append(vb.vals[:i:i], vb.vals[i+1:]...)
	vb.subs = append(vb.subs[:i:i], vb.subs[i+1:]...)
}

func clonedBytes(b []byte) []byte { return append([]byte{}, b...) }

func newBktRef(vb *vBucket, tx *Tx) *Bucket {
	b := &Bucket{}
	verifBkts[b] = &vBktRef{vb: vb, tx: tx}
	return b
}

func (db *DB) runModelTx(v *vDB, writable bool, fn func(*Tx) error) error {
	if writable && v.readOnly {
		return berrors.ErrDatabaseReadOnly
	}
	tx := &Tx{}
	vt := &vTx{db: v, writable: writable}
	verifTxs[tx] = vt
	var snapshot *vBucket
	if writable {
		snapshot = v.root.clone()
	}
	vt.rootBkt = newBktRef(v.root, tx)
	err := fn(tx)
	if err != nil && writable {
		v.root = snapshot
	}
	delete(verifTxs, tx)
	return err
}

func (db *DB) View(fn func(*Tx) error) error {
	if v := verifDBs[db]; v != nil {
		return db.runModelTx(v, false, fn)
	}
	return db.View__real(fn)
}

func (db *DB) Update(fn func(*Tx) error) error {
	if v := verifDBs[db]; v != nil {
		return db.runModelTx(v, true, fn)
	}
	return db.Update__real(fn)
}

func (db *DB) Batch(fn func(*Tx) error) error {
	if v := verifDBs[db]; v != nil {
		return db.runModelTx(v, true, fn)
	}
	return db.Batch__real(fn)
}

func (db *DB) Close() error {
	if v := verifDBs[db]; v != nil {
		return nil
	}
	return db.Close__real()
}

func (db *DB) Sync() error {
	if v := verifDBs[db]; v != nil {
		return nil
	}
	return db.Sync__real()
}

func (tx *Tx) Writable() bool {
	if vt := verifTxs[tx]; vt != nil {
		return vt.writable
	}
	return tx.Writable__real()
}

func (tx *Tx) Bucket(name []byte) *Bucket {
	if vt := verifTxs[tx]; vt != nil {
		return vt.rootBkt.Bucket(name)
	}
	return tx.Bucket__real(name)
}

func (tx *Tx) CreateBucket(name []byte) (*Bucket, error) {
	if vt := verifTxs[tx]; vt != nil {
		return vt.rootBkt.CreateBucket(name)
	}
	return tx.CreateBucket__real(name)
}

func (tx *Tx) CreateBucketIfNotExists(name []byte) (*Bucket, error) {
	if vt := verifTxs[tx]; vt != nil {
		return vt.rootBkt.CreateBucketIfNotExists(name)
	}
	return tx.CreateBucketIfNotExists__real(name)
}

func (tx *Tx) DeleteBucket(name []byte) error {
	if vt := verifTxs[tx]; vt != nil {
		return vt.rootBkt.DeleteBucket(name)
	}
	return tx.DeleteBucket__real(name)
}

func (tx *Tx) ForEach(fn func(name []byte, b *Bucket) error) error {
	if vt := verifTxs[tx]; vt != nil {
		ref := verifBkts[vt.rootBkt]
		keys := append([][]byte(nil), ref.vb.keys...)
		for _, k := range keys {
			if i, ok := ref.vb.find(k); ok && ref.vb.subs[i] != nil {
				if err := fn(k, newBktRef(ref.vb.subs[i], tx)); err != nil {
					return err
				}
			}
		}
		return nil
	}
	return tx.ForEach__real(fn)
}

func (tx *Tx) Cursor() *Cursor {
	if vt := verifTxs[tx]; vt != nil {
		return vt.rootBkt.Cursor()
	}
	return tx.Cursor__real()
}

func (b *Bucket) Writable() bool {
	if ref := verifBkts[b]; ref != nil {
		return verifTxs[ref.tx] != nil && verifTxs[ref.tx].writable
	}
	return b.Writable__real()
}

func (b *Bucket) Tx() *Tx {
	if ref := verifBkts[b]; ref != nil {
		return ref.tx
	}
	return b.Tx__real()
}

func (b *Bucket) Bucket(name []byte) *Bucket {
	if ref := verifBkts[b]; ref != nil {
		if i, ok := ref.vb.find(name); ok && ref.vb.subs[i] != nil {
			return newBktRef(ref.vb.subs[i], ref.tx)
		}
		return nil
	}
	return b.Bucket__real(name)
}

func (b *Bucket) CreateBucket(key []byte) (*Bucket, error) {
	if ref := verifBkts[b]; ref != nil {
		if !b.Writable() {
			return nil, berrors.ErrTxNotWritable
		}
		if len(key) == 0 {
			return nil, berrors.ErrBucketNameRequired
		}
		i, ok := ref.vb.find(key)
		if ok {
			if ref.vb.subs[i] != nil {
				return nil, berrors.ErrBucketExists
			}
			return nil, berrors.ErrIncompatibleValue
		}
		nb := &vBucket{}
		noteWrite(ref.tx)
		ref.vb.insert(i, clonedBytes(key), nil, nb)
		return newBktRef(nb, ref.tx), nil
	}
	return b.CreateBucket__real(key)
}

func (b *Bucket) CreateBucketIfNotExists(key []byte) (*Bucket, error) {
	if ref := verifBkts[b]; ref != nil {
		if i, ok := ref.vb.find(key); ok && ref.vb.subs[i] != nil {
			if !b.Writable() {
				return nil, berrors.ErrTxNotWritable
			}
			return newBktRef(ref.vb.subs[i], ref.tx), nil
		}
		return b.CreateBucket(key)
	}
	return b.CreateBucketIfNotExists__real(key)
}

func (b *Bucket) DeleteBucket(key []byte) error {
	if ref := verifBkts[b]; ref != nil {
		if !b.Writable() {
			return berrors.ErrTxNotWritable
		}
		i, ok := ref.vb.find(key)
		if !ok {
			return berrors.ErrBucketNotFound
		}
		if ref.vb.subs[i] == nil {
			return berrors.ErrIncompatibleValue
		}
		noteWrite(ref.tx)
		ref.vb.remove(i)
		return nil
	}
	return b.DeleteBucket__real(key)
}

func (b *Bucket) Get(key []byte) []byte {
	if ref := verifBkts[b]; ref != nil {
		if i, ok := ref.vb.find(key); ok && ref.vb.subs[i] == nil {
			return ref.vb.vals[i]
		}
		return nil
	}
	return b.Get__real(key)
}

func (b *Bucket) Put(key []byte, value []byte) error {
	if ref := verifBkts[b]; ref != nil {
		if !b.Writable() {
			return berrors.ErrTxNotWritable
		}
		if len(key) == 0 {
			return berrors.ErrKeyRequired
		}
		i, ok := ref.vb.find(key)
		v := clonedBytes(value)
		noteWrite(ref.tx)
		if ok {
			if ref.vb.subs[i] != nil {
				return berrors.ErrIncompatibleValue
			}
			ref.vb.vals[i] = v
			return nil
		}
		ref.vb.insert(i, clonedBytes(key), v, nil)
		return nil
	}
	return b.Put__real(key, value)
}

func (b *Bucket) Delete(key []byte) error {
	if ref := verifBkts[b]; ref != nil {
		if !b.Writable() {
			return berrors.ErrTxNotWritable
		}
		i, ok := ref.vb.find(key)
		if !ok {
			return nil
		}
		if ref.vb.subs[i] != nil {
			return berrors.ErrIncompatibleValue
		}
		noteWrite(ref.tx)
		ref.vb.remove(i)
		return nil
	}
	return b.Delete__real(key)
}

func (b *Bucket) ForEach(fn func(k, v []byte) error) error {
	if ref := verifBkts[b]; ref != nil {
		c := b.Cursor()
		for k, v := c.First(); k != nil; k, v = c.Next() {
			if err := fn(k, v); err != nil {
				return err
			}
		}
		return nil
	}
	return b.ForEach__real(fn)
}

func (b *Bucket) Cursor() *Cursor {
	if ref := verifBkts[b]; ref != nil {
		c := &Cursor{}
		verifCurs[c] = &vCursor{ref: ref}
		return c
	}
	return b.Cursor__real()
}

func (vc *vCursor) at(i int) ([]byte, []byte) {
	vb := vc.ref.vb
	if i < 0 || i >= len(vb.keys) {
		vc.valid = false
		vc.cur = nil
		return nil, nil
	}
	vc.valid = true
	vc.cur = vb.keys[i]
	if vb.subs[i] != nil {
		return vb.keys[i], nil
	}
	v := vb.vals[i]
	if v == nil {
		v = []byte{}
	}
	return vb.keys[i], v
}

func (c *Cursor) Bucket() *Bucket {
	if vc := verifCurs[c]; vc != nil {
		return newBktRef(vc.ref.vb, vc.ref.tx)
	}
	return c.Bucket__real()
}

func (c *Cursor) First() ([]byte, []byte) {
	if vc := verifCurs[c]; vc != nil {
		return vc.at(0)
	}
	return c.First__real()
}

func (c *Cursor) Last() ([]byte, []byte) {
	if vc := verifCurs[c]; vc != nil {
		return vc.at(len(vc.ref.vb.keys) - 1)
	}
	return c.Last__real()
}

func (c *Cursor) Seek(seek []byte) ([]byte, []byte) {
	if vc := verifCurs[c]; vc != nil {
		i, _ := vc.ref.vb.find(seek)
		return vc.at(i)
	}
	return c.Seek__real(seek)
}

func (c *Cursor) Next() ([]byte, []byte) {
	if vc := verifCurs[c]; vc != nil {
		if !vc.valid {
			return nil, nil
		}
		i, ok := vc.ref.vb.find(vc.cur)
		if ok {
			i++
		}
		return vc.at(i)
	}
	return c.Next__real()
}

func (c *Cursor) Prev() ([]byte, []byte) {
	if vc := verifCurs[c]; vc != nil {
		if !vc.valid {
			return nil, nil
		}
		i, _ := vc.ref.vb.find(vc.cur)
		return vc.at(i - 1)
	}
	return c.Prev__real()
}

func (c *Cursor) Delete() error {
	if vc := verifCurs[c]; vc != nil {
		if verifTxs[vc.ref.tx] == nil || !verifTxs[vc.ref.tx].writable {
			return berrors.ErrTxNotWritable
		}
		if !vc.valid {
			return nil
		}
		i, ok := vc.ref.vb.find(vc.cur)
		if !ok {
			return nil
		}
		if vc.ref.vb.subs[i] != nil {
			return berrors.ErrIncompatibleValue
		}
		noteWrite(vc.ref.tx)
		vc.ref.vb.remove(i)
		return nil
	}
	return c.Delete__real()
}
