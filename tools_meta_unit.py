#!/usr/bin/env python3
# helper: returns the harness unit template for metabase-package harnesses running on the bbolt model
import json
def meta_unit(files, entries, tiers=None, pkg="./pkg/local_object_storage/metabase", extra_files=None, extra_rename=None, extra_mods=None):
    f={"../common/zz_verif_metacommon.go":"pkg/local_object_storage/metabase","../common/zz_verif_bboltmodel.go":"mod:github.com/nspcc-dev/bbolt"}
    for x in files: f[x]=pkg[2:]
    if extra_files: f.update(extra_files)
    u={"package":pkg,"files":f,"replace_mods":["github.com/nspcc-dev/bbolt"]+(extra_mods or []),
     "rename":[
      {"file":"mod:github.com/nspcc-dev/bbolt/db.go","funcs":["DB.View","DB.Update","DB.Batch","DB.Close","DB.Sync"]},
      {"file":"mod:github.com/nspcc-dev/bbolt/tx.go","funcs":["Tx.Writable","Tx.Bucket","Tx.CreateBucket","Tx.CreateBucketIfNotExists","Tx.DeleteBucket","Tx.ForEach","Tx.Cursor"]},
      {"file":"mod:github.com/nspcc-dev/bbolt/bucket.go","funcs":["Bucket.Writable","Bucket.Tx","Bucket.Bucket","Bucket.CreateBucket","Bucket.CreateBucketIfNotExists","Bucket.DeleteBucket","Bucket.Get","Bucket.Put","Bucket.Delete","Bucket.ForEach","Bucket.Cursor"]},
      {"file":"mod:github.com/nspcc-dev/bbolt/cursor.go","funcs":["Cursor.Bucket","Cursor.First","Cursor.Last","Cursor.Seek","Cursor.Next","Cursor.Prev","Cursor.Delete"]},
      {"file":"pkg/local_object_storage/metabase/mode.go","funcs":["DB.SetMode"]}]+(extra_rename or []),
     "entries":entries,"tiers":tiers or {"quick":{"unwind":200},"thorough":{"unwind":200}},"replay":"native"}
    return u
BBOLT_ASSUMPTION="bbolt is a functional model (sorted key/value buckets, Seek = first key >= argument, atomic Update/Batch rolled back on error) injected by a rename overlay of a scratch copy of the bbolt module"
def write(prop, units, assumptions, outside, stubs=None):
    h={"property":prop,"units":units,"assumptions":[BBOLT_ASSUMPTION]+assumptions,"outside_bounds":outside,"stubs_described":["bbolt DB/Tx/Bucket/Cursor -> functional model"]+(stubs or [])}
    json.dump(h,open(f'/verif/harness/{prop}/harness.json','w'),indent=1)
