//go:build verif

package policer

import (
	"context"
	"errors"
	"io"

	iec "github.com/nspcc-dev/neofs-node/internal/ec"
	"github.com/nspcc-dev/neofs-node/internal/vrt"
	objectcore "github.com/nspcc-dev/neofs-node/pkg/core/object"
	"github.com/nspcc-dev/neofs-node/pkg/local_object_storage/engine"
	"github.com/nspcc-dev/neofs-node/pkg/services/replicator"
	apistatus "github.com/nspcc-dev/neofs-sdk-go/client/status"
	cid "github.com/nspcc-dev/neofs-sdk-go/container/id"
	"github.com/nspcc-dev/neofs-sdk-go/netmap"
	"github.com/nspcc-dev/neofs-sdk-go/object"
	oid "github.com/nspcc-dev/neofs-sdk-go/object/id"
	"go.uber.org/zap"
)

const (
	c26Local = 0 // node index of the local node
	c26N     = 5 // node universe: 0 local, 1..4 remote
)

// answers of a remote node to the header request
const (
	c26Has = iota
	c26NotFound
	c26Maintenance
	c26Unreachable
	c26Answers
)

type c26world struct {
	lists     [][]int // node indices per replication rule
	copies    []uint
	inNetmap  bool
	answer    [c26N]int
	netmapMnt [c26N]bool // maintenance flag in the network map
	confirmed [c26N]bool // header read OK or replication reported success
	headCalls [c26N]int
	typ       object.Type
	deleted   bool
}

var c26 c26world

// c26me is the node whose policer runs (the cluster simulation of C27 lets every
// node take the turn); c26sim, when on, derives the nodes' answers from a shared
// cluster state in which replication to a reachable node succeeds.
var (
	c26me  = c26Local
	c26sim struct {
		on    bool
		holds [c26N]bool
		tasks int
	}
)

func c26node(i int) netmap.NodeInfo {
	var n netmap.NodeInfo
	n.SetPublicKey([]byte{0xA0 + byte(i)})
	if c26.netmapMnt[i] {
		n.SetMaintenance()
	}
	return n
}

func c26index(n netmap.NodeInfo) int { return int(n.PublicKey()[0] - 0xA0) }

type c26net struct{}

func (c26net) IsLocalNodeInNetmap() bool { return c26.inNetmap }
func (c26net) GetNodesForObject(oid.Address) ([][]netmap.NodeInfo, []uint, []iec.Rule, error) {
	nn := make([][]netmap.NodeInfo, len(c26.lists))
	for i, l := range c26.lists {
		for _, j := range l {
			nn[i] = append(nn[i], c26node(j))
		}
	}
	return nn, c26.copies, nil, nil
}
func (c26net) IsLocalNodePublicKey(k []byte) bool { return len(k) == 1 && k[0] == 0xA0+byte(c26me) }

type c26conns struct{}

func (c26conns) headObject(_ context.Context, n netmap.NodeInfo, _ oid.Address, _ bool, _ []string) (object.Object, error) {
	i := c26index(n)
	c26.headCalls[i]++
	if c26sim.on {
		if c26sim.holds[i] {
			c26.confirmed[i] = true
			return object.Object{}, nil
		}
		return object.Object{}, apistatus.ErrObjectNotFound
	}
	switch c26.answer[i] {
	case c26Has:
		c26.confirmed[i] = true
		return object.Object{}, nil
	case c26NotFound:
		return object.Object{}, apistatus.ErrObjectNotFound
	case c26Maintenance:
		return object.Object{}, apistatus.ErrNodeUnderMaintenance
	}
	return object.Object{}, errors.New("connection refused")
}
func (c26conns) GetRange(context.Context, netmap.NodeInfo, cid.ID, oid.ID, uint64, uint64, []string) (io.ReadCloser, error) {
	return nil, errors.New("not used")
}

type c26repl struct{}

func (c26repl) HandleTask(_ context.Context, t replicator.Task, res replicator.TaskResult) {
	left := t.VerifQuantity()
	if c26sim.on {
		c26sim.tasks++
		for _, n := range t.Nodes() {
			if left == 0 {
				break
			}
			c26sim.holds[c26index(n)] = true
			c26.confirmed[c26index(n)] = true
			res.SubmitSuccessfulReplication(n)
			left--
		}
		return
	}
	for _, n := range t.Nodes() {
		if left == 0 {
			break
		}
		if vrt.Bool("replicationSucceeds") {
			c26.confirmed[c26index(n)] = true
			res.SubmitSuccessfulReplication(n)
			left--
		}
	}
}

type c26store struct{}

// c26checkRemoval is the property: called whenever the policer removes the local copy.
func c26checkRemoval() {
	c26.deleted = true
	listed := false
	for r, l := range c26.lists {
		hasLocal := false
		n := uint(0)
		for _, j := range l {
			if j == c26me {
				hasLocal = true
			} else if c26.confirmed[j] {
				n++
			}
		}
		if hasLocal {
			listed = true
			vrt.Assert(n >= c26.copies[r], "the local copy is removed only when enough other nodes of every rule listing the local node are confirmed holders")
		}
	}
	if listed {
		vrt.Assert(c26.typ != object.TypeLock && c26.typ != object.TypeLink, "lock and link objects are never removed from container nodes")
	} else {
		any := false
		for j := 1; j < c26N; j++ {
			any = any || c26.confirmed[j]
		}
		vrt.Assert(c26.inNetmap, "a node outside the network map keeps its copy")
		mnt := false
		for j := 1; j < c26N; j++ {
			mnt = mnt || c26.netmapMnt[j] || c26.answer[j] == c26Maintenance
		}
		if mnt {
			vrt.Assert(any, "a node outside the container removes its copy only when some container node is a confirmed holder (some container node is under maintenance; maintenance and unreachable nodes do not count)")
		} else {
			vrt.Assert(any, "a node outside the container removes its copy only when some container node is a confirmed holder (unreachable nodes do not count)")
		}
	}
}

func (c26store) Delete(context.Context, oid.Address, engine.GarbageMark) error {
	c26checkRemoval()
	if c26sim.on {
		c26sim.holds[c26me] = false
	}
	return nil
}
func (c26store) DeleteRedundantCopies(context.Context, oid.Address, []string) error {
	vrt.Assert(c26.typ == object.TypeRegular, "shard-level duplicates of tombstone, lock and link objects are kept")
	return nil
}
func (c26store) ListWithCursor(context.Context, uint32, *engine.Cursor, ...string) ([]objectcore.AddressWithAttributes, *engine.Cursor, error) {
	return nil, nil, errors.New("not used")
}
func (c26store) Put(context.Context, *object.Object, []byte) error { return nil }
func (c26store) Head(context.Context, oid.Address, bool) (*object.Object, error) {
	return nil, errors.New("not used")
}
func (c26store) HeadECPart(context.Context, cid.ID, oid.ID, iec.PartInfo) (object.Object, error) {
	return object.Object{}, errors.New("not used")
}
func (c26store) GetRange(context.Context, oid.Address, uint64, uint64) ([]byte, error) {
	return nil, errors.New("not used")
}

// node lists of the explored placements: up to two replication rules over the
// universe {local, 1, 2, 3}; the local node at every position or absent; a node
// shared between the rules.
var c26placements = []struct {
	lists  [][]int
	copies []uint
}{
	{[][]int{{0, 1}}, []uint{1}},
	{[][]int{{1, 0}}, []uint{1}},
	{[][]int{{1, 2, 0}}, []uint{2}},
	{[][]int{{1, 0, 2}}, []uint{2}},
	{[][]int{{1, 2, 3, 0}}, []uint{2}},
	{[][]int{{1, 2, 3}}, []uint{2}},
	{[][]int{{1, 2, 3}}, []uint{3}},
	{[][]int{{1, 2}, {1, 0}}, []uint{2, 1}},
	{[][]int{{1, 0}, {2, 3, 0}}, []uint{1, 2}},
	{[][]int{{0, 1, 2}, {3, 0}}, []uint{2, 1}},
}

// VerifC26Policer: processObject for a replicated object over every explored
// placement, every combination of remote answers (holds / not found /
// maintenance status / unreachable), netmap maintenance flags, replication
// outcomes, object types and network-map membership of the local node.
func VerifC26Policer() {
	pl := c26placements[vrt.Choice("placement", len(c26placements))]
	c26 = c26world{lists: pl.lists, copies: pl.copies}
	c26.inNetmap = vrt.Bool("localNodeInNetmap")
	types := [...]object.Type{object.TypeRegular, object.TypeTombstone, object.TypeLock, object.TypeLink}
	c26.typ = types[vrt.Choice("objectType", len(types))]
	used := [c26N]bool{}
	for _, l := range pl.lists {
		for _, j := range l {
			used[j] = true
		}
	}
	for j := 1; j < c26N; j++ {
		if used[j] {
			c26.answer[j] = vrt.Choice("answer", c26Answers)
			c26.netmapMnt[j] = j == 1 && vrt.Bool("netmapMaintenance")
		}
	}
	p := &Policer{cfg: defaultCfg()}
	p.log = zap.NewNop()
	p.network, p.apiConns, p.replicator, p.localStorage = c26net{}, c26conns{}, c26repl{}, c26store{}
	var a oid.Address
	obj := objectcore.AddressWithAttributes{Address: a, Type: c26.typ, Attributes: []string{"", "", ""}, ShardIDs: []string{"s1", "s2"}}
	p.processObject(context.Background(), obj)
	if c26.deleted {
		vrt.Reach("removed")
	}
	vrt.Reach("end")
}
