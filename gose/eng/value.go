package eng

import (
	"fmt"
	"go/types"
	"strings"

	"golang.org/x/tools/go/ssa"
)

// Value is one of:
//   *Term            integers (BV of the Go width) and bools
//   FloatV           concrete float
//   ComplexV         concrete complex
//   *Str             string (concrete length, possibly symbolic bytes)
//   Struct           []Value, copied on load/store
//   Array            []Value, copied on load/store
//   Slice            slice header over []Value
//   *Value           pointer (nil = (*Value)(nil))
//   *IdxPtr          pointer to an element chosen by a symbolic index
//   *Map             map (nil map = (*Map)(nil))
//   Iface            interface value (T == nil => nil interface)
//   *ssa.Function, *ssa.Builtin, *Closure   functions; nil func = (*Closure)(nil)
//   Tuple            multiple results
//   *Chan            channel
//   *MapIter / *StrIter  range iterators
//   *BigV            math/big value held in Int theory (stored inside big.Int slot)
//   UnsafePtr        unsafe.Pointer wrapping a pointer value
type Value any

type FloatV float64
type ComplexV complex128

type Str struct {
	S   string  // valid when Sym == nil
	Sym []*Term // BV8 terms; when non-nil it is the content
}

type Struct []Value
type Array []Value

// Slice mirrors a Go slice: len(A)/cap(A) are the Go len/cap, A == nil is the nil slice.
type Slice struct {
	A []Value
}

type Tuple []Value

type Iface struct {
	T types.Type
	V Value
}

type Closure struct {
	Fn  *ssa.Function
	Env []Value
}

type Chan struct {
	Buf    []Value
	Cap    int
	Closed bool
}

type UnsafePtr struct{ P Value }

// IdxPtr denotes &A[Idx] with symbolic Idx known to be in [0,len(A)).
type IdxPtr struct {
	A   []Value
	Idx *Term // BV64
}

type BigV struct{ T *Term } // Int sort

type Map struct {
	Keys  []Value
	Vals  []Value
	Index map[string]int // canonical concrete key -> position
	KT    types.Type
}

type MapIter struct {
	M   *Map
	Pos int
	// snapshot of keys at range start
	Keys []Value
}

type StrIter struct {
	S   *Str
	Pos int
}

func mkStr(s string) *Str { return &Str{S: s} }

func (s *Str) Len() int {
	if s.Sym != nil {
		return len(s.Sym)
	}
	return len(s.S)
}

func (s *Str) At(i int) *Term {
	if s.Sym != nil {
		return s.Sym[i]
	}
	return ConstBV(8, uint64(s.S[i]))
}

func (s *Str) Concrete() (string, bool) {
	if s.Sym == nil {
		return s.S, true
	}
	bs := make([]byte, len(s.Sym))
	for i, t := range s.Sym {
		if !t.IsConst() {
			return "", false
		}
		bs[i] = byte(t.C)
	}
	return string(bs), true
}

func strFromTerms(ts []*Term) *Str {
	all := true
	for _, t := range ts {
		if !t.IsConst() {
			all = false
			break
		}
	}
	if all {
		bs := make([]byte, len(ts))
		for i, t := range ts {
			bs[i] = byte(t.C)
		}
		return &Str{S: string(bs)}
	}
	return &Str{Sym: ts}
}

func (s *Str) Terms() []*Term {
	if s.Sym != nil {
		return s.Sym
	}
	ts := make([]*Term, len(s.S))
	for i := 0; i < len(s.S); i++ {
		ts[i] = ConstBV(8, uint64(s.S[i]))
	}
	return ts
}

func (s *Str) Sub(lo, hi int) *Str {
	if s.Sym != nil {
		return strFromTerms(s.Sym[lo:hi])
	}
	return &Str{S: s.S[lo:hi]}
}

func intWidth(t types.Type) (w int, signed bool, ok bool) {
	b, isB := t.Underlying().(*types.Basic)
	if !isB {
		return 0, false, false
	}
	switch b.Kind() {
	case types.Int8:
		return 8, true, true
	case types.Int16:
		return 16, true, true
	case types.Int32:
		return 32, true, true
	case types.Int64, types.Int, types.UntypedInt, types.UntypedRune:
		return 64, true, true
	case types.Uint8:
		return 8, false, true
	case types.Uint16:
		return 16, false, true
	case types.Uint32:
		return 32, false, true
	case types.Uint64, types.Uint, types.Uintptr:
		return 64, false, true
	}
	return 0, false, false
}

func isBool(t types.Type) bool {
	b, ok := t.Underlying().(*types.Basic)
	return ok && b.Info()&types.IsBoolean != 0
}
func isString(t types.Type) bool {
	b, ok := t.Underlying().(*types.Basic)
	return ok && b.Info()&types.IsString != 0
}
func isFloat(t types.Type) bool {
	b, ok := t.Underlying().(*types.Basic)
	return ok && b.Info()&types.IsFloat != 0
}
func isComplex(t types.Type) bool {
	b, ok := t.Underlying().(*types.Basic)
	return ok && b.Info()&types.IsComplex != 0
}

// zero returns the zero value of type t.
func zero(t types.Type) Value {
	switch u := t.Underlying().(type) {
	case *types.Basic:
		if w, _, ok := intWidth(t); ok {
			return ConstBV(w, 0)
		}
		switch {
		case u.Info()&types.IsBoolean != 0:
			return FalseT
		case u.Info()&types.IsString != 0:
			return mkStr("")
		case u.Info()&types.IsFloat != 0:
			return FloatV(0)
		case u.Info()&types.IsComplex != 0:
			return ComplexV(0)
		case u.Kind() == types.UnsafePointer:
			return UnsafePtr{}
		case u.Kind() == types.UntypedNil:
			return nil
		}
		panic(fmt.Sprintf("zero: basic %v", u))
	case *types.Struct:
		s := make(Struct, u.NumFields())
		for i := range s {
			s[i] = zero(u.Field(i).Type())
		}
		return s
	case *types.Array:
		a := make(Array, u.Len())
		if u.Len() > 0 {
			z := zero(u.Elem())
			switch z.(type) {
			case Struct, Array:
				for i := range a {
					a[i] = zero(u.Elem())
				}
			default:
				for i := range a {
					a[i] = z
				}
			}
		}
		return a
	case *types.Pointer:
		return (*Value)(nil)
	case *types.Slice:
		return Slice{}
	case *types.Map:
		return (*Map)(nil)
	case *types.Interface:
		return Iface{}
	case *types.Signature:
		return (*Closure)(nil)
	case *types.Chan:
		return (*Chan)(nil)
	case *types.Tuple:
		tp := make(Tuple, u.Len())
		for i := range tp {
			tp[i] = zero(u.At(i).Type())
		}
		return tp
	case *types.TypeParam:
		panic("zero of type parameter (generics must be instantiated)")
	}
	panic(fmt.Sprintf("zero: unhandled type %T %v", t.Underlying(), t))
}

// copyVal copies aggregate values (structs, arrays) so that stores do not alias.
func copyVal(v Value) Value {
	switch x := v.(type) {
	case Struct:
		n := make(Struct, len(x))
		for i, e := range x {
			n[i] = copyVal(e)
		}
		return n
	case Array:
		n := make(Array, len(x))
		for i, e := range x {
			n[i] = copyVal(e)
		}
		return n
	}
	return v
}

func isNilPtr(v Value) bool {
	switch p := v.(type) {
	case *Value:
		return p == nil
	case *IdxPtr:
		return p == nil
	case UnsafePtr:
		return p.P == nil || isNilPtr(p.P)
	case nil:
		return true
	}
	return false
}

func typeKey(t types.Type) string { return types.TypeString(t, nil) }

// canonKey returns a canonical string for a fully concrete comparable value.
func canonKey(v Value) (string, bool) {
	var sb strings.Builder
	if !writeKey(&sb, v) {
		return "", false
	}
	return sb.String(), true
}

func writeKey(sb *strings.Builder, v Value) bool {
	switch x := v.(type) {
	case *Term:
		if !x.IsConst() {
			return false
		}
		fmt.Fprintf(sb, "i%d:%d;", x.S.W, x.C)
	case *Str:
		s, ok := x.Concrete()
		if !ok {
			return false
		}
		fmt.Fprintf(sb, "s%d:%s;", len(s), s)
	case FloatV:
		fmt.Fprintf(sb, "f%v;", float64(x))
	case Struct:
		sb.WriteString("{")
		for _, e := range x {
			if !writeKey(sb, e) {
				return false
			}
		}
		sb.WriteString("}")
	case Array:
		sb.WriteString("[")
		for _, e := range x {
			if !writeKey(sb, e) {
				return false
			}
		}
		sb.WriteString("]")
	case *Value:
		fmt.Fprintf(sb, "p%p;", x)
	case Iface:
		if x.T == nil {
			sb.WriteString("nil;")
		} else {
			sb.WriteString("I" + typeKey(x.T) + ":")
			if !writeKey(sb, x.V) {
				return false
			}
		}
	case *Chan:
		fmt.Fprintf(sb, "c%p;", x)
	case *Map:
		fmt.Fprintf(sb, "m%p;", x)
	case *Closure:
		fmt.Fprintf(sb, "F%p;", x)
	case *ssa.Function:
		fmt.Fprintf(sb, "F%p;", x)
	case UnsafePtr:
		fmt.Fprintf(sb, "u%p;", x.P)
	case nil:
		sb.WriteString("nil;")
	default:
		return false
	}
	return true
}

func describe(v Value) string {
	switch x := v.(type) {
	case *Term:
		return x.String()
	case *Str:
		if s, ok := x.Concrete(); ok {
			return fmt.Sprintf("%q", s)
		}
		return fmt.Sprintf("<sym string len %d>", len(x.Sym))
	case Iface:
		if x.T == nil {
			return "nil"
		}
		return fmt.Sprintf("(%s)%s", x.T, describe(x.V))
	case Struct:
		var parts []string
		for _, e := range x {
			parts = append(parts, describe(e))
		}
		return "{" + strings.Join(parts, ",") + "}"
	case *Value:
		if x == nil {
			return "nil"
		}
		return "&" + describe(*x)
	}
	return fmt.Sprintf("%T", v)
}
