//go:build verif

package engine

import (
	"github.com/nspcc-dev/neofs-node/internal/vrt"
	oid "github.com/nspcc-dev/neofs-sdk-go/object/id"
)

// verifShardOrder, when set, makes sortedShards return the shards in an
// arbitrary (forked) order instead of the HRW order, which depends on hashes.
var verifShardOrder bool

func (e *StorageEngine) sortedShards(id oid.ID) []shardWrapper {
	if !verifShardOrder {
		return e.sortedShards__real(id)
	}
	// shards by their model index, then a forked permutation
	byIdx := make([]shardWrapper, len(e.shards))
	for _, sh := range e.shards {
		byIdx[sh.Shard.VerifIndex()] = sh
	}
	res := make([]shardWrapper, 0, len(byIdx))
	for len(byIdx) > 0 {
		c := 0
		if len(byIdx) > 1 {
			c = vrt.Choice("shardOrder", len(byIdx))
		}
		sh := byIdx[c]
		sh.shardIface = sh.Shard
		res = append(res, sh)
		byIdx = append(byIdx[:c:c], byIdx[c+1:]...)
	}
	return res
}
