package eng

import (
	"fmt"
	"go/ast"
	"go/constant"
	"go/token"
	"go/types"
	"math/big"
	"strings"

	"golang.org/x/tools/go/ssa"
)

// goPanic is a Go-level panic in the interpreted program.
type goPanic struct {
	val   Value // the panic value (usually Iface)
	msg   string
	stack []string
}

// abort ends the current path for an engine-level reason.
type abort struct {
	kind string // infeasible | unwind | depth | steps | unsupported | blocked | exit
	msg  string
}

type undoRec struct {
	p   *Value
	old Value
	m   *Map // map undo: restore whole map snapshot
	mk  []Value
	mv  []Value
}

type fnInfo struct {
	idx      map[ssa.Value]int
	n        int
	override *ssa.Function
	intr     intrinsic
	resolved bool
}

type deferred struct {
	fn   Value
	args []Value
	call *ssa.CallCommon
}

type frame struct {
	fn       *ssa.Function
	info     *fnInfo
	locals   []Value
	env      []Value
	defers   []deferred
	panic    *goPanic
	caller   *frame
	isDefer  bool // invoked directly by a panicking frame's defer loop
	visits   []int32
	lastDec  []int32
	result   Value
	runningD bool
}

type intrinsic func(in *Interp, fr *frame, fn *ssa.Function, args []Value) Value

type Interp struct {
	prog     *ssa.Program
	tb       *TB
	P        *Path
	cfg      *RunConfig
	globals  map[*ssa.Global]*Value
	inited   map[*ssa.Package]bool
	fnInfos  map[*ssa.Function]*fnInfo
	consts   map[*ssa.Const]Value
	methods  map[string]*ssa.Function
	undo     []undoRec
	noUndo   int
	depth    int
	steps    int64
	stubs    map[string]*ssa.Function
	cur      *frame
	fnsSeen  map[*ssa.Function]int64 // executed instruction counts per function
	typeVals map[string]Value
	chanUndo []chanUndoRec
	deferCall bool
	syncMaps map[*Value]*Map
	// streaming SHA-256 digests: bytes written so far
	shaStreams map[*Value]*[]Value
	lateCache map[*ssa.Return][]bool
	lateStoreCache map[*ssa.Store]bool
}

func NewInterp(prog *ssa.Program, cfg *RunConfig) *Interp {
	return &Interp{
		prog:    prog,
		tb:      NewTB(),
		cfg:     cfg,
		globals: map[*ssa.Global]*Value{},
		inited:  map[*ssa.Package]bool{},
		fnInfos: map[*ssa.Function]*fnInfo{},
		consts:  map[*ssa.Const]Value{},
		methods: map[string]*ssa.Function{},
		stubs:   map[string]*ssa.Function{},
		fnsSeen: map[*ssa.Function]int64{},
	}
}

func (in *Interp) abortf(kind, format string, a ...any) {
	panic(&abort{kind: kind, msg: fmt.Sprintf(format, a...)})
}

func (in *Interp) unsupported(format string, a ...any) {
	where := ""
	if in.cur != nil {
		where = " in " + strings.Join(in.stack(), " <- ")
	}
	panic(&abort{kind: "unsupported", msg: fmt.Sprintf(format, a...) + where})
}

// gopanic raises a Go-level panic with a runtime-error-like message.
func (in *Interp) gopanic(msg string) {
	panic(&goPanic{val: Iface{T: nil, V: mkStr(msg)}, msg: msg, stack: in.stack()})
}

func (in *Interp) stack() []string {
	var s []string
	for f := in.cur; f != nil && len(s) < 12; f = f.caller {
		s = append(s, f.fn.String())
	}
	return s
}

// ---- memory ----

func (in *Interp) storeLeaf(p *Value, v Value) {
	if in.noUndo == 0 {
		in.undo = append(in.undo, undoRec{p: p, old: *p})
	}
	*p = v
}

// store writes v into *p, element-wise for aggregates so that interior
// pointers stay valid.
func (in *Interp) store(p *Value, v Value) {
	switch x := v.(type) {
	case Struct:
		if a, ok := (*p).(Struct); ok && len(a) == len(x) {
			for i := range a {
				in.store(&a[i], x[i])
			}
			return
		}
		in.storeLeaf(p, copyVal(v))
	case Array:
		if a, ok := (*p).(Array); ok && len(a) == len(x) {
			for i := range a {
				in.store(&a[i], x[i])
			}
			return
		}
		in.storeLeaf(p, copyVal(v))
	default:
		in.storeLeaf(p, v)
	}
}

func (in *Interp) load(p Value) Value {
	switch x := p.(type) {
	case *Value:
		if x == nil {
			in.gopanic("runtime error: invalid memory address or nil pointer dereference")
		}
		return copyVal(*x)
	case *IdxPtr:
		return in.loadIdx(x)
	case UnsafePtr:
		return in.load(x.P)
	}
	in.unsupported("load through %T", p)
	return nil
}

func (in *Interp) storeTo(p Value, v Value) {
	switch x := p.(type) {
	case *Value:
		if x == nil {
			in.gopanic("runtime error: invalid memory address or nil pointer dereference")
		}
		in.store(x, v)
	case *IdxPtr:
		in.storeIdx(x, v)
	default:
		in.unsupported("store through %T", p)
	}
}

func (in *Interp) iteVal(c *Term, a, b Value) Value {
	switch x := a.(type) {
	case *Term:
		return in.tb.Ite(c, x, b.(*Term))
	case Struct:
		y := b.(Struct)
		r := make(Struct, len(x))
		for i := range x {
			r[i] = in.iteVal(c, x[i], y[i])
		}
		return r
	case Array:
		y := b.(Array)
		r := make(Array, len(x))
		for i := range x {
			r[i] = in.iteVal(c, x[i], y[i])
		}
		return r
	}
	// non-scalar: must be identical
	if ka, ok := canonKey(a); ok {
		if kb, ok2 := canonKey(b); ok2 && ka == kb {
			return a
		}
	}
	in.unsupported("ite over %T", a)
	return nil
}

func (in *Interp) loadIdx(p *IdxPtr) Value {
	n := len(p.A)
	r := copyVal(p.A[n-1])
	for i := n - 2; i >= 0; i-- {
		r = in.iteVal(in.tb.Eq(p.Idx, ConstBV(64, uint64(i))), copyVal(p.A[i]), r)
	}
	return r
}

func (in *Interp) storeIdx(p *IdxPtr, v Value) {
	for i := range p.A {
		c := in.tb.Eq(p.Idx, ConstBV(64, uint64(i)))
		in.store(&p.A[i], in.iteVal(c, v, copyVal(p.A[i])))
	}
}

func (in *Interp) undoAll() {
	for i := len(in.undo) - 1; i >= 0; i-- {
		u := in.undo[i]
		if u.m != nil {
			u.m.Keys = u.mk
			u.m.Vals = u.mv
			u.m.reindex()
			continue
		}
		*u.p = u.old
	}
	in.undo = in.undo[:0]
}

// ---- globals / init ----

func (in *Interp) global(g *ssa.Global) *Value {
	if p, ok := in.globals[g]; ok {
		return p
	}
	pkg := g.Pkg
	// allocate all globals of the package, then run its init lazily
	for _, m := range pkg.Members {
		if gg, ok := m.(*ssa.Global); ok {
			if _, done := in.globals[gg]; !done {
				v := zero(gg.Type().(*types.Pointer).Elem())
				in.globals[gg] = &v
			}
		}
	}
	in.initPkg(pkg)
	return in.globals[g]
}

func (in *Interp) initPkg(pkg *ssa.Package) {
	if in.inited[pkg] {
		return
	}
	in.inited[pkg] = true
	if in.cfg.skipInit(pkg.Pkg.Path()) {
		in.cfg.note("package %s: init skipped by configuration, its globals keep zero values", pkg.Pkg.Path())
		return
	}
	initFn := pkg.Func("init")
	if initFn == nil || len(initFn.Blocks) == 0 {
		return
	}
	in.noUndo++
	savedCur := in.cur
	savedDepth := in.depth
	savedP := in.P
	defer func() {
		in.noUndo--
		in.cur = savedCur
		in.depth = savedDepth
		in.P = savedP
		if r := recover(); r != nil {
			if ab, ok := r.(*abort); ok && ab.kind == "unsupported" {
				// tolerate partially initialised package; report
				in.cfg.note("init of %s incomplete: %s", pkg.Pkg.Path(), ab.msg)
				return
			}
			if gp, ok := r.(*goPanic); ok {
				in.cfg.note("init of %s panicked: %s", pkg.Pkg.Path(), gp.msg)
				return
			}
			panic(r)
		}
	}()
	in.P = nil // init must be concrete
	in.callSSA(initFn, nil, nil, nil)
}

// ---- function info ----

func (in *Interp) info(fn *ssa.Function) *fnInfo {
	if fi, ok := in.fnInfos[fn]; ok {
		return fi
	}
	fi := &fnInfo{idx: map[ssa.Value]int{}}
	n := 0
	for _, p := range fn.Params {
		fi.idx[p] = n
		n++
	}
	for _, b := range fn.Blocks {
		for _, ins := range b.Instrs {
			if v, ok := ins.(ssa.Value); ok {
				fi.idx[v] = n
				n++
			}
		}
	}
	fi.n = n
	in.fnInfos[fn] = fi
	return fi
}

func (in *Interp) constVal(c *ssa.Const) Value {
	if v, ok := in.consts[c]; ok {
		return v
	}
	v := in.mkConst(c)
	in.consts[c] = v
	return v
}

func (in *Interp) mkConst(c *ssa.Const) Value {
	if c.Value == nil {
		return zero(c.Type())
	}
	t := c.Type()
	if w, _, ok := intWidth(t); ok {
		// go/constant int (possibly big)
		var bi *big.Int
		switch c.Value.Kind() {
		case constant.Int:
			if i64, exact := constant.Int64Val(c.Value); exact {
				return ConstBV(w, uint64(i64))
			}
			if u64, exact := constant.Uint64Val(c.Value); exact {
				return ConstBV(w, u64)
			}
			bi, _ = new(big.Int).SetString(c.Value.ExactString(), 10)
			return ConstBV(w, new(big.Int).And(bi, new(big.Int).SetUint64(^uint64(0))).Uint64())
		case constant.Float:
			f, _ := constant.Float64Val(c.Value)
			return ConstBV(w, uint64(int64(f)))
		}
	}
	switch {
	case isBool(t):
		return ConstBool(constant.BoolVal(c.Value))
	case isString(t):
		if c.Value.Kind() == constant.String {
			return mkStr(constant.StringVal(c.Value))
		}
		// rune->string const
		i64, _ := constant.Int64Val(c.Value)
		return mkStr(string(rune(i64)))
	case isFloat(t):
		f, _ := constant.Float64Val(constant.ToFloat(c.Value))
		if b, ok := t.Underlying().(*types.Basic); ok && b.Kind() == types.Float32 {
			f = float64(float32(f))
		}
		return FloatV(f)
	case isComplex(t):
		re, _ := constant.Float64Val(constant.Real(c.Value))
		im, _ := constant.Float64Val(constant.Imag(c.Value))
		return ComplexV(complex(re, im))
	}
	in.unsupported("const %v of type %v", c.Value, t)
	return nil
}

func (in *Interp) get(fr *frame, v ssa.Value) Value {
	switch x := v.(type) {
	case *ssa.Const:
		return in.constVal(x)
	case *ssa.Function:
		return x
	case *ssa.Global:
		return in.global(x)
	case *ssa.Builtin:
		return x
	case *ssa.FreeVar:
		for i, f := range fr.fn.FreeVars {
			if f == x {
				return fr.env[i]
			}
		}
		panic("free var not found")
	}
	i, ok := fr.info.idx[v]
	if !ok {
		panic(fmt.Sprintf("get: no slot for %T %v in %s", v, v.Name(), fr.fn))
	}
	return fr.locals[i]
}

// ---- calls ----

func (in *Interp) call(fr *frame, fv Value, args []Value, site *ssa.CallCommon) Value {
	switch f := fv.(type) {
	case *ssa.Function:
		if f == nil {
			in.gopanic("runtime error: call of nil function")
		}
		return in.callFn(fr, f, args, nil, site)
	case *Closure:
		if f == nil {
			in.gopanic("runtime error: invalid memory address or nil pointer dereference (nil func call)")
		}
		return in.callFn(fr, f.Fn, args, f.Env, site)
	case *ssa.Builtin:
		return in.callBuiltin(fr, f, args, site)
	case nil:
		in.gopanic("runtime error: call of nil function")
	}
	in.unsupported("call of %T", fv)
	return nil
}

func fnName(fn *ssa.Function) string {
	if o := fn.Origin(); o != nil {
		return o.String()
	}
	return fn.String()
}

func (in *Interp) resolve(fn *ssa.Function) *fnInfo {
	fi := in.info(fn)
	if fi.resolved {
		return fi
	}
	fi.resolved = true
	name := fnName(fn)
	if m, ok := in.stubs[name]; ok {
		fi.override = m
		return fi
	}
	if m, ok := in.stubs[fn.String()]; ok {
		fi.override = m
		return fi
	}
	if intr := lookupIntrinsic(in, fn, name); intr != nil {
		fi.intr = intr
	}
	return fi
}

func (in *Interp) callFn(fr *frame, fn *ssa.Function, args []Value, env []Value, site *ssa.CallCommon) Value {
	fi := in.resolve(fn)
	if fi.override != nil {
		return in.callSSA(fi.override, args, nil, fr)
	}
	if fi.intr != nil {
		return fi.intr(in, fr, fn, args)
	}
	if fn.Synthetic == "package initializer" && fr != nil {
		// cross-package init calls are skipped: packages initialise lazily on first global access
		return nil
	}
	if len(fn.Blocks) == 0 {
		in.unsupported("call of function without body: %s", fn)
	}
	return in.callSSA(fn, args, env, fr)
}

func resultZero(fn *ssa.Function) Value {
	res := fn.Signature.Results()
	switch res.Len() {
	case 0:
		return nil
	case 1:
		return zero(res.At(0).Type())
	}
	return zero(res)
}

func (in *Interp) callSSA(fn *ssa.Function, args []Value, env []Value, caller *frame) (res Value) {
	fi := in.info(fn)
	fr := &frame{fn: fn, info: fi, locals: make([]Value, fi.n), env: env, caller: caller}
	if len(args) != len(fn.Params) {
		panic(fmt.Sprintf("arity mismatch calling %s: %d args, %d params", fn, len(args), len(fn.Params)))
	}
	copy(fr.locals, args)
	in.depth++
	if in.depth > in.cfg.Depth {
		in.depth--
		in.abortf("depth", "call depth %d exceeded at %s", in.cfg.Depth, fn)
	}
	saved := in.cur
	in.cur = fr
	defer func() {
		in.depth--
		r := recover()
		if r == nil {
			in.cur = saved
			return
		}
		gp, ok := r.(*goPanic)
		if !ok {
			in.cur = saved
			panic(r)
		}
		fr.panic = gp
		in.cur = fr
		in.runDefers(fr)
		if fr.panic != nil {
			in.cur = saved
			panic(fr.panic)
		}
		// recovered
		if fn.Recover != nil {
			res = in.runBlocks(fr, fn.Recover)
		} else {
			res = resultZero(fn)
		}
		in.cur = saved
	}()
	return in.runBlocks(fr, fn.Blocks[0])
}

func (in *Interp) runDefers(fr *frame) {
	for len(fr.defers) > 0 {
		d := fr.defers[len(fr.defers)-1]
		fr.defers = fr.defers[:len(fr.defers)-1]
		in.runDeferred(fr, d)
	}
}

func (in *Interp) runDeferred(fr *frame, d deferred) {
	// A panic inside a deferred call replaces the current panic.
	switch f := d.fn.(type) {
	case *ssa.Function:
		in.callDeferredFn(fr, f, d.args, nil)
	case *Closure:
		if f == nil {
			in.gopanic("nil deferred func")
		}
		in.callDeferredFn(fr, f.Fn, d.args, f.Env)
	case *ssa.Builtin:
		in.callBuiltin(fr, f, d.args, d.call)
	default:
		in.unsupported("deferred call of %T", d.fn)
	}
}

func (in *Interp) callDeferredFn(fr *frame, fn *ssa.Function, args, env []Value) {
	fi := in.resolve(fn)
	if fi.override != nil {
		fn, env = fi.override, nil
	} else if fi.intr != nil {
		fi.intr(in, fr, fn, args)
		return
	}
	if len(fn.Blocks) == 0 {
		in.unsupported("deferred call of function without body: %s", fn)
	}
	// mark: callee may call recover()
	in.deferCall = true
	in.callSSA(fn, args, env, fr)
}

func (in *Interp) runBlocks(fr *frame, start *ssa.BasicBlock) Value {
	if fr.visits == nil {
		fr.visits = make([]int32, len(fr.fn.Blocks))
		fr.lastDec = make([]int32, len(fr.fn.Blocks))
	}
	if in.deferCall {
		fr.isDefer = true
		in.deferCall = false
	}
	var prev *ssa.BasicBlock
	block := start
	for {
		// unwinding bound: count only iterations that involved new decisions
		if in.P != nil {
			nd := int32(in.P.ndec)
			if fr.visits[block.Index] > 0 && fr.lastDec[block.Index] != nd {
				fr.visits[block.Index]++
				if int(fr.visits[block.Index]) > in.cfg.Unwind {
					in.abortf("unwind", "loop bound %d exceeded in %s block %d", in.cfg.Unwind, fr.fn, block.Index)
				}
			} else if fr.visits[block.Index] == 0 {
				fr.visits[block.Index] = 1
			}
			fr.lastDec[block.Index] = nd
		}
		in.fnsSeen[fr.fn] += int64(len(block.Instrs))
		in.steps += int64(len(block.Instrs))
		if in.steps > in.cfg.Steps {
			in.abortf("steps", "step budget %d exceeded in %s", in.cfg.Steps, fr.fn)
		}
		var next *ssa.BasicBlock
	instrs:
		for _, ins := range block.Instrs {
			switch x := ins.(type) {
			case *ssa.Phi:
				for i, p := range block.Preds {
					if p == prev {
						fr.locals[fr.info.idx[x]] = in.get(fr, x.Edges[i])
						break
					}
				}
			case *ssa.If:
				c := in.get(fr, x.Cond).(*Term)
				if in.branch(c) {
					next = block.Succs[0]
				} else {
					next = block.Succs[1]
				}
				break instrs
			case *ssa.Jump:
				next = block.Succs[0]
				break instrs
			case *ssa.Return:
				switch len(x.Results) {
				case 0:
					return nil
				case 1:
					return in.get(fr, x.Results[0])
				}
				t := make(Tuple, len(x.Results))
				late := in.lateLoads(fr.fn, x)
				for i, r := range x.Results {
					if late != nil && late[i] {
						// gc evaluates the calls of a return statement before it reads plain
						// variables; go/ssa loads them first. Re-read the variable now.
						t[i] = in.load(in.get(fr, r.(*ssa.UnOp).X))
						continue
					}
					t[i] = in.get(fr, r)
				}
				return t
			case *ssa.Panic:
				v := in.get(fr, x.X)
				panic(&goPanic{val: v, msg: in.panicMsg(v), stack: in.stack()})
			default:
				in.exec(fr, ins)
			}
		}
		if next == nil {
			panic("block fell through: " + fr.fn.String())
		}
		prev, block = block, next
	}
}

func (in *Interp) panicMsg(v Value) string {
	if i, ok := v.(Iface); ok {
		if s, ok := i.V.(*Str); ok {
			if c, ok := s.Concrete(); ok {
				return c
			}
			return "<symbolic string>"
		}
		if i.T != nil {
			// error value: try Error()
			if m := in.findMethod(i.T, nil, "Error"); m != nil {
				func() {
					defer func() { recover() }()
					r := in.callSSAorIntr(m, []Value{i.V})
					if s, ok := r.(*Str); ok {
						if c, ok := s.Concrete(); ok {
							v = mkStr(c)
						}
					}
				}()
				if s, ok := v.(*Str); ok {
					return s.S
				}
			}
			return "panic(" + i.T.String() + ")"
		}
	}
	return describe(v)
}

func (in *Interp) callSSAorIntr(fn *ssa.Function, args []Value) Value {
	return in.callFn(in.cur, fn, args, nil, nil)
}

// exec runs a non-control instruction.
func (in *Interp) exec(fr *frame, ins ssa.Instruction) {
	set := func(v ssa.Value, val Value) { fr.locals[fr.info.idx[v]] = val }
	switch x := ins.(type) {
	case *ssa.DebugRef:
	case *ssa.UnOp:
		set(x, in.unop(fr, x, in.get(fr, x.X)))
	case *ssa.BinOp:
		set(x, in.binop(x.Op, x.X.Type(), in.get(fr, x.X), in.get(fr, x.Y)))
	case *ssa.Call:
		fv, args := in.prepareCall(fr, &x.Call)
		set(x, in.call(fr, fv, args, &x.Call))
	case *ssa.ChangeInterface:
		set(x, in.get(fr, x.X))
	case *ssa.ChangeType:
		set(x, in.get(fr, x.X))
	case *ssa.Convert:
		set(x, in.conv(x.Type(), x.X.Type(), in.get(fr, x.X)))
	case *ssa.MultiConvert:
		set(x, in.conv(x.Type(), x.X.Type(), in.get(fr, x.X)))
	case *ssa.SliceToArrayPointer:
		s := in.get(fr, x.X).(Slice)
		n := int(x.Type().Underlying().(*types.Pointer).Elem().Underlying().(*types.Array).Len())
		if len(s.A) < n {
			in.gopanic(fmt.Sprintf("runtime error: cannot convert slice with length %d to array or pointer to array with length %d", len(s.A), n))
		}
		if s.A == nil {
			set(x, (*Value)(nil))
		} else {
			// pointer to array aliasing the slice's elements: represent array value sharing storage
			var v Value = Array(s.A[:n:n])
			set(x, &v)
		}
	case *ssa.MakeInterface:
		set(x, Iface{T: x.X.Type(), V: in.get(fr, x.X)})
	case *ssa.Extract:
		set(x, in.get(fr, x.Tuple).(Tuple)[x.Index])
	case *ssa.Slice:
		set(x, in.slice(fr, x))
	case *ssa.Alloc:
		v := zero(x.Type().Underlying().(*types.Pointer).Elem())
		if x.Heap {
			set(x, &v)
		} else {
			// stack slot: reuse across loop iterations must re-zero
			set(x, &v)
		}
	case *ssa.MakeSlice:
		n := in.concreteInt(in.get(fr, x.Len).(*Term), "make len")
		c := in.concreteInt(in.get(fr, x.Cap).(*Term), "make cap")
		if n < 0 || c < n || c > 1<<26 {
			in.gopanic("runtime error: makeslice: len out of range")
		}
		et := x.Type().Underlying().(*types.Slice).Elem()
		a := make([]Value, n, c)
		z := zero(et)
		switch z.(type) {
		case Struct, Array:
			for i := range a {
				a[i] = zero(et)
			}
			ac := a[:c]
			for i := n; i < c; i++ {
				ac[i] = zero(et)
			}
		default:
			ac := a[:c]
			for i := range ac {
				ac[i] = z
			}
		}
		set(x, Slice{A: a})
	case *ssa.MakeMap:
		set(x, &Map{Index: map[string]int{}, KT: x.Type().Underlying().(*types.Map).Key()})
	case *ssa.MakeChan:
		n := in.concreteInt(in.get(fr, x.Size).(*Term), "chan size")
		set(x, &Chan{Cap: int(n)})
	case *ssa.MakeClosure:
		env := make([]Value, len(x.Bindings))
		for i, b := range x.Bindings {
			env[i] = in.get(fr, b)
		}
		set(x, &Closure{Fn: x.Fn.(*ssa.Function), Env: env})
	case *ssa.FieldAddr:
		p := in.get(fr, x.X)
		pv, ok := p.(*Value)
		if !ok {
			if up, ok2 := p.(UnsafePtr); ok2 {
				pv, ok = up.P.(*Value)
			}
			if !ok {
				in.unsupported("FieldAddr on %T", p)
			}
		}
		if pv == nil {
			in.gopanic("runtime error: invalid memory address or nil pointer dereference")
		}
		st, ok := (*pv).(Struct)
		if !ok {
			in.unsupported("FieldAddr: slot holds %T, not struct (%s)", *pv, x.X.Type())
		}
		set(x, &st[x.Field])
	case *ssa.Field:
		set(x, copyVal(in.get(fr, x.X).(Struct)[x.Field]))
	case *ssa.IndexAddr:
		set(x, in.indexAddr(fr, x))
	case *ssa.Index:
		set(x, in.index(fr, x))
	case *ssa.Lookup:
		set(x, in.lookup(fr, x))
	case *ssa.MapUpdate:
		m := in.get(fr, x.Map).(*Map)
		if m == nil {
			in.gopanic("assignment to entry in nil map")
		}
		in.mapSet(m, in.get(fr, x.Key), copyVal(in.get(fr, x.Value)))
	case *ssa.Store:
		if in.lateStore(fr.fn, x) {
			// result of `return v, f()` in a function with defers: gc reads v after the call
			in.storeTo(in.get(fr, x.Addr), in.load(in.get(fr, x.Val.(*ssa.UnOp).X)))
			return
		}
		in.storeTo(in.get(fr, x.Addr), in.get(fr, x.Val))
	case *ssa.TypeAssert:
		set(x, in.typeAssert(x, in.get(fr, x.X).(Iface)))
	case *ssa.Range:
		set(x, in.rangeIter(in.get(fr, x.X)))
	case *ssa.Next:
		set(x, in.next(x, in.get(fr, x.Iter)))
	case *ssa.Defer:
		fv, args := in.prepareCall(fr, &x.Call)
		fr.defers = append(fr.defers, deferred{fn: fv, args: args, call: &x.Call})
	case *ssa.RunDefers:
		in.runDefers(fr)
	case *ssa.Go:
		fv, args := in.prepareCall(fr, &x.Call)
		if in.cfg.GoMode == "skip" {
			return
		}
		in.call(fr, fv, args, &x.Call)
	case *ssa.Send:
		ch := in.get(fr, x.Chan).(*Chan)
		in.chanSend(ch, in.get(fr, x.X))
	case *ssa.Select:
		set(x, in.selectOp(fr, x))
	default:
		in.unsupported("instruction %T", ins)
	}
}

func (in *Interp) prepareCall(fr *frame, c *ssa.CallCommon) (Value, []Value) {
	if c.IsInvoke() {
		recv := in.get(fr, c.Value).(Iface)
		if recv.T == nil {
			in.gopanic("runtime error: invalid memory address or nil pointer dereference (method call on nil interface: " + c.Method.Name() + ")")
		}
		m := in.findMethod(recv.T, c.Method.Pkg(), c.Method.Name())
		if m == nil {
			in.unsupported("method %s not found on %s", c.Method.Name(), recv.T)
		}
		args := make([]Value, 0, len(c.Args)+1)
		args = append(args, recv.V)
		for _, a := range c.Args {
			args = append(args, in.get(fr, a))
		}
		return m, args
	}
	fv := in.get(fr, c.Value)
	args := make([]Value, len(c.Args))
	for i, a := range c.Args {
		args[i] = in.get(fr, a)
	}
	return fv, args
}

func (in *Interp) findMethod(t types.Type, pkg *types.Package, name string) *ssa.Function {
	key := typeKey(t) + "." + name
	if pkg != nil && !token.IsExported(name) {
		key = typeKey(t) + "." + pkg.Path() + "." + name
	}
	if m, ok := in.methods[key]; ok {
		return m
	}
	ms := in.prog.MethodSets.MethodSet(t)
	sel := ms.Lookup(pkg, name)
	if sel == nil && pkg == nil {
		for i := 0; i < ms.Len(); i++ {
			if ms.At(i).Obj().Name() == name {
				sel = ms.At(i)
				break
			}
		}
	}
	var m *ssa.Function
	if sel != nil {
		m = in.prog.MethodValue(sel)
	}
	in.methods[key] = m
	return m
}

// concreteInt returns the value of t as int64, concretising by forking if symbolic.
func (in *Interp) concreteInt(t *Term, what string) int64 {
	if t.IsConst() {
		return t.sval()
	}
	return int64(in.concretize(t, what))
}

// lateLoads reports, for a multi-result return statement, which results are
// plain local variables that must be read after the calls in the same
// statement (the order gc implements; the spec leaves it unspecified and
// go/ssa reads them first).
func (in *Interp) lateLoads(fn *ssa.Function, ret *ssa.Return) []bool {
	if in.lateCache == nil {
		in.lateCache = map[*ssa.Return][]bool{}
	}
	if r, ok := in.lateCache[ret]; ok {
		return r
	}
	var res []bool
	defer func() { in.lateCache[ret] = res }()
	syn := fn.Syntax()
	if syn == nil || !ret.Pos().IsValid() {
		return nil
	}
	var stmt *ast.ReturnStmt
	ast.Inspect(syn, func(n ast.Node) bool {
		if stmt != nil {
			return false
		}
		if rs, ok := n.(*ast.ReturnStmt); ok && rs.Return == ret.Pos() {
			stmt = rs
			return false
		}
		return true
	})
	if stmt == nil || len(stmt.Results) != len(ret.Results) {
		return nil
	}
	hasCallAfter := func(i int) bool {
		found := false
		for j := i + 1; j < len(stmt.Results); j++ {
			ast.Inspect(stmt.Results[j], func(n ast.Node) bool {
				if _, ok := n.(*ast.CallExpr); ok {
					found = true
				}
				if _, ok := n.(*ast.FuncLit); ok {
					return false
				}
				return !found
			})
		}
		return found
	}
	any := false
	out := make([]bool, len(ret.Results))
	for i, e := range stmt.Results {
		for {
			if p, ok := e.(*ast.ParenExpr); ok {
				e = p.X
				continue
			}
			break
		}
		if _, ok := e.(*ast.Ident); !ok {
			continue
		}
		u, ok := ret.Results[i].(*ssa.UnOp)
		if !ok || u.Op != token.MUL {
			continue
		}
		if _, isAlloc := u.X.(*ssa.Alloc); !isAlloc {
			if _, isFree := u.X.(*ssa.FreeVar); !isFree {
				continue
			}
		}
		if hasCallAfter(i) {
			out[i] = true
			any = true
		}
	}
	if any {
		res = out
	}
	return res
}

// lateStore reports whether st is the synthesized store of a plain-variable
// result of a return statement whose later results contain calls (functions
// with defers store results before running the defers); see lateLoads.
func (in *Interp) lateStore(fn *ssa.Function, st *ssa.Store) bool {
	u, ok := st.Val.(*ssa.UnOp)
	if !ok || u.Op != token.MUL || !st.Pos().IsValid() {
		return false
	}
	var name string
	switch a := u.X.(type) {
	case *ssa.Alloc:
		name = a.Comment
	case *ssa.FreeVar:
		name = a.Name()
	default:
		return false
	}
	if name == "" {
		return false
	}
	if in.lateStoreCache == nil {
		in.lateStoreCache = map[*ssa.Store]bool{}
	}
	if r, ok := in.lateStoreCache[st]; ok {
		return r
	}
	res := false
	defer func() { in.lateStoreCache[st] = res }()
	syn := fn.Syntax()
	if syn == nil {
		return false
	}
	var stmt *ast.ReturnStmt
	ast.Inspect(syn, func(n ast.Node) bool {
		if stmt != nil {
			return false
		}
		if rs, ok := n.(*ast.ReturnStmt); ok && rs.Return == st.Pos() {
			stmt = rs
			return false
		}
		return true
	})
	if stmt == nil || len(stmt.Results) < 2 {
		return false
	}
	for i, e := range stmt.Results {
		for {
			if p, ok := e.(*ast.ParenExpr); ok {
				e = p.X
				continue
			}
			break
		}
		id, ok := e.(*ast.Ident)
		if !ok || id.Name != name {
			continue
		}
		for j := i + 1; j < len(stmt.Results); j++ {
			found := false
			ast.Inspect(stmt.Results[j], func(n ast.Node) bool {
				if _, ok := n.(*ast.CallExpr); ok {
					found = true
				}
				if _, ok := n.(*ast.FuncLit); ok {
					return false
				}
				return !found
			})
			if found {
				res = true
				return res
			}
		}
	}
	return res
}
