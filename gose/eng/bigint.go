package eng

import (
	"math/big"

	"golang.org/x/tools/go/ssa"
)

// math/big.Int modelled in the SMT Int theory. The slot of a big.Int holds
// either its ordinary zero struct {neg:false, abs:nil} (value 0) or a *BigV.

func (in *Interp) bigGet(p Value) *Term {
	pv, ok := p.(*Value)
	if !ok || pv == nil {
		in.gopanic("runtime error: invalid memory address or nil pointer dereference (nil *big.Int)")
	}
	switch x := (*pv).(type) {
	case *BigV:
		return x.T
	case Struct:
		// concrete nat words
		neg := x[0].(*Term)
		abs := x[1].(Slice)
		v := new(big.Int)
		for i := len(abs.A) - 1; i >= 0; i-- {
			w := abs.A[i].(*Term)
			if !w.IsConst() {
				in.unsupported("big.Int with symbolic words")
			}
			v.Lsh(v, 64)
			v.Or(v, new(big.Int).SetUint64(w.C))
		}
		if neg.IsConst() && neg.C != 0 {
			v.Neg(v)
		}
		return ConstInt(v)
	}
	in.unsupported("big.Int slot holds %T", *pv)
	return nil
}

func (in *Interp) bigSet(p Value, t *Term) Value {
	pv, ok := p.(*Value)
	if !ok || pv == nil {
		in.gopanic("runtime error: invalid memory address or nil pointer dereference (nil *big.Int)")
	}
	in.storeLeaf(pv, &BigV{T: t})
	return p
}

func bigConst(v int64) *Term { return ConstInt(big.NewInt(v)) }

func (in *Interp) bigSign(t *Term) (neg, zero *Term) {
	return in.tb.ILt(t, bigConst(0)), in.tb.Eq(t, bigConst(0))
}

func (in *Interp) bigAbs(t *Term) *Term {
	return in.tb.Ite(in.tb.ILt(t, bigConst(0)), in.tb.INeg(t), t)
}

func init() {
	b2 := func(f func(in *Interp, x, y *Term) *Term) intrinsic {
		return func(in *Interp, fr *frame, fn *ssa.Function, args []Value) Value {
			return in.bigSet(args[0], f(in, in.bigGet(args[1]), in.bigGet(args[2])))
		}
	}
	reg("(*math/big.Int).Add", b2(func(in *Interp, x, y *Term) *Term { return in.tb.IAdd(x, y) }))
	reg("(*math/big.Int).Sub", b2(func(in *Interp, x, y *Term) *Term { return in.tb.ISub(x, y) }))
	reg("(*math/big.Int).Mul", b2(func(in *Interp, x, y *Term) *Term { return in.tb.IMul(x, y) }))
	divCheck := func(in *Interp, y *Term) {
		if in.branch(in.tb.Eq(y, bigConst(0))) {
			in.gopanic("division by zero")
		}
	}
	// Euclidean
	reg("(*math/big.Int).Div", b2(func(in *Interp, x, y *Term) *Term { divCheck(in, y); return in.tb.IDiv(x, y) }))
	reg("(*math/big.Int).Mod", b2(func(in *Interp, x, y *Term) *Term { divCheck(in, y); return in.tb.IMod(x, y) }))
	// truncated
	quo := func(in *Interp, x, y *Term) *Term {
		b := in.tb
		q := b.IDiv(in.bigAbs(x), in.bigAbs(y))
		xn := b.ILt(x, bigConst(0))
		yn := b.ILt(y, bigConst(0))
		diff := b.Not(b.Eq(xn, yn))
		return b.Ite(diff, b.INeg(q), q)
	}
	reg("(*math/big.Int).Quo", b2(func(in *Interp, x, y *Term) *Term { divCheck(in, y); return quo(in, x, y) }))
	reg("(*math/big.Int).Rem", b2(func(in *Interp, x, y *Term) *Term {
		divCheck(in, y)
		return in.tb.ISub(x, in.tb.IMul(y, quo(in, x, y)))
	}))
	reg("(*math/big.Int).Neg", func(in *Interp, fr *frame, fn *ssa.Function, args []Value) Value {
		return in.bigSet(args[0], in.tb.INeg(in.bigGet(args[1])))
	})
	reg("(*math/big.Int).Abs", func(in *Interp, fr *frame, fn *ssa.Function, args []Value) Value {
		return in.bigSet(args[0], in.bigAbs(in.bigGet(args[1])))
	})
	reg("(*math/big.Int).Set", func(in *Interp, fr *frame, fn *ssa.Function, args []Value) Value {
		return in.bigSet(args[0], in.bigGet(args[1]))
	})
	reg("(*math/big.Int).SetInt64", func(in *Interp, fr *frame, fn *ssa.Function, args []Value) Value {
		return in.bigSet(args[0], in.tb.SBV2Int(bv(args[1])))
	})
	reg("(*math/big.Int).SetUint64", func(in *Interp, fr *frame, fn *ssa.Function, args []Value) Value {
		return in.bigSet(args[0], in.tb.BV2Int(bv(args[1])))
	})
	reg("math/big.NewInt", func(in *Interp, fr *frame, fn *ssa.Function, args []Value) Value {
		var v Value = &BigV{T: in.tb.SBV2Int(bv(args[0]))}
		return &v
	})
	reg("(*math/big.Int).Int64 (*math/big.Int).Uint64", func(in *Interp, fr *frame, fn *ssa.Function, args []Value) Value {
		return in.tb.Int2BV(in.bigGet(args[0]), 64)
	})
	reg("(*math/big.Int).IsInt64", func(in *Interp, fr *frame, fn *ssa.Function, args []Value) Value {
		t := in.bigGet(args[0])
		lo := ConstInt(new(big.Int).Neg(new(big.Int).Lsh(big.NewInt(1), 63)))
		hi := ConstInt(new(big.Int).Sub(new(big.Int).Lsh(big.NewInt(1), 63), big.NewInt(1)))
		return in.tb.And(in.tb.ILe(lo, t), in.tb.ILe(t, hi))
	})
	reg("(*math/big.Int).IsUint64", func(in *Interp, fr *frame, fn *ssa.Function, args []Value) Value {
		t := in.bigGet(args[0])
		hi := ConstInt(new(big.Int).Sub(new(big.Int).Lsh(big.NewInt(1), 64), big.NewInt(1)))
		return in.tb.And(in.tb.ILe(bigConst(0), t), in.tb.ILe(t, hi))
	})
	reg("(*math/big.Int).Sign", func(in *Interp, fr *frame, fn *ssa.Function, args []Value) Value {
		t := in.bigGet(args[0])
		neg, z := in.bigSign(t)
		return in.tb.Ite(neg, ConstBV(64, ^uint64(0)), in.tb.Ite(z, ConstBV(64, 0), ConstBV(64, 1)))
	})
	reg("(*math/big.Int).Cmp", func(in *Interp, fr *frame, fn *ssa.Function, args []Value) Value {
		x, y := in.bigGet(args[0]), in.bigGet(args[1])
		return in.tb.Ite(in.tb.ILt(x, y), ConstBV(64, ^uint64(0)), in.tb.Ite(in.tb.Eq(x, y), ConstBV(64, 0), ConstBV(64, 1)))
	})
	reg("(*math/big.Int).CmpAbs", func(in *Interp, fr *frame, fn *ssa.Function, args []Value) Value {
		x, y := in.bigAbs(in.bigGet(args[0])), in.bigAbs(in.bigGet(args[1]))
		return in.tb.Ite(in.tb.ILt(x, y), ConstBV(64, ^uint64(0)), in.tb.Ite(in.tb.Eq(x, y), ConstBV(64, 0), ConstBV(64, 1)))
	})
	reg("(*math/big.Int).Lsh", func(in *Interp, fr *frame, fn *ssa.Function, args []Value) Value {
		n := in.concreteInt(bv(args[2]), "Lsh count")
		return in.bigSet(args[0], in.tb.IMul(in.bigGet(args[1]), ConstInt(new(big.Int).Lsh(big.NewInt(1), uint(n)))))
	})
	reg("(*math/big.Int).Rsh", func(in *Interp, fr *frame, fn *ssa.Function, args []Value) Value {
		n := in.concreteInt(bv(args[2]), "Rsh count")
		// arithmetic shift = floor division by 2^n
		return in.bigSet(args[0], in.tb.IDiv(in.bigGet(args[1]), ConstInt(new(big.Int).Lsh(big.NewInt(1), uint(n)))))
	})
	reg("(*math/big.Int).SetBytes", func(in *Interp, fr *frame, fn *ssa.Function, args []Value) Value {
		bs := sliceTerms(args[1].(Slice))
		t := bigConst(0)
		for _, x := range bs {
			t = in.tb.IAdd(in.tb.IMul(t, bigConst(256)), in.tb.BV2Int(x))
		}
		return in.bigSet(args[0], t)
	})
	reg("(*math/big.Int).FillBytes", func(in *Interp, fr *frame, fn *ssa.Function, args []Value) Value {
		buf := args[1].(Slice)
		n := len(buf.A)
		t := in.bigAbs(in.bigGet(args[0]))
		lim := ConstInt(new(big.Int).Lsh(big.NewInt(1), uint(8*n)))
		if !in.branch(in.tb.ILt(t, lim)) {
			in.gopanic("math/big: buffer too small to fit value")
		}
		if n > 0 {
			w := in.tb.Int2BV(t, 8*n)
			for i := 0; i < n; i++ {
				hi := (n-i)*8 - 1
				in.store(&buf.A[i], in.tb.Extract(w, hi, hi-7))
			}
		}
		return buf
	})
	reg("(*math/big.Int).String", func(in *Interp, fr *frame, fn *ssa.Function, args []Value) Value {
		if isNilPtr(args[0]) {
			return mkStr("<nil>")
		}
		t := in.bigGet(args[0])
		if !t.IsConst() {
			return mkStr("<sym big.Int>")
		}
		return mkStr(t.Big.String())
	})
	reg("(*math/big.Int).SetString", func(in *Interp, fr *frame, fn *ssa.Function, args []Value) Value {
		s, ok := args[1].(*Str).Concrete()
		if !ok {
			in.unsupported("big.Int.SetString on symbolic string")
		}
		base := int(in.concreteInt(bv(args[2]), "base"))
		v, good := new(big.Int).SetString(s, base)
		if !good {
			return tuple((*Value)(nil), FalseT)
		}
		return tuple(in.bigSet(args[0], ConstInt(v)), TrueT)
	})
	reg("(*math/big.Int).BitLen", func(in *Interp, fr *frame, fn *ssa.Function, args []Value) Value {
		t := in.bigGet(args[0])
		if !t.IsConst() {
			in.unsupported("BitLen of symbolic big.Int")
		}
		return ConstBV(64, uint64(t.Big.BitLen()))
	})
	reg("(*math/big.Int).Bit", func(in *Interp, fr *frame, fn *ssa.Function, args []Value) Value {
		t := in.bigGet(args[0])
		i := in.concreteInt(args[1].(*Term), "Bit index")
		if !t.IsConst() {
			in.unsupported("Bit of symbolic big.Int")
		}
		return ConstBV(64, uint64(t.Big.Bit(int(i))))
	})
	reg("(*math/big.Int).Exp", func(in *Interp, fr *frame, fn *ssa.Function, args []Value) Value {
		x, y := in.bigGet(args[1]), in.bigGet(args[2])
		if !x.IsConst() || !y.IsConst() || !isNilPtr(args[3]) {
			in.unsupported("big.Int.Exp with symbolic operands or modulus")
		}
		return in.bigSet(args[0], ConstInt(new(big.Int).Exp(x.Big, y.Big, nil)))
	})
}
