#!/usr/bin/env python3
# regenerates MANIFEST.json from claims.json (claimed checks) and na.json (not applicable, with reasons)
import json,os
claims=json.load(open('/verif/claims.json'))
na=json.load(open('/verif/na.json')) if os.path.exists('/verif/na.json') else {}
ids=[json.loads(l)['id'] for l in open('/verif/properties.jsonl')]
checks=[]
for i in ids:
    if i in claims and os.path.isdir(f'/verif/harness/{i}'):
        c=claims[i]
        checks.append({
          "property_id": i,
          "quick_cmd": f"./check {i} --tier quick",
          "thorough_cmd": f"./check {i} --tier thorough",
          "evidence_file": f"/verif/evidence/{i}.json",
          "replay_cmd_template": f"./check {i} --replay {{path}}",
          "engine": "gose",
          "level_claimed": {"category": "model_checking", "text": c["text"], "design_ref": c.get("design_ref","DESIGN.md §7")},
          "level_note": c["note"],
          "technique": c.get("technique","bounded symbolic execution of the real code's go/ssa + SMT (z3; z3-new/cvc5 cross-check), counterexamples replayed natively"),
        })
nalist=[]
for i in ids:
    if not any(c['property_id']==i for c in checks):
        nalist.append({"property_id": i, "reason": na.get(i, "no solver-based check built yet for this property in this tree (see DESIGN.md §9); not claimed")})
m={
 "version": 1,
 "setup_cmd": "cd /verif/gose && GOFLAGS=-mod=mod GOPROXY=off GOSUMDB=off GOTOOLCHAIN=local PATH=/opt/veriftools/go1.26.8/bin:$PATH go build -o ../bin/gose ./cmd/gose",
 "hooks": {
   "guard": "verif",
   "enable": "no source change in /repo: harnesses (//go:build verif) and the vrt runtime package are injected through packages.Config.Overlay (engine) and `go test -tags verif -overlay` (native replay)",
   "baseline_off_cmd": "cd /repo && GOFLAGS=-mod=mod GOPROXY=off go test -json -vet=off -count=1 -timeout 25m ./...",
   "source_commits": [],
   "add_only": True
 },
 "engines": [{"name":"gose","path":"/verif/gose","serves_properties":[c['property_id'] for c in checks],
   "kind_free_text":"symbolic executor for Go SSA (golang.org/x/tools/go/ssa) written for this task; bit-vector/Int SMT terms, re-execution forking, z3 -in per worker; native replay of counterexamples through go test -overlay"}],
 "checks": checks,
 "not_applicable": nalist,
 "notes": "Every check rebuilds SSA from /repo's working tree on each run. Exit 0 pass, 1 VIOLATION (replayed natively), 2 inconclusive (build failure, bound exceeded, solver unknown, unconfirmed counterexample). See DESIGN.md."
}
json.dump(m,open('/verif/MANIFEST.json','w'),indent=1)
print('checks',len(checks),'na',len(nalist))
