//go:build verif

package fstree

import (
	"errors"
	"strconv"
	"time"

	"github.com/nspcc-dev/neofs-node/internal/vrt"
	"github.com/nspcc-dev/neofs-node/pkg/local_object_storage/blobstor/common"
	oid "github.com/nspcc-dev/neofs-sdk-go/object/id"
	"golang.org/x/sys/unix"
)

// ---- file model with faults ----

type c13inode struct {
	written int  // bytes written
	synced  bool // fdatasync succeeded after the last write (or O_DSYNC)
	dsync   bool
	open    bool
	closes  int
	short   bool // some write to this inode was short
	shortAt int  // bytes the inode held when the (first) short write began
}

var c13 struct {
	inodes []*c13inode    // fd = 100 + index
	links  map[string]int // path -> inode index
	linkAt map[string]int // path -> bytes written to the inode when it was linked
	faults int            // faults injected so far
}

func c13fault(what string) (unix.Errno, bool) {
	if c13.faults >= vrt.Param("MAXFAULTS") || !vrt.Bool("fault:"+what) {
		return 0, false
	}
	c13.faults++
	if vrt.Choice("errno", 2) == 0 {
		return unix.EIO, true
	}
	return unix.ENOSPC, true
}

func c13ino(fd int) *c13inode {
	i := fd - 100
	if i < 0 || i >= len(c13.inodes) {
		return nil
	}
	return c13.inodes[i]
}

func c13install() {
	c13.inodes, c13.links, c13.linkAt, c13.faults = nil, map[string]int{}, map[string]int{}, 0
	unix.VerifHookOpen = func(path string, mode int, perm uint32) (int, error) {
		if e, f := c13fault("open"); f {
			return -1, e
		}
		c13.inodes = append(c13.inodes, &c13inode{open: true, dsync: mode&unix.O_DSYNC != 0})
		return 100 + len(c13.inodes) - 1, nil
	}
	write := func(fd int, n int) (int, error) {
		ino := c13ino(fd)
		vrt.Assert(ino != nil && ino.open, "write goes to an open descriptor")
		if ino == nil {
			return -1, unix.EBADF
		}
		if e, f := c13fault("write"); f {
			return -1, e
		}
		if n > 0 && c13.faults < vrt.Param("MAXFAULTS") && vrt.Bool("shortWrite") {
			c13.faults++
			n--
			if !ino.short {
				ino.shortAt = ino.written
			}
			ino.short = true
		}
		ino.written += n
		ino.synced = false
		return n, nil
	}
	unix.VerifHookWrite = func(fd int, p []byte) (int, error) { return write(fd, len(p)) }
	unix.VerifHookWritev = func(fd int, iovs [][]byte) (int, error) {
		n := 0
		for _, v := range iovs {
			n += len(v)
		}
		return write(fd, n)
	}
	unix.VerifHookLinkat = func(oldpath, newpath string) error {
		fd, _ := strconv.Atoi(oldpath[len("/proc/self/fd/"):])
		ino := c13ino(fd)
		vrt.Assert(ino != nil && ino.open, "link source is an open descriptor")
		if e, f := c13fault("link"); f {
			return e
		}
		if _, ok := c13.links[newpath]; ok {
			return unix.EEXIST
		}
		c13.links[newpath] = fd - 100
		c13.linkAt[newpath] = ino.written
		return nil
	}
	unix.VerifHookUnlink = func(path string) error {
		if _, ok := c13.links[path]; !ok {
			return unix.ENOENT
		}
		delete(c13.links, path)
		delete(c13.linkAt, path)
		return nil
	}
	unix.VerifHookFdatasync = func(fd int) error {
		ino := c13ino(fd)
		vrt.Assert(ino != nil && ino.open, "sync of an open descriptor")
		if e, f := c13fault("sync"); f {
			return e
		}
		ino.synced = true
		return nil
	}
	unix.VerifHookClose = func(fd int) error {
		ino := c13ino(fd)
		vrt.Assert(ino != nil && ino.open, "a descriptor is closed at most once (a second close may hit a descriptor reused by someone else)")
		if ino == nil {
			return unix.EBADF
		}
		ino.open = false
		ino.closes++
		if e, f := c13fault("close"); f {
			return e
		}
		return nil
	}
}

// replaced: waiting for the batch. In the sequential model the timer fires now
// if nobody has synced the batch yet.
func (b *syncBatch) wait() error {
	if c13defer {
		// this writer keeps waiting while another writer arrives (modelled by
		// the next sequential write); its result is read once the batch is done
		c13waiting = b
		return errC13deferred
	}
	select {
	case <-b.ready:
	default:
		b.sync()
	}
	<-b.ready
	return b.err
}

var (
	c13defer       bool
	c13waiting     *syncBatch
	errC13deferred = errors.New("deferred: the writer is still waiting for its batch")
)

func c13id(i int) oid.ID { var id oid.ID; id[0] = byte(i + 1); return id }

// VerifC13Writes: W sequential writes through the Linux writer (single files
// and combined batches, sizes on both sides of the thresholds and limits) with
// up to MAXFAULTS injected faults (any errno at any system call, short
// writes): no panic, no deadlock, no double close; a write that reports success
// has its bytes completely written, linked and durably synced; a full disk is
// reported as such; later unaffected writes still succeed.
func VerifC13Writes() {
	c13install()
	w := &linuxWriter{
		root: "/root", perm: 0o600,
		flags: unix.O_WRONLY | unix.O_TMPFILE | unix.O_CLOEXEC | unix.O_DSYNC, bFlags: unix.O_WRONLY | unix.O_TMPFILE | unix.O_CLOEXEC,
		combinedCountLimit: 2 + vrt.Choice("countLimit", 2), combinedSizeLimit: 80, combinedSizeThreshold: 8,
		combinedWriteInterval: time.Hour,
	}
	nw := vrt.Param("W")
	sizes := [...]int{3, 8, 9, 70}
	type pend struct {
		i, sz int
		b     *syncBatch
	}
	var pending []pend
	check := func(i, sz int, err error, faulted bool) {
		p := "/root/obj" + strconv.Itoa(i)
		if err == nil {
			idx, linked := c13.links[p]
			vrt.Assert(linked, "a write that reports success left the object linked at its path")
			if linked {
				ino := c13.inodes[idx]
				vrt.Assert(c13.linkAt[p] >= sz, "the object was linked only after its bytes were completely written")
				vrt.Assert(!ino.short, "a write that reports success has no short (incomplete) write behind it")
				vrt.Assert(ino.dsync || ino.synced, "a write that reports success is durably synced")
				vrt.Assert(!ino.open, "the descriptor is closed")
			}
		} else {
			vrt.Assert(c13.faults > 0, "an error is reported only when some system call failed")
			if errors.Is(err, common.ErrNoSpace) {
				vrt.Reach("nospace")
			}
		}
		if !faulted && c13.faults == 0 {
			vrt.Assert(err == nil, "without faults every write succeeds")
		}
	}
	for i := 0; i < nw; i++ {
		sz := sizes[vrt.Choice("size", len(sizes))]
		p := "/root/obj" + strconv.Itoa(i)
		before := c13.faults
		c13defer = i < nw-1 && vrt.Bool("nextWriterArrivesBeforeTheTimer")
		c13waiting = nil
		err := w.writeData(c13id(i), p, make([]byte, sz))
		c13defer = false
		if err == errC13deferred {
			pending = append(pending, pend{i, sz, c13waiting})
			continue
		}
		check(i, sz, err, c13.faults > before)
	}
	_ = w.finalize()
	for _, pd := range pending {
		select {
		case <-pd.b.ready:
		default:
			vrt.Assert(false, "a waiting writer is released once its batch is synced or finalized")
			continue
		}
		check(pd.i, pd.sz, pd.b.err, true)
	}
	for _, ino := range c13.inodes {
		vrt.Assert(!ino.open, "no descriptor is leaked after finalize")
	}
	vrt.Reach("end")
}
