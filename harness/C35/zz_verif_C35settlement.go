//go:build verif

package settlement

import (
	"github.com/nspcc-dev/neo-go/pkg/util"
	"github.com/nspcc-dev/neofs-node/internal/vrt"
	"github.com/nspcc-dev/neofs-node/pkg/morph/client"
	balanceClient "github.com/nspcc-dev/neofs-node/pkg/morph/client/balance"
	containerClient "github.com/nspcc-dev/neofs-node/pkg/morph/client/container"
	netmapClient "github.com/nspcc-dev/neofs-node/pkg/morph/client/netmap"
	cid "github.com/nspcc-dev/neofs-sdk-go/container/id"
	"go.uber.org/zap"
)

type c35alpha struct{ is bool }

func (a c35alpha) IsAlphabet() bool { return a.is }

// VerifC35BasicIncome: container payment settlements (alphabet-signed Balance
// contract calls) are sent only in alphabet state, once per container.
func VerifC35BasicIncome() {
	alpha := vrt.Bool("isAlphabet")
	var calls []client.VerifCall
	client.VerifHookSend = func(c client.VerifCall) error {
		calls = append(calls, c)
		return nil
	}
	rate := vrt.U64("basicIncomeRate")
	netmapClient.VerifHookBasicIncomeRate = func() (uint64, error) { return rate, nil }
	n := vrt.Choice("containers", 3)
	containerClient.VerifHookList = func() ([]cid.ID, error) {
		var l []cid.ID
		for i := 0; i < n; i++ {
			l = append(l, cid.ID{byte(i + 1)})
		}
		return l, nil
	}
	bc, err := balanceClient.NewFromMorph(&client.Client{}, util.Uint160{0xb0}, balanceClient.AsAlphabet())
	if err != nil {
		panic(err)
	}
	cc, err := containerClient.NewFromMorph(&client.Client{}, util.Uint160{0xc0}, containerClient.AsAlphabet())
	if err != nil {
		panic(err)
	}
	nc, err := netmapClient.NewFromMorph(&client.Client{}, util.Uint160{0x4e}, netmapClient.AsAlphabet())
	if err != nil {
		panic(err)
	}
	p := &Processor{log: zap.NewNop(), state: c35alpha{alpha}, cnrClient: cc, nmClient: nc, balanceClient: bc}
	p.HandleBasicIncomeEvent(NewBasicIncomeEvent(vrt.U64("epoch")))
	if len(calls) > 0 {
		vrt.Assert(alpha, "a non-alphabet node never sends payment settlements")
		vrt.Assert(rate != 0 && len(calls) == n, "one settlement per container, none at zero rate")
		vrt.Reach("acted")
	} else {
		vrt.Assert(!alpha || rate == 0 || n == 0, "an alphabet node settles every container")
		vrt.Reach("silent")
	}
}
