//go:build verif

package shard

import (
	"github.com/nspcc-dev/neofs-node/internal/vrt"
	"github.com/nspcc-dev/neofs-node/pkg/local_object_storage/blobstor/common"
	meta "github.com/nspcc-dev/neofs-node/pkg/local_object_storage/metabase"
	"github.com/nspcc-dev/neofs-node/pkg/local_object_storage/shard/mode"
	apistatus "github.com/nspcc-dev/neofs-sdk-go/client/status"
	"github.com/nspcc-dev/neofs-sdk-go/object"
	oid "github.com/nspcc-dev/neofs-sdk-go/object/id"
	"go.uber.org/zap"
)

var c44blob map[oid.Address]bool

type c44store struct{ common.Storage }

func (c44store) Delete(a oid.Address) error {
	if !c44blob[a] {
		return apistatus.ErrObjectNotFound
	}
	delete(c44blob, a)
	return nil
}
func (c44store) Type() string { return "model" }

func c44put(db *meta.DB, o *object.Object) {
	vrt.Assert(db.Put(o) == nil, "setup put")
	c44blob[o.Address()] = true
}

// VerifC44Collect: a shard in read-write mode holding a garbage-marked object,
// a tombstoned object with its tombstone, an expired unlocked object, an
// expired but locked object and a removed container; garbage collection passes
// with a symbolic batch size while epochs advance: everything that should go is
// eventually deleted from metadata and blob storage, the locked object stays
// until its lock expired, the removed container disappears once empty.
func VerifC44Collect() {
	c44blob = map[oid.Address]bool{}
	ep := &meta.VerifEpoch{E: 12}
	db := meta.VerifNewModelDB(ep)
	c44put(db, meta.VerifObj(0, 1, object.TypeRegular, -1, 3)) // garbage-marked
	c44put(db, meta.VerifObj(0, 2, object.TypeRegular, -1, 3)) // tombstoned
	c44put(db, meta.VerifObj(0, 3, object.TypeRegular, 10, 3)) // expired at 12
	c44put(db, meta.VerifObj(0, 4, object.TypeRegular, 10, 3)) // expired but locked until 20
	c44put(db, meta.VerifObj(0, 9, object.TypeRegular, -1, 3)) // stays
	c44put(db, meta.VerifObj(1, 1, object.TypeRegular, -1, 3)) // removed container
	l := meta.VerifObj(0, 6, object.TypeLock, 20, 0)
	l.AssociateLocked(meta.VerifOID(4))
	c44put(db, l)
	ts := meta.VerifObj(0, 5, object.TypeTombstone, 15, 0)
	ts.AssociateDeleted(meta.VerifOID(2))
	c44put(db, ts)
	// a tombstone broadcast to this shard for an object another shard stores:
	// its garbage mark (smallest ID, listed first) names nothing stored here
	elsewhere := vrt.Bool("tombstoneForAnObjectStoredElsewhere")
	if elsewhere {
		ts0 := meta.VerifObj(0, 7, object.TypeTombstone, 15, 0)
		ts0.AssociateDeleted(meta.VerifOID(0))
		c44put(db, ts0)
	}
	_, err := db.MarkGarbage(meta.VerifCID(0), []oid.ID{meta.VerifOID(1)}, meta.GarbageMarkDefault)
	vrt.Assert(err == nil, "mark")
	_, err = db.InhumeContainer(meta.VerifCID(1))
	vrt.Assert(err == nil, "container removal")

	s := &Shard{cfg: &cfg{log: zap.NewNop(), rmBatchSize: 1 + vrt.Choice("batchSize", 3)}, gc: &gc{}, metaBase: db}
	s.blobStor = c44store{}
	s.info.Mode = mode.ReadWrite
	// what the engine does with expired objects a shard reports: unlocked ones are marked as garbage
	s.expiredObjectsCallback = func(addrs []oid.Address) {
		for _, a := range addrs {
			if locked, _ := db.IsLocked(a); !locked {
				_, _ = db.MarkGarbage(a.Container(), []oid.ID{a.Object()}, meta.GarbageMarkDefault)
			}
		}
	}
	gone := func(c, o byte) bool {
		ok, _ := db.Exists(meta.VerifAddr(c, o), true)
		st, _ := db.ObjectStatus(meta.VerifAddr(c, o))
		return !ok && !c44blob[meta.VerifAddr(c, o)] && len(st.HeaderIndex) == 0
	}
	passes := vrt.Param("PASSES")
	s.gc.currentEpoch.Store(12)
	for i := 0; i < passes; i++ {
		s.removeGarbage()
	}
	if elsewhere {
		gb, gerr := db.GetGarbage(10)
		vrt.Assert(gerr == nil, "garbage listing works")
		for _, b := range gb {
			for _, id := range b.Objects {
				vrt.Assert(id != meta.VerifOID(0), "a garbage mark for an object that is not stored here does not stay in the garbage list")
			}
		}
	}
	vrt.Assert(gone(0, 1), "a garbage-marked object is eventually deleted from metadata and blob storage")
	vrt.Assert(gone(0, 2), "a tombstoned object is eventually deleted")
	vrt.Assert(gone(0, 3), "an expired unlocked object is eventually deleted")
	vrt.Assert(gone(1, 1), "objects of a removed container are eventually deleted")
	ok, lerr := db.Exists(meta.VerifAddr(0, 4), false)
	vrt.Assert(ok && lerr == nil && c44blob[meta.VerifAddr(0, 4)], "an expired object with a live lock is kept")
	okBy, _ := db.Exists(meta.VerifAddr(0, 9), false)
	vrt.Assert(okBy && c44blob[meta.VerifAddr(0, 9)], "an object that should stay is never collected")
	cnrs, _ := db.Containers()
	for _, c := range cnrs {
		vrt.Assert(c != meta.VerifCID(1), "a removed container disappears from the metadata once it is empty")
	}
	// epochs advance beyond the expiration of the tombstone (15) and the lock (20)
	later := vrt.U64("laterEpoch")
	vrt.Assume(later > 20)
	ep.E = later
	s.gc.currentEpoch.Store(later)
	for i := 0; i < passes; i++ {
		s.removeGarbage()
	}
	vrt.Assert(gone(0, 5), "a tombstone is removed some time after it expired")
	if elsewhere {
		vrt.Assert(gone(0, 7), "a tombstone is removed some time after it expired")
	}
	vrt.Assert(gone(0, 6), "a lock is removed some time after it expired")
	vrt.Assert(gone(0, 4), "once its lock expired, the expired object is collected")
	vrt.Reach("end")
}
