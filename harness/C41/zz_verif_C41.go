//go:build verif

package object

import (
	"github.com/nspcc-dev/neofs-node/internal/vrt"
	protoobject "github.com/nspcc-dev/neofs-sdk-go/proto/object"
	iprotobuf "github.com/nspcc-dev/neofs-sdk-go/proto/protobuf"
	"google.golang.org/protobuf/encoding/protowire"
	"google.golang.org/protobuf/proto"
)

// c41checkField: a reported field really is a LEN field with number num at
// exactly these bounds of buf, judged by the reference decoder (protowire).
func c41checkField(buf []byte, f iprotobuf.FieldBounds, num protowire.Number, lo, hi int, what string) {
	if f.IsMissing() {
		return
	}
	vrt.Assert(lo <= f.From && f.From < f.ValueFrom && f.ValueFrom <= f.To && f.To <= hi, what+": bounds lie inside the enclosing message")
	if !(0 <= f.From && f.From < f.ValueFrom && f.ValueFrom <= f.To && f.To <= len(buf)) {
		return
	}
	n, typ, tl := protowire.ConsumeTag(buf[f.From:])
	vrt.Assert(tl > 0 && n == num && typ == protowire.BytesType, what+": tag at the reported position is the field's tag")
	if tl <= 0 {
		return
	}
	val, vl := protowire.ConsumeBytes(buf[f.From+tl:])
	vrt.Assert(vl > 0 && f.ValueFrom == f.From+tl+vl-len(val) && f.To == f.From+tl+vl, what+": value bounds equal what full decoding finds")
}

// refFind walks a message with the reference decoder and returns the bounds of
// the first field num (from, valueFrom, to), or ok=false if the walk fails or
// the field is absent.
func refFind(buf []byte, num protowire.Number) (from, vfrom, to int, ok bool) {
	off := 0
	var prev protowire.Number
	for off < len(buf) {
		n, typ, tl := protowire.ConsumeTag(buf[off:])
		if tl <= 0 {
			return 0, 0, 0, false
		}
		vl := protowire.ConsumeFieldValue(n, typ, buf[off+tl:])
		if vl <= 0 {
			return 0, 0, 0, false
		}
		if n == num {
			if typ != protowire.BytesType {
				return 0, 0, 0, false
			}
			val, _ := protowire.ConsumeBytes(buf[off+tl:])
			return off, off + tl + vl - len(val), off + tl + vl, true
		}
		if n > num || n <= prev {
			// the fast paths are specified for ascending field order only
			return 0, 0, 0, false
		}
		prev = n
		off += tl + vl
	}
	return 0, 0, 0, false
}

// VerifC41Bounds: GetNonPayloadFieldBounds on an arbitrary buffer of N bytes.
func VerifC41Bounds() {
	buf := vrt.Bytes("buf", vrt.Param("N"))
	idf, sigf, hdrf, err := GetNonPayloadFieldBounds(buf)
	if err != nil {
		vrt.Reach("error")
		return
	}
	c41checkField(buf, idf, protoobject.FieldObjectID, 0, len(buf), "object ID")
	c41checkField(buf, sigf, protoobject.FieldObjectSignature, 0, len(buf), "object signature")
	c41checkField(buf, hdrf, protoobject.FieldObjectHeader, 0, len(buf), "object header")
	if !idf.IsMissing() && !sigf.IsMissing() {
		vrt.Assert(idf.To <= sigf.From, "fields do not overlap (ID before signature)")
	}
	if !sigf.IsMissing() && !hdrf.IsMissing() {
		vrt.Assert(sigf.To <= hdrf.From, "fields do not overlap (signature before header)")
	}
	// completeness against the reference walk
	if f, _, t, ok := refFind(buf, protoobject.FieldObjectHeader); ok {
		vrt.Assert(!hdrf.IsMissing() && hdrf.From == f && hdrf.To == t, "a header that full decoding finds is found by the fast path")
	}
	vrt.Reach("ok")
}

// VerifC41Parent: GetParentNonPayloadFieldBounds on an arbitrary buffer: the
// parent fields lie inside the split header of the object's header.
func VerifC41Parent() {
	buf := vrt.Bytes("buf", vrt.Param("N"))
	idf, sigf, hdrf, err := GetParentNonPayloadFieldBounds(buf)
	if err != nil {
		vrt.Reach("error")
		return
	}
	if idf.IsMissing() && sigf.IsMissing() && hdrf.IsMissing() {
		vrt.Reach("none")
		return
	}
	// locate header and split with the reference decoder
	_, hv, ht, ok := refFind(buf, protoobject.FieldObjectHeader)
	vrt.Assert(ok, "parent fields are reported only for objects with a header")
	if !ok {
		return
	}
	_, sv, st, ok2 := refFind(buf[hv:ht], protoobject.FieldHeaderSplit)
	vrt.Assert(ok2, "parent fields are reported only for headers with a split header")
	if !ok2 {
		return
	}
	lo, hi := hv+sv, hv+st
	c41checkField(buf, idf, protoobject.FieldHeaderSplitParent, lo, hi, "parent ID")
	c41checkField(buf, sigf, protoobject.FieldHeaderSplitParentSignature, lo, hi, "parent signature")
	c41checkField(buf, hdrf, protoobject.FieldHeaderSplitParentHeader, lo, hi, "parent header")
	vrt.Reach("found")
}

// VerifC41Scalars: payload length and type readers on an arbitrary header buffer.
func VerifC41Scalars() {
	buf := vrt.Bytes("buf", vrt.Param("N"))
	ln, err := GetPayloadLengthHeader(buf)
	if err == nil {
		// reference: first field with that number must be a varint with this value
		off := 0
		found := false
		var prev protowire.Number
		for off < len(buf) {
			n, typ, tl := protowire.ConsumeTag(buf[off:])
			if tl <= 0 {
				break
			}
			if n == protoobject.FieldHeaderPayloadLength && typ == protowire.VarintType {
				v, vl := protowire.ConsumeVarint(buf[off+tl:])
				if vl > 0 {
					vrt.Assert(v == ln, "payload length equals the decoded varint")
					found = true
				}
				break
			}
			vl := protowire.ConsumeFieldValue(n, typ, buf[off+tl:])
			if vl <= 0 || n > protoobject.FieldHeaderPayloadLength || n <= prev {
				break // ascending order only
			}
			prev = n
			off += tl + vl
		}
		if !found {
			vrt.Assert(ln == 0, "missing payload length reads as zero")
		}
		vrt.Reach("len-ok")
	}
	_, _ = GetTypeHeader(buf)
	vrt.Reach("end")
}

// c41Unmarshal replaces proto.Unmarshal (reflection based): arbitrary verdict.
func c41Unmarshal(b []byte, m proto.Message) error {
	if vrt.Bool("unmarshalFails") {
		return errEmptyData
	}
	return nil
}

// VerifC41Extract: ExtractHeaderAndPayload never panics on arbitrary input and
// the payload prefix is a suffix of the input.
func VerifC41Extract() {
	buf := vrt.Bytes("buf", vrt.Param("N"))
	_, rest, err := ExtractHeaderAndPayload(buf)
	if err == nil {
		vrt.Assert(len(rest) <= len(buf), "payload prefix is a suffix of the input")
		vrt.Reach("ok")
	}
	vrt.Reach("end")
}

// c41longVarint: a tag byte followed by a ten-byte varint (nine continuation
// bytes) and TAIL further bytes: field lengths and values of 2^63 and above.
func c41longVarint() []byte {
	buf := vrt.Bytes("buf", 11+vrt.Param("TAIL"))
	for i := 1; i <= 9; i++ {
		vrt.Assume(buf[i] >= 0x80)
	}
	return buf
}

// VerifC41LongVarint: every fast path on buffers whose first field carries a
// ten-byte varint (length prefixes up to 2^64-1): errors, never a panic.
func VerifC41LongVarint() {
	buf := c41longVarint()
	switch vrt.Choice("fn", 4) {
	case 0:
		_, rest, err := ExtractHeaderAndPayload(buf)
		if err == nil {
			vrt.Assert(len(rest) <= len(buf), "payload prefix is a suffix of the input")
		}
	case 1:
		idf, sigf, hdrf, err := GetNonPayloadFieldBounds(buf)
		if err == nil {
			c41checkField(buf, idf, protoobject.FieldObjectID, 0, len(buf), "object ID")
			c41checkField(buf, sigf, protoobject.FieldObjectSignature, 0, len(buf), "object signature")
			c41checkField(buf, hdrf, protoobject.FieldObjectHeader, 0, len(buf), "object header")
		}
	case 2:
		_, _, _, _ = GetParentNonPayloadFieldBounds(buf)
		_, _, _, _ = GetParentNonPayloadFieldBoundsHeader(buf)
	case 3:
		_, _ = GetPayloadLengthHeader(buf)
		_, _ = GetTypeHeader(buf)
	}
	vrt.Reach("end")
}
