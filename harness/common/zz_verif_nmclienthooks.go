//go:build verif

package netmap

import "github.com/nspcc-dev/neofs-sdk-go/netmap"

// VerifHookNetMap models reading the current network map from the Netmap
// contract. The real method is renamed to NetMap__real.
var VerifHookNetMap func() (*netmap.NetMap, error)

func (c *Client) NetMap() (*netmap.NetMap, error) {
	if h := VerifHookNetMap; h != nil {
		return h()
	}
	return c.NetMap__real()
}
