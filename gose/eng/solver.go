package eng

import (
	"bufio"
	"fmt"
	"io"
	"math/big"
	"os"
	"os/exec"
	"strings"
	"time"
)

type Res int

const (
	Unsat Res = iota
	Sat
	Unknown
)

func (r Res) String() string { return [...]string{"unsat", "sat", "unknown"}[r] }

// Solver drives one persistent `z3 -in` process.
type Solver struct {
	bin       string
	args      []string
	cmd       *exec.Cmd
	in        io.WriteCloser
	out       *bufio.Reader
	defined   map[int]bool
	declared  map[string]bool
	vars      []*Term
	log       strings.Builder // transcript since last reset (definitions + level-0 assertions)
	keepLog   bool
	timeoutMs int
	Queries   int
	Time      time.Duration
	Errors    int
}

func NewSolver(bin string, timeoutMs int, keepLog bool) (*Solver, error) {
	s := &Solver{bin: bin, timeoutMs: timeoutMs, keepLog: keepLog}
	switch {
	case bin == "cvc5-int":
		s.bin = "cvc5"
		s.args = []string{"--incremental", "--lang=smt2", "--produce-models", "--solve-bv-as-int=sum", fmt.Sprintf("--tlimit-per=%d", timeoutMs)}
	case strings.Contains(bin, "cvc5"):
		s.args = []string{"--incremental", "--lang=smt2", "--produce-models", fmt.Sprintf("--tlimit-per=%d", timeoutMs)}
	default:
		s.args = []string{"-in"}
	}
	if err := s.start(); err != nil {
		return nil, err
	}
	return s, nil
}

func (s *Solver) start() error {
	s.cmd = exec.Command(s.bin, s.args...)
	in, err := s.cmd.StdinPipe()
	if err != nil {
		return err
	}
	out, err := s.cmd.StdoutPipe()
	if err != nil {
		return err
	}
	s.cmd.Stderr = nil
	if err := s.cmd.Start(); err != nil {
		return err
	}
	s.in = in
	s.out = bufio.NewReaderSize(out, 1<<16)
	s.defined = map[int]bool{}
	s.declared = map[string]bool{}
	s.vars = nil
	s.log.Reset()
	s.preamble()
	return nil
}

func (s *Solver) preamble() {
	if strings.Contains(s.bin, "cvc5") {
		s.send("(set-logic ALL)")
	} else {
		s.send(fmt.Sprintf("(set-option :timeout %d)", s.timeoutMs))
	}
}

func (s *Solver) Close() {
	if s.cmd != nil {
		s.in.Close()
		s.cmd.Process.Kill()
		s.cmd.Wait()
		s.cmd = nil
	}
}

// restart replaces a dead or killed solver process and re-establishes the
// definitions and level-0 assertions of the current path from the transcript.
func (s *Solver) restart() {
	defined, declared, vars, log := s.defined, s.declared, s.vars, s.log.String()
	s.Close()
	if err := s.start(); err != nil {
		return
	}
	s.defined, s.declared, s.vars = defined, declared, vars
	io.WriteString(s.in, log)
	s.log.WriteString(log)
}

func (s *Solver) in0() {}

func (s *Solver) send(line string) {
	io.WriteString(s.in, line)
	io.WriteString(s.in, "\n")
}

func (s *Solver) sendLog(line string) {
	s.send(line)
	if s.keepLog {
		s.log.WriteString(line)
		s.log.WriteString("\n")
	}
}

// Reset clears all assertions and definitions (start of a new path).
func (s *Solver) Reset() {
	s.send("(reset)")
	clear(s.defined)
	clear(s.declared)
	s.vars = s.vars[:0]
	s.log.Reset()
	s.preamble()
}

func symName(n string) string {
	return "|" + strings.ReplaceAll(strings.ReplaceAll(n, "|", "_"), "\\", "_") + "|"
}

// define emits declarations/definitions for every sub-term of t not yet known.
func (s *Solver) define(t *Term) {
	// iterative post-order
	type fr struct {
		t *Term
		i int
	}
	st := []fr{{t, 0}}
	for len(st) > 0 {
		f := &st[len(st)-1]
		x := f.t
		if x.Op == OConst {
			st = st[:len(st)-1]
			continue
		}
		if x.Op == OVar {
			if !s.declared[x.Name] {
				s.declared[x.Name] = true
				s.vars = append(s.vars, x)
				s.sendLog(fmt.Sprintf("(declare-const %s %s)", x.Name, x.S))
			}
			st = st[:len(st)-1]
			continue
		}
		if s.defined[x.id] {
			st = st[:len(st)-1]
			continue
		}
		if f.i < len(x.A) {
			c := x.A[f.i]
			f.i++
			if c.Op != OConst && !(c.Op != OVar && s.defined[c.id]) {
				st = append(st, fr{c, 0})
			}
			continue
		}
		if x.Op == OUF && !s.declared[x.Name] {
			s.declared[x.Name] = true
			var sb strings.Builder
			fmt.Fprintf(&sb, "(declare-fun %s (", x.Name)
			for i, a := range x.A {
				if i > 0 {
					sb.WriteString(" ")
				}
				sb.WriteString(a.S.String())
			}
			fmt.Fprintf(&sb, ") %s)", x.S)
			s.sendLog(sb.String())
		}
		s.defined[x.id] = true
		s.sendLog(fmt.Sprintf("(define-fun t%d () %s %s)", x.id, x.S, x.body()))
		st = st[:len(st)-1]
	}
}

// Assert adds t to the path condition (level 0).
func (s *Solver) Assert(t *Term) {
	if t.IsTrue() {
		return
	}
	s.define(t)
	s.sendLog("(assert " + t.ref() + ")")
}

// Script returns a standalone SMT-LIB script deciding pc ∧ extra.
func (s *Solver) Script(extra *Term) string {
	if extra == nil {
		return s.log.String() + "(check-sat)\n"
	}
	return s.log.String() + "(assert " + extra.ref() + ")\n(check-sat)\n"
}

const doneMark = "__gose_done__"

func (s *Solver) readUntilDone() ([]string, error) {
	var lines []string
	for {
		l, err := s.out.ReadString('\n')
		if err != nil {
			return lines, err
		}
		l = strings.TrimSpace(l)
		if strings.Contains(l, doneMark) {
			return lines, nil
		}
		if l != "" {
			lines = append(lines, l)
		}
	}
}

// Check decides pc ∧ extra (extra may be nil). With wantModel it returns the
// values of all declared variables on sat.
func (s *Solver) Check(extra *Term, wantModel bool) (Res, map[string]*big.Int) {
	t0 := time.Now()
	defer func() { s.Time += time.Since(t0); s.Queries++ }()
	if extra != nil {
		if extra.IsFalse() {
			return Unsat, nil
		}
		s.define(extra)
	}
	s.send("(push 1)")
	if extra != nil && !extra.IsTrue() {
		s.send("(assert " + extra.ref() + ")")
	}
	s.send("(check-sat)")
	s.send("(echo \"" + doneMark + "\")")
	s.in0()
	// watchdog: some tactics ignore the soft timeout; kill the solver then.
	proc := s.cmd.Process
	wd := time.AfterFunc(time.Duration(s.timeoutMs)*time.Millisecond*3/2+3*time.Second, func() { proc.Kill() })
	lines, err := s.readUntilDone()
	wd.Stop()
	if d := os.Getenv("GOSE_SLOWLOG"); d != "" && time.Since(t0) > 2*time.Second {
		os.WriteFile(fmt.Sprintf("%s/slow-%d.smt2", d, time.Now().UnixNano()), []byte(s.Script(extra)), 0o644)
	}
	if err != nil {
		s.Errors++
		s.restart()
		return Unknown, nil
	}
	res := Unknown
	bad := false
	for _, l := range lines {
		switch {
		case l == "sat":
			res = Sat
		case l == "unsat":
			res = Unsat
		case l == "unknown":
			res = Unknown
		case strings.HasPrefix(l, "(error"):
			bad = true
		}
	}
	if bad {
		s.Errors++
		res = Unknown
	}
	var model map[string]*big.Int
	if res == Sat && wantModel && len(s.vars) > 0 {
		var sb strings.Builder
		sb.WriteString("(get-value (")
		for _, v := range s.vars {
			sb.WriteString(v.Name + " ")
		}
		sb.WriteString("))")
		s.send(sb.String())
		s.send("(echo \"" + doneMark + "\")")
		ml, err := s.readUntilDone()
		if err == nil {
			model = parseModel(strings.Join(ml, " "))
		}
	}
	s.send("(pop 1)")
	return res, model
}

// parseModel parses ((name value) ...) as printed by get-value.
func parseModel(txt string) map[string]*big.Int {
	m := map[string]*big.Int{}
	toks := tokenize(txt)
	// structure: ( ( name val ) ( name val ) ... ) where val may be (- n)
	i := 0
	next := func() string {
		if i < len(toks) {
			t := toks[i]
			i++
			return t
		}
		return ""
	}
	if next() != "(" {
		return m
	}
	for i < len(toks) {
		t := next()
		if t == ")" {
			break
		}
		if t != "(" {
			continue
		}
		name := next()
		v := next()
		val := new(big.Int)
		switch {
		case v == "(":
			op := next()
			if op == "-" {
				n := next()
				val.SetString(n, 10)
				val.Neg(val)
				next() // )
			} else if op == "_" { // (_ bv123 64)
				n := next()
				next()
				next()
				val.SetString(strings.TrimPrefix(n, "bv"), 10)
			} else {
				// unknown structure; skip to matching paren
				depth := 1
				for depth > 0 && i < len(toks) {
					x := next()
					if x == "(" {
						depth++
					} else if x == ")" {
						depth--
					}
				}
			}
		case strings.HasPrefix(v, "#x"):
			val.SetString(v[2:], 16)
		case strings.HasPrefix(v, "#b"):
			val.SetString(v[2:], 2)
		case v == "true":
			val.SetInt64(1)
		case v == "false":
			val.SetInt64(0)
		default:
			val.SetString(v, 10)
		}
		next() // )
		m[name] = val
	}
	return m
}

func tokenize(s string) []string {
	var toks []string
	i := 0
	for i < len(s) {
		c := s[i]
		switch {
		case c == ' ' || c == '\t' || c == '\n' || c == '\r':
			i++
		case c == '(' || c == ')':
			toks = append(toks, string(c))
			i++
		case c == '|':
			j := i + 1
			for j < len(s) && s[j] != '|' {
				j++
			}
			toks = append(toks, s[i:min(j+1, len(s))])
			i = j + 1
		default:
			j := i
			for j < len(s) && !strings.ContainsRune(" \t\n\r()", rune(s[j])) {
				j++
			}
			toks = append(toks, s[i:j])
			i = j
		}
	}
	return toks
}

// RunScriptModel decides a standalone script and returns variable values on sat.
func RunScriptModel(bin string, script string, vars []*Term, timeoutMs int) (Res, map[string]*big.Int) {
	var sb strings.Builder
	sb.WriteString(script)
	if len(vars) > 0 {
		sb.WriteString("(get-value (")
		for _, v := range vars {
			sb.WriteString(v.Name + " ")
		}
		sb.WriteString("))\n")
	}
	res, out := runScriptOut(bin, sb.String(), timeoutMs)
	if res != Sat {
		return res, nil
	}
	i := strings.Index(out, "((")
	if i < 0 {
		return res, map[string]*big.Int{}
	}
	return res, parseModel(out[i:])
}

// RunScript decides a standalone script with the given solver binary.
func RunScript(bin string, script string, timeoutMs int) Res {
	r, _ := runScriptOut(bin, script, timeoutMs)
	return r
}

func runScriptOut(bin string, script string, timeoutMs int) (Res, string) {
	var args []string
	switch {
	case bin == "cvc5-int":
		bin = "cvc5"
		args = []string{"--lang=smt2", "--produce-models", "--solve-bv-as-int=sum", fmt.Sprintf("--tlimit=%d", timeoutMs)}
		script = "(set-logic ALL)\n" + script
	case strings.Contains(bin, "cvc5"):
		args = []string{"--lang=smt2", "--produce-models", fmt.Sprintf("--tlimit=%d", timeoutMs)}
		script = "(set-logic ALL)\n" + script
	default:
		args = []string{"-in", fmt.Sprintf("-t:%d", timeoutMs), "model=true"}
	}
	cmd := exec.Command(bin, args...)
	cmd.Stdin = strings.NewReader(script)
	out, _ := cmd.Output()
	res := Unknown
	for _, l := range strings.Split(string(out), "\n") {
		l = strings.TrimSpace(l)
		switch {
		case l == "sat":
			return Sat, string(out)
		case l == "unsat":
			return Unsat, string(out)
		case l == "unknown":
			return Unknown, string(out)
		case strings.HasPrefix(l, "(error"):
			// an error before the verdict makes the verdict unusable
			return Unknown, string(out)
		}
	}
	return res, string(out)
}

// Vars returns the variables declared in this session.
func (s *Solver) Vars() []*Term { return s.vars }
