//go:build verif

package shard

import (
	"context"
	"errors"

	"github.com/nspcc-dev/neofs-node/internal/vrt"
	cid "github.com/nspcc-dev/neofs-sdk-go/container/id"
	"go.uber.org/zap"
)

// ghost state of the C47 harness
var c47 struct {
	disabled   bool
	listErr    bool
	unpaidErr  [2]bool
	unpaid     [2]int64
	deleteErr  bool
	deleted    [2]int
	asked      [2]int
	containers []cid.ID
}

type c47Payments struct{}

func (c47Payments) PaymentsDisabled() bool { return c47.disabled }
func (c47Payments) UnpaidSince(c cid.ID) (int64, error) {
	i := int(c[0])
	c47.asked[i]++
	if c47.unpaidErr[i] {
		return c47.unpaid[i], errors.New("payment check failed")
	}
	return c47.unpaid[i], nil
}

// replaced collaborators (the real ones are renamed to *__real by the overlay)
func (s *Shard) ListContainers() ([]cid.ID, error) {
	if c47.listErr {
		return c47.containers, errors.New("list failed")
	}
	return c47.containers, nil
}

func (s *Shard) DeleteContainer(_ context.Context, c cid.ID) error {
	c47.deleted[int(c[0])]++
	if c47.deleteErr {
		return errors.New("delete failed")
	}
	return nil
}

// VerifC47Epoch: the unpaid-container branch of the new-epoch handler, for
// every processed epoch (64-bit), every unpaid-since value (int64) of two
// containers, and every combination of disabled payments / list error /
// payment-check error / failing deletion.
func VerifC47Epoch() {
	c47.disabled = vrt.Bool("paymentsDisabled")
	c47.listErr = vrt.Bool("listErr")
	c47.deleteErr = vrt.Bool("deleteErr")
	c47.containers = []cid.ID{{0}, {1}}
	for i := 0; i < 2; i++ {
		c47.unpaidErr[i] = vrt.Bool("unpaidErr")
		c47.unpaid[i] = vrt.I64("unpaidSince")
		c47.deleted[i], c47.asked[i] = 0, 0
	}
	epoch := vrt.U64("epoch")
	s := &Shard{cfg: &cfg{log: zap.NewNop(), gcCfg: gcCfg{containerPayments: c47Payments{}}}, gc: &gc{}}
	s.setEpochEventHandler(newEpoch{epoch: epoch})

	vrt.Assert(s.gc.currentEpoch.Load() == epoch, "current epoch recorded")
	for i := 0; i < 2; i++ {
		u := c47.unpaid[i]
		usable := !c47.disabled && !c47.listErr && !c47.unpaidErr[i]
		if !usable {
			vrt.Assert(c47.deleted[i] == 0, "disabled payments, list errors and payment-check errors never discard a container")
			continue
		}
		if u < 0 {
			vrt.Assert(c47.deleted[i] == 0, "paid containers are never discarded")
			continue
		}
		if uint64(u) > epoch {
			vrt.Assert(c47.deleted[i] == 0, "an unpaid mark newer than the processed epoch never discards a container")
			continue
		}
		if epoch-uint64(u) < 3 {
			vrt.Assert(c47.deleted[i] == 0, "unpaid for less than three epochs: kept")
		} else {
			vrt.Assert(c47.deleted[i] == 1, "unpaid for at least three epochs: discarded exactly once")
		}
	}
	vrt.Reach("end")
}
