//go:build verif

package replicator

import (
	"context"
	"errors"

	"github.com/nspcc-dev/neofs-node/internal/vrt"
	putsvc "github.com/nspcc-dev/neofs-node/pkg/services/object/put"
	apistatus "github.com/nspcc-dev/neofs-sdk-go/client/status"
	"github.com/nspcc-dev/neofs-sdk-go/netmap"
	"github.com/nspcc-dev/neofs-sdk-go/object"
	oid "github.com/nspcc-dev/neofs-sdk-go/object/id"
	"go.uber.org/zap"
)

type c27key struct{}

func (c27key) IsLocalNodePublicKey([]byte) bool { return false }

type c27res struct{ got [4]int }

func (r *c27res) SubmitSuccessfulReplication(n netmap.NodeInfo) { r.got[int(n.PublicKey()[0])]++ }

// VerifC27Replicator: HandleTask over N candidate nodes with a symbolic number
// of requested copies and every combination of remote outcomes (stored /
// refused with the maintenance status / other error): successes are reported
// only for nodes that stored the object, each once, never more than asked.
func VerifC27Replicator() {
	n := 1 + vrt.Choice("candidates", 3)
	quantity := uint32(vrt.IntRange("copies", 0, 4))
	var outcome, called [4]int
	for i := 0; i < n; i++ {
		outcome[i] = vrt.Choice("remoteOutcome", 3)
	}
	putsvc.VerifHookReplicate = func(_ oid.ID, node netmap.NodeInfo) error {
		i := int(node.PublicKey()[0])
		called[i]++
		switch outcome[i] {
		case 0:
			return nil
		case 1:
			return apistatus.ErrNodeUnderMaintenance
		}
		return errors.New("connection refused")
	}
	p := &Replicator{cfg: &cfg{log: zap.NewNop(), remoteSender: new(putsvc.RemoteSender), localNodeKey: c27key{}}}
	var t Task
	nodes := make([]netmap.NodeInfo, n)
	for i := range nodes {
		nodes[i].SetPublicKey([]byte{byte(i)})
	}
	t.SetNodes(nodes)
	t.SetCopiesNumber(quantity)
	obj := new(object.Object)
	obj.SetPayload([]byte{1, 2, 3})
	t.SetObject(obj)
	var res c27res
	p.HandleTask(context.Background(), t, &res)
	total := uint32(0)
	for i := 0; i < n; i++ {
		vrt.Assert(res.got[i] <= 1, "a node is reported at most once")
		if res.got[i] > 0 {
			vrt.Assert(called[i] == 1 && outcome[i] == 0, "success is reported only for a node that stored the object")
		}
		total += uint32(res.got[i])
	}
	vrt.Assert(total <= quantity, "never more successes than copies asked for")
	// completeness: successes = min(asked, number of accepting nodes) in list order
	ok := uint32(0)
	for i := 0; i < n; i++ {
		if outcome[i] == 0 {
			ok++
		}
	}
	want := ok
	if quantity < want {
		want = quantity
	}
	vrt.Assert(total == want, "as many copies as asked are made when enough nodes accept")
	putsvc.VerifHookReplicate = nil
	vrt.Reach("end")
}
