//go:build verif

package container

import (
	"errors"
	"math/big"

	"github.com/nspcc-dev/neo-go/pkg/core/transaction"
	"github.com/nspcc-dev/neo-go/pkg/crypto/hash"
	"github.com/nspcc-dev/neo-go/pkg/crypto/keys"
	"github.com/nspcc-dev/neo-go/pkg/network/payload"
	"github.com/nspcc-dev/neo-go/pkg/smartcontract"
	"github.com/nspcc-dev/neo-go/pkg/util"
	"github.com/nspcc-dev/neo-go/pkg/vm/opcode"
	containerrpc "github.com/nspcc-dev/neofs-contract/rpc/container"
	"github.com/nspcc-dev/neofs-node/internal/vrt"
	cntClient "github.com/nspcc-dev/neofs-node/pkg/morph/client/container"
	"github.com/nspcc-dev/neofs-node/pkg/morph/event"
	"github.com/nspcc-dev/neofs-sdk-go/container"
	cid "github.com/nspcc-dev/neofs-sdk-go/container/id"
	"github.com/nspcc-dev/neofs-sdk-go/eacl"
	"github.com/panjf2000/ants/v2"
	"go.uber.org/zap"
)

type c34blocks struct {
	h   uint32
	err bool
}

func (b c34blocks) BlockCount() (uint32, error) {
	if b.err {
		return 0, errors.New("RPC failure")
	}
	return b.h, nil
}

func c34key(n int64) *keys.PublicKey { return &keys.PublicKey{X: big.NewInt(n), Y: big.NewInt(2)} }

var (
	c34cnrContract   = util.Uint160{0xc0}
	c34otherContract = util.Uint160{0xdd}
)

// c34call describes one contract call of the main script.
type c34call struct {
	contract util.Uint160
	method   string
}

// VerifC34CoSign: a notary request whose main script has one to three calls
// (Container contract or another contract; remove / createV2 / putEACL / an
// unknown method) and whose structure is valid or broken in one place is fed
// to the real listener (preparator, parsers, container handlers, processor).
// The alphabet signature is added only if the structure is valid, the fallback
// has not expired, and every call of the script is an expected, validated one.
func VerifC34CoSign() {
	e := c37setup()
	ants.VerifInline = true
	alphabet := keys.PublicKeys{c34key(1), c34key(2), c34key(3), c34key(4)}
	height := vrt.U32("chainHeight")
	heightErr := vrt.Bool("chainHeightUnknown")
	l := event.VerifNewListener(zap.NewNop())
	localAcc := util.Uint160{0x10}
	l.EnableNotarySupport(util.Uint160{0x99}, localAcc, func() (keys.PublicKeys, error) { return alphabet, nil }, c34blocks{height, heightErr})
	for _, p := range e.cp.ListenerNotaryParsers() {
		l.SetNotaryParser(p)
	}
	for _, h := range e.cp.ListenerNotaryHandlers() {
		l.RegisterNotaryHandler(h)
	}

	// the container the requests are about; user #1 owns it and signs with key #1
	cnr := c37container(1, true)
	bin := cnr.Marshal()
	c37reg.cnr[string(bin)] = cnr
	id := cid.NewFromMarshalledContainer(bin)
	cntClient.VerifHookGet = func(b []byte) (container.Container, error) { return cnr, nil }
	nonce := make([]byte, 16)
	nonce[0] = 0x77
	cntClient.VerifHookFromStruct = func(s containerrpc.ContainerInfo) (container.Container, error) {
		if len(s.Nonce) != 16 || s.Nonce[0] != 0x77 {
			return container.Container{}, errors.New("invalid container structure")
		}
		return cnr, nil
	}
	tbl := eacl.NewTableForContainer(id, nil)
	tblBin := tbl.Marshal()
	c37reg.eacl[string(tblBin)] = tbl
	invoc, verif, token := []byte{0xEE}, []byte{1}, []byte{}

	// the script
	ncalls := 1 + vrt.Choice("calls", 3)
	var calls []c34call
	b := smartcontract.NewBuilder()
	for i := 0; i < ncalls; i++ {
		c := c34call{contract: c34cnrContract}
		if vrt.Bool("callOfAnotherContract") {
			c.contract = c34otherContract
		}
		switch vrt.Choice("callMethod", 4) {
		case 0:
			c.method = "remove"
			b.InvokeMethod(c.contract, c.method, id[:], invoc, verif, token)
		case 1:
			c.method = "putEACL"
			b.InvokeMethod(c.contract, c.method, tblBin, invoc, verif, token)
		case 2:
			c.method = "createV2"
			b.InvokeMethod(c.contract, c.method, []any{nil, util.Uint160{1}, nonce, big.NewInt(0x1fbfbfff), []any{}, []byte{1}}, invoc, verif, token)
		case 3:
			c.method = "transfer"
			b.InvokeMethod(c.contract, c.method, tblBin, invoc, verif, token)
		}
		calls = append(calls, c)
	}
	script, err := b.Script()
	if err != nil {
		panic(err)
	}

	// the structure of the request
	alphaScript, err := smartcontract.CreateMultiSigRedeemScript(len(alphabet)*2/3+1, alphabet)
	if err != nil {
		panic(err)
	}
	alphaAcc := hash.Hash160(alphaScript)
	invoker := vrt.Bool("withInvokerWitness")
	signers := []transaction.Signer{{Account: util.Uint160{0x01}}, {Account: alphaAcc}}
	scripts := []transaction.Witness{{}, {VerificationScript: alphaScript}}
	nkeys := uint8(len(alphabet))
	if invoker {
		signers = append(signers, transaction.Signer{Account: util.Uint160{0x03}})
		scripts = append(scripts, transaction.Witness{InvocationScript: []byte{1}, VerificationScript: []byte{2}})
		nkeys++
	}
	signers = append(signers, transaction.Signer{Account: util.Uint160{0x04}})
	scripts = append(scripts, transaction.Witness{})
	attrs := []transaction.Attribute{{Type: transaction.NotaryAssistedT, Value: &transaction.NotaryAssisted{NKeys: nkeys}}}
	nvb := vrt.U32("fallbackNotValidBefore")
	fbAttrs := []transaction.Attribute{
		{Type: transaction.NotaryAssistedT, Value: &transaction.NotaryAssisted{NKeys: 0}},
		{Type: transaction.NotValidBeforeT, Value: &transaction.NotValidBefore{Height: nvb}},
		{Type: transaction.ConflictsT, Value: &transaction.Conflicts{}},
	}
	fbSigner := util.Uint160{0x55}
	broken := vrt.Choice("structureDefect", 12)
	switch broken {
	case 1:
		signers = signers[:len(signers)-1]
	case 2:
		signers[1].Account = util.Uint160{0x66}
	case 3:
		scripts[0].InvocationScript = []byte{1}
	case 4:
		scripts[1].VerificationScript = []byte{byte(opcode.PUSH1)}
	case 5:
		scripts[len(scripts)-1].VerificationScript = []byte{1}
	case 6:
		scripts[len(scripts)-1].InvocationScript = []byte{1, 2, 3}
	case 7:
		attrs[0].Value = &transaction.NotaryAssisted{NKeys: nkeys + 1}
	case 8:
		attrs = append(attrs, transaction.Attribute{Type: transaction.HighPriority})
	case 9:
		fbAttrs = fbAttrs[:2]
	case 10:
		scripts = scripts[:2]
		signers = signers[:2]
	case 11:
		fbSigner = localAcc // the node's own request
	}
	if broken == 0 && invoker && vrt.Bool("invokerWitnessEmpty") {
		scripts[2] = transaction.Witness{}
		broken = 12
	}
	nr := &payload.P2PNotaryRequest{
		MainTransaction:     &transaction.Transaction{Script: script, Signers: signers, Scripts: scripts, Attributes: attrs, Nonce: 5},
		FallbackTransaction: &transaction.Transaction{Signers: []transaction.Signer{{Account: util.Uint160{0x04}}, {Account: fbSigner}}, Attributes: fbAttrs},
	}

	event.VerifHandleNotary(l, nr)

	// which scripts consist of expected, validated calls only
	expected := false
	first := calls[0]
	if first.contract == c34cnrContract {
		switch {
		case ncalls == 1 && (first.method == "remove" || first.method == "putEACL" || first.method == "createV2"):
			expected = true
		case ncalls == 2 && first.method == "createV2" && calls[1].contract == c34cnrContract && calls[1].method == "putEACL":
			expected = true
		}
	}
	structOK := broken == 0 && !heightErr && height < nvb
	cosigned := false
	for _, c := range e.calls {
		if c.Kind == "cosign" {
			cosigned = true
			vrt.Assert(c.Tx != nil && len(c.Tx.Script) == len(script), "what is co-signed is the received main transaction")
		}
	}
	if cosigned {
		vrt.Assert(structOK, "a notary request with broken structure or an expired fallback is never co-signed")
		vrt.Assert(expected, "a main transaction is co-signed only if every contract call of its script is an expected one")
		vrt.Reach("cosigned")
	} else {
		vrt.Reach("ignored")
	}
}
