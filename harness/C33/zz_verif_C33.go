//go:build verif

package crypto

import (
	"context"
	"crypto/sha256"
	"errors"

	"github.com/nspcc-dev/neo-go/pkg/util"
	"github.com/nspcc-dev/neofs-node/internal/vrt"
	"github.com/nspcc-dev/neofs-node/pkg/network/peerauth"
	protoobject "github.com/nspcc-dev/neofs-sdk-go/proto/object"
	protosession "github.com/nspcc-dev/neofs-sdk-go/proto/session"
)

type c33chain struct{}

func (c33chain) InvokeContainedScript(any, any, any) (any, error) { return nil, nil }

// VerifC33Exemption: a request is treated as authentic only if its signature
// chain verifies, except the one-hop request (TTL = 1, no verification header)
// from an authenticated peer connection. TTL is a symbolic 32-bit value.
func VerifC33Exemption() {
	chainOK := vrt.Bool("chainVerifies")
	trusted := vrt.Bool("peerAuthenticated")
	asked := 0
	VerifHookChain = func() error {
		asked++
		if !chainOK {
			return errors.New("invalid signature")
		}
		return nil
	}
	peerauth.VerifHookTrusted = func() bool { return trusted }
	req := new(protoobject.HeadRequest)
	withMeta := vrt.Bool("metaHeaderPresent")
	ttl := vrt.U32("ttl")
	if withMeta {
		req.MetaHeader = &protosession.RequestMetaHeader{Ttl: ttl}
	}
	withVerify := vrt.Bool("verificationHeaderPresent")
	if withVerify {
		req.VerifyHeader = new(protosession.RequestVerificationHeader)
	}
	var err error
	if vrt.Bool("withContextVariant") {
		err = VerifyRequestSignaturesWithContext(context.Background(), req)
	} else {
		err = VerifyRequestSignatures(req)
		trusted = false // the plain variant knows no exemption
	}
	exempt := trusted && withMeta && ttl == 1 && !withVerify
	if err == nil {
		vrt.Assert(chainOK && asked == 1 || exempt, "accepted only if the whole chain verifies, or for the one-hop request of an authenticated peer")
		vrt.Reach("accepted")
	} else {
		vrt.Assert(!chainOK, "a request whose chain verifies is accepted")
		vrt.Reach("rejected")
	}
	if exempt {
		vrt.Reach("exempt")
	}
	VerifHookChain, peerauth.VerifHookTrusted = nil, nil
}

// c33part is one signed part of a single-layer request.
type c33part struct {
	data   []byte
	invoc  []byte // the invocation script (signature) the signer made for this part
	forged bool
}

// VerifC33N3Witnesses: a request signed with the N3 scheme by a contract
// account; the SDK's walk hands every signed part (meta header, body, origin
// link) with its witness to the node's callback; the FS chain run of a witness
// is a verdict: it succeeds only for the part's own data and the witness made
// for it. An adversary replaces the data of some parts and moves witnesses
// between parts. The request is accepted only if every part carries the
// witness made for exactly its bytes.
func VerifC33N3Witnesses() {
	verif := []byte{0x40, 0x41}
	parts := []*c33part{
		{data: []byte("meta header"), invoc: []byte{1}},
		{data: []byte("body"), invoc: []byte{2}},
		{data: []byte("origin"), invoc: []byte{3}},
	}
	// the FS chain accepts a witness exactly for the data it was made for
	VerifHookN3 = func(_ uint32, _ util.Uint160, invoc, vs []byte, dataHash [sha256.Size]byte) error {
		if len(invoc) == 1 && len(vs) == 2 && vs[0] == verif[0] {
			for _, p := range parts {
				if p.invoc[0] == invoc[0] && dataHash == sha256.Sum256(p.data) {
					return nil
				}
			}
		}
		return errors.New("witness does not verify")
	}
	// what the adversary sends
	type sent struct{ data, invoc []byte }
	var msg []sent
	authentic := true
	for i, p := range parts {
		s := sent{data: p.data, invoc: p.invoc}
		if vrt.Bool("partModified") {
			s.data = append([]byte("evil "), p.data...)
			authentic = false
		}
		w := vrt.Choice("witnessTakenFromPart", len(parts))
		s.invoc = parts[w].invoc
		if w != i {
			authentic = false
		}
		msg = append(msg, s)
	}
	VerifHookChainN3 = func(verifyN3 func(data, invocScript, verifScript []byte) error) error {
		for _, s := range msg {
			if err := verifyN3(s.data, s.invoc, verif); err != nil {
				return err
			}
		}
		return nil
	}
	req := new(protoobject.HeadRequest)
	req.MetaHeader = &protosession.RequestMetaHeader{Ttl: 2}
	req.VerifyHeader = new(protosession.RequestVerificationHeader)
	err := VerifyRequestSignaturesN3(context.Background(), req, nil) // the FS chain run is the verdict hook
	if err == nil {
		vrt.Assert(authentic, "a request is accepted only if every signed part carries the witness made for exactly its bytes")
		vrt.Reach("n3-accepted")
	} else {
		vrt.Assert(!authentic, "an authentically signed request is accepted")
		vrt.Reach("n3-rejected")
	}
	VerifHookChainN3, VerifHookN3 = nil, nil
}
