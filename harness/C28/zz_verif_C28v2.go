//go:build verif

package v2

import (
	"errors"

	"github.com/nspcc-dev/neofs-node/internal/vrt"
	"github.com/nspcc-dev/neofs-sdk-go/container/acl"
	cid "github.com/nspcc-dev/neofs-sdk-go/container/id"
	"github.com/nspcc-dev/neofs-sdk-go/user"
	"go.uber.org/zap"
)

type c28ir struct{ keys [][]byte }

func (x c28ir) InnerRingKeys() [][]byte { return x.keys }

type c28chain struct {
	FSChain
	in  bool
	err bool
}

func (x c28chain) InContainerInLastTwoEpochs(cid.ID, []byte) (bool, error) {
	if x.err {
		return x.in, errors.New("placement is impossible")
	}
	return x.in, nil
}

// VerifC28Classifier: requester role = owner > inner ring > container node >
// others, with symbolic identities; lookup errors fall through to the weaker role.
func VerifC28Classifier() {
	var owner, author user.ID
	owner[1] = vrt.Byte("ownerID")
	author[1] = vrt.Byte("authorID")
	key := []byte{vrt.Byte("authorKey")}
	ir := c28ir{keys: [][]byte{{vrt.Byte("innerRingKey0")}, {vrt.Byte("innerRingKey1")}}}
	chain := c28chain{in: vrt.Bool("keyOfContainerNode"), err: vrt.Bool("containerLookupFails")}
	c := senderClassifier{log: zap.NewNop(), innerRing: ir, fsChain: chain}
	var cn cid.ID
	role, err := c.classify(cn, owner, author, key)
	vrt.Assert(err == nil, "classification never fails")
	isIR := key[0] == ir.keys[0][0] || key[0] == ir.keys[1][0]
	switch {
	case author == owner:
		vrt.Assert(role == acl.RoleOwner, "the container owner is the owner")
	case isIR:
		vrt.Assert(role == acl.RoleInnerRing, "an inner ring key is the inner ring")
	case chain.in && !chain.err:
		vrt.Assert(role == acl.RoleContainer, "a container node key is a container node")
	default:
		vrt.Assert(role == acl.RoleOthers, "everybody else, and every failed lookup, is others")
	}
	vrt.Reach("end")
}
