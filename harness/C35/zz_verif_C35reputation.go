//go:build verif

package reputation

import (
	"github.com/nspcc-dev/neo-go/pkg/core/transaction"
	"github.com/nspcc-dev/neo-go/pkg/network/payload"
	"github.com/nspcc-dev/neo-go/pkg/util"
	"github.com/nspcc-dev/neofs-node/internal/vrt"
	"github.com/nspcc-dev/neofs-node/pkg/morph/client"
	repClient "github.com/nspcc-dev/neofs-node/pkg/morph/client/reputation"
	reputationEvent "github.com/nspcc-dev/neofs-node/pkg/morph/event/reputation"
	neofscrypto "github.com/nspcc-dev/neofs-sdk-go/crypto"
	"github.com/nspcc-dev/neofs-sdk-go/netmap"
	"github.com/nspcc-dev/neofs-sdk-go/reputation"
	"go.uber.org/zap"
)

type c35alpha struct{ is bool }

func (a c35alpha) IsAlphabet() bool { return a.is }

type c35epoch struct{}

func (c35epoch) EpochCounter() uint64 { return 7 }

type c35mng struct{ key []byte }

func (m c35mng) BuildManagers(uint64, reputation.PeerID) ([]netmap.NodeInfo, error) {
	var n netmap.NodeInfo
	n.SetPublicKey(m.key)
	return []netmap.NodeInfo{n}, nil
}

type c35pub struct{}

func (c35pub) MaxEncodedSize() int     { return 1 }
func (c35pub) Encode(b []byte) int     { b[0] = 9; return 1 }
func (c35pub) Decode([]byte) error     { return nil }
func (c35pub) Verify(_, _ []byte) bool { return true }

type c35signer struct{}

func (c35signer) Scheme() neofscrypto.Scheme    { return neofscrypto.ECDSA_SHA512 }
func (c35signer) Sign([]byte) ([]byte, error)   { return []byte{1}, nil }
func (c35signer) Public() neofscrypto.PublicKey { return c35pub{} }

// VerifC35ReputationPut: a global trust value is co-signed only in alphabet state.
func VerifC35ReputationPut() {
	alpha := vrt.Bool("isAlphabet")
	var calls []client.VerifCall
	client.VerifHookSend = func(c client.VerifCall) error {
		calls = append(calls, c)
		return nil
	}
	neofscrypto.VerifHookVerify = func(neofscrypto.Signature, []byte) bool { return true }
	rc, err := repClient.NewFromMorph(&client.Client{}, util.Uint160{0x7e}, repClient.AsAlphabet())
	if err != nil {
		panic(err)
	}
	mk := make([]byte, 33)
	mk[0], mk[1] = 2, 5
	var mng reputation.PeerID
	mng.SetPublicKey(mk)
	var gt reputation.GlobalTrust
	gt.Init()
	gt.SetManager(mng)
	var tr reputation.Trust
	tr.SetPeer(mng)
	gt.SetTrust(tr)
	if err := gt.Sign(c35signer{}); err != nil {
		panic(err)
	}
	rp := &Processor{log: zap.NewNop(), epochState: c35epoch{}, alphabetState: c35alpha{alpha}, reputationWrp: rc, mngBuilder: c35mng{mk}}
	tx := &transaction.Transaction{Script: []byte{1}}
	rp.processPut(reputationEvent.VerifNewPut(3, mng, gt, &payload.P2PNotaryRequest{MainTransaction: tx}))
	if len(calls) > 0 {
		vrt.Assert(alpha, "a non-alphabet node never co-signs a reputation value")
		vrt.Reach("acted")
	} else {
		vrt.Assert(!alpha, "an alphabet node approves a valid reputation value")
		vrt.Reach("silent")
	}
}
