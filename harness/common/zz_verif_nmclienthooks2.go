//go:build verif

package netmap

// VerifHookBasicIncomeRate models reading the basic income rate from the
// Netmap contract configuration. The real method is renamed to BasicIncomeRate__real.
var VerifHookBasicIncomeRate func() (uint64, error)

func (c *Client) BasicIncomeRate() (uint64, error) {
	if h := VerifHookBasicIncomeRate; h != nil {
		return h()
	}
	return c.BasicIncomeRate__real()
}
