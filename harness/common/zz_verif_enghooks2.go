//go:build verif

package engine

import oid "github.com/nspcc-dev/neofs-sdk-go/object/id"

// unsortedShards iterates a Go map in the real code: any order is possible, so
// under verifShardOrder it is an arbitrary forked permutation as well.
func (e *StorageEngine) unsortedShards() []shardWrapper {
	if !verifShardOrder {
		return e.unsortedShards__real()
	}
	return e.sortedShards(oid.ID{})
}
