//go:build verif

package fstree

import oid "github.com/nspcc-dev/neofs-sdk-go/object/id"

// Hooks that let harnesses of other packages (write-cache) replace the
// file-tree storage by a model. Real methods are renamed to <name>__real.
var (
	VerifHookPut      func(*FSTree, oid.Address, []byte) error
	VerifHookDelete   func(*FSTree, oid.Address) error
	VerifHookGetBytes func(*FSTree, oid.Address) ([]byte, error)
)

func (t *FSTree) Put(addr oid.Address, data []byte) error {
	if h := VerifHookPut; h != nil {
		return h(t, addr, data)
	}
	return t.Put__real(addr, data)
}

func (t *FSTree) Delete(addr oid.Address) error {
	if h := VerifHookDelete; h != nil {
		return h(t, addr)
	}
	return t.Delete__real(addr)
}

func (t *FSTree) GetBytes(addr oid.Address) ([]byte, error) {
	if h := VerifHookGetBytes; h != nil {
		return h(t, addr)
	}
	return t.GetBytes__real(addr)
}
