package eng

import (
	"fmt"
	"os"
	"path/filepath"
	"strings"
	"time"

	"golang.org/x/tools/go/packages"
	"golang.org/x/tools/go/ssa"
	"golang.org/x/tools/go/ssa/ssautil"
)

type Loaded struct {
	Prog     *ssa.Program
	Pkg      *ssa.Package
	All      []*ssa.Package
	LoadTime time.Duration
	SSATime  time.Duration
	NPkgs    int
}

// Load type-checks pattern in repoDir with the overlay files injected and
// builds SSA for the whole program.
func Load(repoDir, pattern string, overlay map[string][]byte, tags []string, extraFlags ...string) (*Loaded, error) {
	t0 := time.Now()
	cfg := &packages.Config{
		Mode:       packages.LoadAllSyntax,
		Dir:        repoDir,
		Overlay:    overlay,
		BuildFlags: append([]string{"-tags=" + strings.Join(tags, ","), "-mod=mod"}, extraFlags...),
		Env:        append(os.Environ(), "GOFLAGS=-mod=mod", "GOPROXY=off", "GOSUMDB=off", "GOTOOLCHAIN=local"),
	}
	pkgs, err := packages.Load(cfg, pattern)
	if err != nil {
		return nil, err
	}
	var errs []string
	packages.Visit(pkgs, nil, func(p *packages.Package) {
		for _, e := range p.Errors {
			if len(errs) < 20 {
				errs = append(errs, e.Error())
			}
		}
	})
	if len(errs) > 0 {
		return nil, fmt.Errorf("load errors:\n%s", strings.Join(errs, "\n"))
	}
	if len(pkgs) != 1 {
		return nil, fmt.Errorf("pattern %s matched %d packages", pattern, len(pkgs))
	}
	lt := time.Since(t0)
	t1 := time.Now()
	prog, spkgs := ssautil.AllPackages(pkgs, ssa.InstantiateGenerics)
	prog.Build()
	n := 0
	for range prog.AllPackages() {
		n++
	}
	return &Loaded{Prog: prog, Pkg: spkgs[0], All: prog.AllPackages(), LoadTime: lt, SSATime: time.Since(t1), NPkgs: n}, nil
}

// OverlayFromDir maps every *.go file of srcDir to dstDir inside the repo.
func OverlayFromDir(overlay map[string][]byte, srcDir, dstDir string) error {
	ents, err := os.ReadDir(srcDir)
	if err != nil {
		return err
	}
	for _, e := range ents {
		if e.IsDir() || !strings.HasSuffix(e.Name(), ".go") {
			continue
		}
		b, err := os.ReadFile(filepath.Join(srcDir, e.Name()))
		if err != nil {
			return err
		}
		overlay[filepath.Join(dstDir, e.Name())] = b
	}
	return nil
}
