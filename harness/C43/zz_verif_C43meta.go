//go:build verif

package meta

import (
	"errors"

	"github.com/nspcc-dev/bbolt"
	"github.com/nspcc-dev/neofs-node/internal/vrt"
	"github.com/nspcc-dev/neofs-node/pkg/local_object_storage/shard/mode"
	"github.com/nspcc-dev/neofs-sdk-go/object"
)

var c43metaModes = [...]mode.Mode{mode.ReadWrite, mode.ReadOnly, mode.Degraded, mode.DegradedReadOnly}

// VerifC43MetaModes: the real mode switch of the metabase (close, reopen,
// initialise) over a database file model whose open may fail. After every
// switch that reports success the metabase is in the requested mode with a
// database handle that serves it: reads work in every mode with a metabase,
// writes work in read-write mode, the stored object is still there. A failed
// switch may leave the metabase unusable, but a following successful switch
// (a retry, or the return to read-write) restores it.
func VerifC43MetaModes() {
	ep := &vmEpoch{e: 3}
	db := vmNewDB(ep)
	db.info.Path = "model/meta"
	vrt.Assert(db.Put(vmObj(0, 1, object.TypeRegular, -1, 7)) == nil, "setup put")
	file := db.boltDB
	openFails := false
	bbolt.VerifHookOpen = func(_ string, o *bbolt.Options) (*bbolt.DB, error) {
		if openFails {
			return nil, errors.New("open: input/output error")
		}
		return bbolt.VerifReopen(file, o != nil && o.ReadOnly), nil
	}
	steps := int(vrt.Param("T"))
	failures := 0
	// a failed switch that had closed an open database / that started without one
	failedFromOpen, failedFromNone := false, false
	for i := 0; i < steps; i++ {
		target := c43metaModes[vrt.Choice("targetMode", len(c43metaModes))]
		openFails = failures < int(vrt.Param("MAXFAIL")) && vrt.Bool("databaseOpenFails")
		hadDB := !db.mode.NoMetabase()
		same := db.mode == target
		err := db.SetMode(target)
		if err != nil {
			vrt.Assert(openFails && !target.NoMetabase(), "a mode switch fails only when the database cannot be opened")
			failures++
			if hadDB {
				failedFromOpen = true
			} else {
				failedFromNone = true
			}
			vrt.Reach("switch-failed")
			continue
		}
		_ = same
		suffix := ""
		switch {
		case failedFromOpen:
			suffix = " (after a failed switch that had closed the open database)"
		case failedFromNone:
			suffix = " (after a failed switch from a mode without a metabase)"
		}
		vrt.Assert(db.mode == target, "a successful switch leaves the metabase in the requested mode"+suffix)
		if target.NoMetabase() {
			_, eerr := db.Exists(vmAddr(0, 1), false)
			vrt.Assert(errors.Is(eerr, ErrDegradedMode), "without a metabase every operation is refused as degraded"+suffix)
			continue
		}
		vrt.Assert(bbolt.VerifIsModel(db.boltDB), "a successful switch to a mode with a metabase leaves an open database"+suffix)
		if !bbolt.VerifIsModel(db.boltDB) {
			return
		}
		ok, eerr := db.Exists(vmAddr(0, 1), false)
		vrt.Assert(ok && eerr == nil, "the stored object is still known after the switch"+suffix)
		perr := db.Put(vmObj(0, byte(10+i), object.TypeRegular, -1, 1))
		if target.ReadOnly() {
			vrt.Assert(errors.Is(perr, ErrReadOnlyMode), "a read-only metabase refuses writes"+suffix)
		} else {
			vrt.Assert(perr == nil, "a read-write metabase accepts writes"+suffix)
		}
		vrt.Reach("switched")
	}
	bbolt.VerifHookOpen = nil
}
