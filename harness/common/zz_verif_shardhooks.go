//go:build verif

package shard

import (
	"github.com/nspcc-dev/neofs-node/pkg/local_object_storage/blobstor/common"
	"github.com/nspcc-dev/neofs-node/pkg/local_object_storage/shard/mode"
	cid "github.com/nspcc-dev/neofs-sdk-go/container/id"
	"go.uber.org/zap"
)

// Hooks that let harnesses of other packages (engine) replace shard methods by
// models. The real methods are renamed to <name>__real by the overlay; an unset
// hook falls through to the real code.
var (
	VerifHookListContainers  func(*Shard) ([]cid.ID, error)
	VerifHookInhumeContainer func(*Shard, cid.ID) error
)

// VerifNewModelShard returns a Shard without components, identified by id.
func VerifNewModelShard(id byte, m mode.Mode) *Shard {
	s := &Shard{cfg: &cfg{log: zap.NewNop()}, gc: &gc{}}
	raw := make([]byte, common.IDSize)
	raw[0] = id
	s.info.ID, _ = common.NewIDFromBytes(raw)
	s.info.Mode = m
	return s
}

// VerifIndex returns the id byte given to VerifNewModelShard.
func (s *Shard) VerifIndex() int { return int(s.info.ID.Bytes()[0]) }

func (s *Shard) ListContainers() ([]cid.ID, error) {
	if h := VerifHookListContainers; h != nil {
		return h(s)
	}
	return s.ListContainers__real()
}

func (s *Shard) InhumeContainer(c cid.ID) error {
	if h := VerifHookInhumeContainer; h != nil {
		return h(s, c)
	}
	return s.InhumeContainer__real(c)
}
