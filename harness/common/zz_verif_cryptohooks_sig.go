//go:build verif

package neofscrypto

// VerifHookVerify models signature verification as a verdict function of
// (scheme, signature bytes, signed data). The real method is renamed to Verify__real.
var VerifHookVerify func(x Signature, data []byte) bool

func (x Signature) Verify(data []byte) bool {
	if h := VerifHookVerify; h != nil {
		return h(x, data)
	}
	return x.Verify__real(data)
}
