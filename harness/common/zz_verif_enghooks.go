//go:build verif

package engine

import (
	"github.com/nspcc-dev/neofs-node/internal/vrt"
	oid "github.com/nspcc-dev/neofs-sdk-go/object/id"
)

// verifShardOrder, when set, makes sortedShards return the shards in an
// arbitrary (forked) order instead of the HRW order, which depends on hashes.
var verifShardOrder bool

// verifOrderOnce, when set together with verifShardOrder, draws the permutation
// once per run and reuses it for every call (quick tiers); otherwise every call
// draws its own order.
var (
	verifOrderOnce bool
	verifOrderPerm []int
)

func (e *StorageEngine) sortedShards(id oid.ID) []shardWrapper {
	if !verifShardOrder {
		return e.sortedShards__real(id)
	}
	// shards by their model index, then a forked permutation
	byIdx := make([]shardWrapper, len(e.shards))
	for _, sh := range e.shards {
		byIdx[sh.Shard.VerifIndex()] = sh
	}
	res := make([]shardWrapper, 0, len(byIdx))
	if verifOrderOnce && len(verifOrderPerm) == len(byIdx) {
		for _, i := range verifOrderPerm {
			sh := byIdx[i]
			sh.shardIface = sh.Shard
			res = append(res, sh)
		}
		return res
	}
	var perm []int
	idx := make([]int, len(byIdx))
	for i := range idx {
		idx[i] = i
	}
	for len(byIdx) > 0 {
		c := 0
		if len(byIdx) > 1 {
			c = vrt.Choice("shardOrder", len(byIdx))
		}
		sh := byIdx[c]
		sh.shardIface = sh.Shard
		res = append(res, sh)
		perm = append(perm, idx[c])
		byIdx = append(byIdx[:c:c], byIdx[c+1:]...)
		idx = append(idx[:c:c], idx[c+1:]...)
	}
	if verifOrderOnce {
		verifOrderPerm = perm
	}
	return res
}
