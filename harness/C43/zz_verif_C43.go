//go:build verif

package shard

import (
	"errors"

	"github.com/nspcc-dev/neofs-node/internal/vrt"
	"github.com/nspcc-dev/neofs-node/pkg/local_object_storage/blobstor/common"
	meta "github.com/nspcc-dev/neofs-node/pkg/local_object_storage/metabase"
	"github.com/nspcc-dev/neofs-node/pkg/local_object_storage/shard/mode"
	"github.com/nspcc-dev/neofs-node/pkg/local_object_storage/writecache"
	"go.uber.org/zap"
)

// component models that record their mode and the order of switches and may fail
var c43 struct {
	metaMode, wcMode mode.Mode
	blobRO, blobOpen bool
	order            []string
	failures         int
	failed           map[string]bool
}

func c43fails(what string) bool {
	if c43.failures < vrt.Param("MAXFAIL") && vrt.Bool("fails:"+what) {
		c43.failures++
		c43.failed[what] = true
		return true
	}
	return false
}

type c43blob struct{ common.Storage }

func (c43blob) Close() error { c43.blobOpen = false; return nil }
func (c43blob) Open(ro bool) error {
	if c43fails("blobstor") {
		return errors.New("blobstor open failed")
	}
	c43.blobOpen, c43.blobRO = true, ro
	c43.order = append(c43.order, "blobstor")
	return nil
}
func (c43blob) Init(common.ID) error { return nil }

type c43wc struct{ writecache.Cache }

func (c43wc) SetMode(m mode.Mode) error {
	if c43fails("writecache") {
		return errors.New("write-cache mode switch failed")
	}
	c43.wcMode = m
	c43.order = append(c43.order, "writecache")
	return nil
}

var c43modes = [...]mode.Mode{mode.ReadWrite, mode.ReadOnly, mode.Degraded, mode.DegradedReadOnly}

// VerifC43ModeChanges: sequences of T mode changes with symbolic targets and up
// to MAXFAIL failing component switches: the reported mode changes exactly when
// every component switched; the switch order is write-cache first when leaving
// read-write and metabase first when returning to it; after any sequence that
// ends with a successful switch every component is in the reported mode.
func VerifC43ModeChanges() {
	c43.metaMode, c43.wcMode, c43.blobRO, c43.blobOpen, c43.failures = mode.ReadWrite, mode.ReadWrite, false, true, 0
	c43.failed = map[string]bool{}
	meta.VerifHookSetMode = func(_ *meta.DB, m mode.Mode) error {
		if c43fails("metabase") {
			return errors.New("metabase reopen failed")
		}
		c43.metaMode = m
		c43.order = append(c43.order, "metabase")
		return nil
	}
	s := &Shard{cfg: &cfg{log: zap.NewNop(), useWriteCache: vrt.Bool("withWriteCache"), initedStorage: true}, gc: &gc{}, metaBase: new(meta.DB), writeCache: c43wc{}}
	s.blobStor = c43blob{}
	s.info.Mode = mode.ReadWrite
	nsteps := vrt.Param("T")
	failedBefore := false
	for i := 0; i < nsteps; i++ {
		old := s.info.Mode
		target := c43modes[vrt.Choice("target", len(c43modes))]
		c43.order = nil
		err := s.SetMode(target)
		if err != nil {
			vrt.Assert(s.info.Mode == old, "a failed switch leaves the reported mode unchanged")
			vrt.Reach("failed")
			failedBefore = true
			continue
		}
		vrt.Assert(s.info.Mode == target, "a successful switch reports the new mode")
		vrt.Assert(c43.metaMode == target, "metabase is in the reported mode")
		if target != old && !failedBefore {
			vrt.Assert(c43.blobOpen && c43.blobRO == target.ReadOnly(), "blob storage is open in the reported mode")
		}
		if s.hasWriteCache() {
			vrt.Assert(c43.wcMode == target, "write-cache is in the reported mode")
			if len(c43.order) >= 2 {
				if target != mode.ReadWrite {
					vrt.Assert(c43.order[0] == "writecache" && c43.order[len(c43.order)-1] == "metabase", "leaving read-write: write-cache first, metabase last")
				} else {
					vrt.Assert(c43.order[0] == "metabase" && c43.order[len(c43.order)-1] == "writecache", "returning to read-write: metabase first, write-cache last")
				}
			}
		}
		if target == mode.ReadWrite {
			if failedBefore {
				which := ""
				for _, n := range []string{"blobstor", "metabase", "writecache"} {
					if c43.failed[n] {
						if which != "" {
							which += ", "
						}
						which += n
					}
				}
				vrt.Assert(!c43.blobRO && c43.blobOpen && c43.metaMode == mode.ReadWrite, "returning to read-write after a failed switch restores full service (components that had failed: "+which+")")
			} else {
				vrt.Assert(!c43.blobRO && c43.blobOpen && c43.metaMode == mode.ReadWrite, "returning to read-write restores full service")
			}
		}
		vrt.Reach("switched")
	}
	meta.VerifHookSetMode = nil
}
