//go:build verif

package meta

import (
	"github.com/nspcc-dev/neofs-node/internal/vrt"
	"github.com/nspcc-dev/neofs-sdk-go/object"
)

var c18perms = [][]int{{0, 1, 2}, {0, 2, 1}, {1, 0, 2}, {1, 2, 0}, {2, 0, 1}, {2, 1, 0}}

// VerifC18ResyncOrders: the blobs of a consistent shard (an object, optionally
// its tombstone, optionally a lock that had expired before the tombstone came)
// are fed to the real batch put of the resync in every order, with the current
// epoch symbolic: the resulting status of the object is the one that follows
// from the blob set, and a removed object's payload is reclaimable (it is in
// the garbage list) whatever the order was.
func VerifC18ResyncOrders() {
	ep := &vmEpoch{e: vrt.U64("epoch")}
	vrt.Assume(ep.e > 5) // the lock (expiration 5) expired before the tombstone was accepted
	db := vmNewDB(ep)
	exps := [...]int64{-1, 30}
	r := vmObj(0, 1, object.TypeRegular, exps[vrt.Choice("objectExpiration", 2)], 7)
	ts := vmObj(0, 2, object.TypeTombstone, 40, 0)
	ts.AssociateDeleted(vmOID(1))
	l := vmObj(0, 3, object.TypeLock, 5, 0)
	l.AssociateLocked(vmOID(1))
	all := []*object.Object{r, ts, l}
	withTS := vrt.Bool("tombstoneBlob")
	withL := vrt.Bool("expiredLockBlob")
	perm := c18perms[vrt.Choice("blobOrder", len(c18perms))]
	var batch []*object.Object
	for _, i := range perm {
		if (i == 1 && !withTS) || (i == 2 && !withL) {
			continue
		}
		batch = append(batch, all[i])
	}
	splitAt := vrt.Choice("batchBoundary", len(batch)+1) // the resync flushes in batches
	vrt.Assert(db.PutBatch(batch[:splitAt]) == nil, "batch put")
	vrt.Assert(db.PutBatch(batch[splitAt:]) == nil, "batch put")

	ok, err := db.Exists(vmAddr(0, 1), false)
	got := c01class(ok, err)
	expired := r.Attributes() != nil && ep.e > 30
	switch {
	case withTS && expired:
		vrt.Assert(got == c01Removed || got == c01Expired || got == c01Absent, "a tombstoned object is never available after the rebuild")
	case withTS:
		vrt.Assert(got == c01Removed, "a tombstoned object is removed whatever the blob order")
	case expired:
		vrt.Assert(got == c01Expired, "an expired object is expired whatever the blob order")
	default:
		vrt.Assert(got == c01Available, "an object without a tombstone is available whatever the blob order")
	}
	if withTS {
		gb, gerr := db.GetGarbage(10)
		vrt.Assert(gerr == nil, "garbage listing works")
		found := false
		for _, b := range gb {
			for _, id := range b.Objects {
				if id == vmOID(1) {
					found = true
				}
			}
		}
		vrt.Assert(found, "the payload of a removed object is reclaimable after the rebuild (it is in the garbage list)")
	}
	locked, lerr := db.IsLocked(vmAddr(0, 1))
	vrt.Assert(lerr == nil && !locked, "an expired lock does not lock after the rebuild")
	vrt.Reach("end")
}

// VerifC18ResyncSplit: the blobs of a shard that holds a split object (first
// part F, last part L carrying the parent header P) and the tombstone of P are
// fed to the real batch put of the resync in every order and with every batch
// boundary. Whatever the order, P is removed, no part is served any more and
// the payload of the removed object (its parts) is reclaimable: every part is
// in the garbage list.
func VerifC18ResyncSplit() {
	ep := &vmEpoch{e: 10}
	db := vmNewDB(ep)
	first := vmObj(0, 5, object.TypeRegular, -1, 4)
	first.SetParent(vmObjNoID(0)) // the first part carries a parent header without an ID
	par := vmObj(0, 4, object.TypeRegular, -1, 8)
	last := vmObj(0, 6, object.TypeRegular, -1, 4)
	last.SetParent(par)
	last.SetParentID(vmOID(4))
	last.SetFirstID(vmOID(5))
	ts := vmObj(0, 2, object.TypeTombstone, 40, 0)
	ts.AssociateDeleted(vmOID(4))
	all := []*object.Object{first, last, ts}
	pi := vrt.Choice("blobOrder", len(c18perms))
	perm := c18perms[pi]
	var batch []*object.Object
	tsLast := perm[2] == 2
	names := [...]string{"first part", "last part", "tombstone"}
	order := names[perm[0]] + ", " + names[perm[1]] + ", " + names[perm[2]]
	for _, i := range perm {
		batch = append(batch, all[i])
	}
	splitAt := vrt.Choice("batchBoundary", len(batch)+1)
	vrt.Assert(db.PutBatch(batch[:splitAt]) == nil, "batch put")
	vrt.Assert(db.PutBatch(batch[splitAt:]) == nil, "batch put")

	ok, err := db.Exists(vmAddr(0, 4), false)
	vrt.Assert(c01class(ok, err) == c01Removed, "a tombstoned split object is removed whatever the blob order")
	gb, gerr := db.GetGarbage(10)
	vrt.Assert(gerr == nil, "garbage listing works")
	inGarbage := func(o byte) bool {
		for _, b := range gb {
			for _, id := range b.Objects {
				if id == vmOID(o) {
					return true
				}
			}
		}
		return false
	}
	for _, o := range []byte{5, 6} {
		ok, err := db.Exists(vmAddr(0, o), false)
		served := c01class(ok, err) == c01Available
		if tsLast {
			vrt.Assert(!served, "no part of a tombstoned split object is available after the rebuild")
			vrt.Assert(inGarbage(o), "the parts of a removed split object are reclaimable after the rebuild (they are in the garbage list)")
		} else {
			vrt.Assert(!served, "no part of a tombstoned split object is available after the rebuild (blob order: "+order+")")
			vrt.Assert(inGarbage(o), "the parts of a removed split object are reclaimable after the rebuild (blob order: "+order+")")
		}
	}
	vrt.Reach("end")
}

// vmObjNoID is a parent header without an ID, as the first part of a split
// chain carries it.
func vmObjNoID(c byte) *object.Object {
	o := vmObj(c, 0, object.TypeRegular, -1, 0)
	o.ResetID()
	return o
}
