//go:build verif

package session

// VerifHookUnmarshal replaces the reflection-based protobuf decoding of V2
// session tokens by a model codec (the harness maps the byte strings it
// produced with Marshal back to their tokens; anything else fails to decode).
// The real method is renamed to Unmarshal__real.
var VerifHookUnmarshal func(x *Token, data []byte) error

func (x *Token) Unmarshal(data []byte) error {
	if h := VerifHookUnmarshal; h != nil {
		return h(x, data)
	}
	return x.Unmarshal__real(data)
}
