//go:build verif

package governance

import (
	"github.com/nspcc-dev/neo-go/pkg/crypto/keys"
	"github.com/nspcc-dev/neo-go/pkg/util"
	"github.com/nspcc-dev/neofs-node/internal/vrt"
	"github.com/nspcc-dev/neofs-node/pkg/morph/client"
	neofscontract "github.com/nspcc-dev/neofs-node/pkg/morph/client/neofs"
	"go.uber.org/zap"
)

type c35alpha struct{ is bool }

func (a c35alpha) IsAlphabet() bool { return a.is }

type c35epoch struct{}

func (c35epoch) EpochCounter() uint64 { return 7 }

type c35voter struct{ votes int }

func (v *c35voter) VoteForFSChainValidator(keys.PublicKeys, *util.Uint256) error {
	v.votes++
	return nil
}

type c35ir struct{ l keys.PublicKeys }

func (f c35ir) InnerRingKeys() (keys.PublicKeys, error) { return f.l, nil }

// VerifC35AlphabetSync: with a changed main-chain alphabet, the governance
// update (validator vote, NeoFSAlphabet and notary role updates, NeoFS contract
// update) is performed only in alphabet state.
func VerifC35AlphabetSync() {
	alpha := vrt.Bool("isAlphabet")
	c36ids = map[*keys.PublicKey]int{}
	keys.VerifKeyID = func(k *keys.PublicKey) int { return c36ids[k] }
	var calls []client.VerifCall
	client.VerifHookSend = func(c client.VerifCall) error {
		calls = append(calls, c)
		return nil
	}
	fsAlphabet := keys.PublicKeys{c36key(1), c36key(2), c36key(3), c36key(4)}
	mainAlphabet := keys.PublicKeys{c36key(1), c36key(2), c36key(3), c36key(9)}
	client.VerifHookCommittee = func() (keys.PublicKeys, error) { return fsAlphabet, nil }
	client.VerifHookAlphabetList = func() (keys.PublicKeys, error) { return mainAlphabet, nil }
	nc, err := neofscontract.NewFromMorph(&client.Client{}, util.Uint160{0x10}, 0, neofscontract.TryNotary(), neofscontract.AsAlphabet())
	if err != nil {
		panic(err)
	}
	v := new(c35voter)
	gp := &Processor{
		log: zap.NewNop(), neofsClient: nc, alphabetState: c35alpha{alpha}, epochState: c35epoch{}, voter: v,
		irFetcher: c35ir{keys.PublicKeys{fsAlphabet[0], fsAlphabet[1], fsAlphabet[2], fsAlphabet[3], c36key(20)}},
		mainnetClient: &client.Client{}, fsChainClient: &client.Client{},
	}
	gp.processAlphabetSync(util.Uint256{1})
	if len(calls) > 0 || v.votes > 0 {
		vrt.Assert(alpha, "a non-alphabet node never votes or updates roles")
		vrt.Assert(v.votes == 1 && len(calls) == 3, "an alphabet node votes once and sends the three updates")
		vrt.Reach("acted")
	} else {
		vrt.Assert(!alpha, "an alphabet node performs the governance update")
		vrt.Reach("silent")
	}
}
