#!/usr/bin/env python3
# validates MANIFEST.json and every evidence file against the schemas
import json,sys,glob
import jsonschema
ms=json.load(open('/root/.vp/MANIFEST.schema.json')); es=json.load(open('/root/.vp/EVIDENCE.schema.json'))
m=json.load(open('/verif/MANIFEST.json')); jsonschema.validate(m,ms)
ids=[json.loads(l)['id'] for l in open('/verif/properties.jsonl')]
claimed=[c['property_id'] for c in m['checks']]; na=[x['property_id'] for x in m.get('not_applicable',[])]
missing=[i for i in ids if i not in claimed and i not in na]
both=[i for i in ids if i in claimed and i in na]
print('claimed',len(claimed),'n/a',len(na),'missing',missing,'both',both)
for f in sorted(glob.glob('/verif/evidence/*.json')):
    try:
        jsonschema.validate(json.load(open(f)),es)
    except Exception as e:
        print('BAD',f,str(e)[:300])
print('ok')
