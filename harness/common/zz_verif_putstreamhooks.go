//go:build verif

package putsvc

import oid "github.com/nspcc-dev/neofs-sdk-go/object/id"

// VerifHookStream, when set, replaces the upload stream's operations (target
// initialisation, payload chunks, final distribution) by a recorder: the object
// service harnesses decide what is allowed to reach them. The real methods are
// renamed to <name>__real.
var VerifHookStream func(op string) error

func (p *Streamer) Init(prm *PutInitPrm) error {
	if h := VerifHookStream; h != nil {
		return h("init")
	}
	return p.Init__real(prm)
}

func (p *Streamer) SendChunk(prm *PutChunkPrm) error {
	if h := VerifHookStream; h != nil {
		return h("chunk")
	}
	return p.SendChunk__real(prm)
}

func (p *Streamer) Close() (oid.ID, error) {
	if h := VerifHookStream; h != nil {
		return oid.ID{}, h("close")
	}
	return p.Close__real()
}

func (p *Streamer) MaxObjectSize() uint64 {
	if VerifHookStream != nil {
		return 1 << 20
	}
	return p.MaxObjectSize__real()
}
