//go:build verif

package v2

import (
	"crypto/sha256"
	"errors"
	"time"

	lru "github.com/hashicorp/golang-lru/v2"
	"github.com/nspcc-dev/neo-go/pkg/util"
	icrypto "github.com/nspcc-dev/neofs-node/internal/crypto"
	isessions "github.com/nspcc-dev/neofs-node/internal/sessions"
	"github.com/nspcc-dev/neofs-node/internal/vrt"
	nnscore "github.com/nspcc-dev/neofs-node/pkg/core/nns"
	"github.com/nspcc-dev/neofs-sdk-go/bearer"
	cid "github.com/nspcc-dev/neofs-sdk-go/container/id"
	neofscrypto "github.com/nspcc-dev/neofs-sdk-go/crypto"
	"github.com/nspcc-dev/neofs-sdk-go/eacl"
	"github.com/nspcc-dev/neofs-sdk-go/netmap"
	oid "github.com/nspcc-dev/neofs-sdk-go/object/id"
	protoacl "github.com/nspcc-dev/neofs-sdk-go/proto/acl"
	"github.com/nspcc-dev/neofs-sdk-go/proto/refs"
	protosession "github.com/nspcc-dev/neofs-sdk-go/proto/session"
	"github.com/nspcc-dev/neofs-sdk-go/session"
	sessionv2 "github.com/nspcc-dev/neofs-sdk-go/session/v2"
	"github.com/nspcc-dev/neofs-sdk-go/user"
	"go.uber.org/zap"
)

type c30nm struct {
	epoch    uint64
	epochErr bool
}

func (x *c30nm) Epoch() (uint64, error) {
	if x.epochErr {
		return 0, errors.New("epoch is unknown")
	}
	return x.epoch, nil
}
func (x *c30nm) GetNetMapByEpoch(uint64) (*netmap.NetMap, error) { panic("not used") }
func (x *c30nm) NetMap() (*netmap.NetMap, error)                 { panic("not used") }
func (x *c30nm) ServerInContainer(cid.ID) (bool, error)          { panic("not used") }
func (x *c30nm) GetEpochBlock(uint64) (uint32, error)            { panic("not used") }
func (x *c30nm) GetEpochBlockByTime(uint32) (uint32, error)      { panic("not used") }

type c30clock struct{ t time.Time }

func (x c30clock) Now() time.Time { return x.t }

type c30fschain struct{ FSChain }

func (c30fschain) HasUserInNNS(string, util.Uint160) (bool, error) { return false, nil }

// c30auth installs the authentication verdict and records what was handed in.
type c30auth struct {
	calls   int
	signed  [][]byte
	issuers []user.ID
	sigSet  []bool
	ok      []bool
}

func c30installAuth() *c30auth {
	a := new(c30auth)
	icrypto.VerifHookAuthToken = func(v2 bool, signed []byte, issuer user.ID, sig neofscrypto.Signature, sigSet bool) error {
		v := vrt.Bool("tokenCorrectlySignedByIssuer")
		a.calls++
		a.signed = append(a.signed, signed)
		a.issuers = append(a.issuers, issuer)
		a.sigSet = append(a.sigSet, sigSet)
		a.ok = append(a.ok, v)
		if !v {
			return errors.New("signature mismatch")
		}
		return nil
	}
	return a
}

func c30service(nm *c30nm, now time.Time) Service {
	bc, _ := lru.New[[32]byte, bearerTokenCommonCheckResult](10)
	return Service{
		cfg:                          &cfg{log: zap.NewNop(), nm: nm, chainTime: c30clock{now}},
		r:                            nnscore.NewResolver(c30fschain{}),
		sessionTokenCommonCheckCache: isessions.NewObjectSessionsCache(10),
		bearerTokenCommonCheckCache:  bc,
	}
}

func c30usr(n byte) user.ID { return user.NewFromScriptHash(util.Uint160{n}) }
func c30cnr(n byte) cid.ID  { return cid.ID{n} }
func c30obj(n byte) oid.ID  { return oid.ID{n} }
func c30eqb(a, b []byte) bool {
	if len(a) != len(b) {
		return false
	}
	for i := range a {
		if a[i] != b[i] {
			return false
		}
	}
	return true
}

func c30sigMsg() *refs.Signature {
	return &refs.Signature{Key: []byte{2, 1}, Sign: []byte{9}, Scheme: refs.SignatureScheme_ECDSA_RFC6979_SHA256}
}

// verb applicability as documented in assertVerb.
func c30verbOK(tokVerb, reqVerb session.ObjectVerb) bool {
	if tokVerb == reqVerb {
		return true
	}
	switch reqVerb {
	case session.VerbObjectHead:
		return tokVerb == session.VerbObjectGet || tokVerb == session.VerbObjectDelete || tokVerb == session.VerbObjectRange
	case session.VerbObjectSearch:
		return tokVerb == session.VerbObjectDelete
	}
	return false
}

func c30sessionV1Msg(exp, nbf, iat uint64, tokVerb int32, tokCnr byte, objs []byte) *protosession.SessionToken {
	issuer := c30usr(1)
	target := &refs.ContainerID{Value: make([]byte, 32)}
	target.Value[0] = tokCnr
	ctx := &protosession.ObjectSessionContext{
		Verb:   protosession.ObjectSessionContext_Verb(tokVerb),
		Target: &protosession.ObjectSessionContext_Target{Container: target},
	}
	for _, o := range objs {
		id := c30obj(o)
		ctx.Target.Objects = append(ctx.Target.Objects, &refs.ObjectID{Value: id[:]})
	}
	return &protosession.SessionToken{
		Body: &protosession.SessionToken_Body{
			Id:         []byte{1, 2, 3, 4, 5, 6, 0x47, 8, 0x89, 10, 11, 12, 13, 14, 15, 16},
			OwnerId:    &refs.OwnerID{Value: issuer[:]},
			Lifetime:   &protosession.SessionToken_Body_TokenLifetime{Exp: exp, Nbf: nbf, Iat: iat},
			SessionKey: []byte{3},
			Context:    &protosession.SessionToken_Body_Object{Object: ctx},
		},
		Signature: c30sigMsg(),
	}
}

// VerifC30SessionV1Lifetime: the common check of a V1 session token with
// arbitrary 64-bit exp/nbf/iat and current epoch: it passes only if the token
// is within its validity period and the authentication verdict, asked for the
// token's own issuer over the first bytes field of the message binary, is
// positive.
func VerifC30SessionV1Lifetime() {
	a := c30installAuth()
	exp, nbf, iat := vrt.U64("exp"), vrt.U64("nbf"), vrt.U64("iat")
	nm := &c30nm{epoch: vrt.U64("currentEpoch"), epochErr: vrt.Bool("epochUnknown")}
	b := c30service(nm, time.Time{})
	m := c30sessionV1Msg(exp, nbf, iat, int32(session.VerbObjectGet), 1, nil)
	mb := []byte{0x0a, 0x02, 0xAA, 0xBB, 0x12, 0x01, 0x00}
	tok, err := b.decodeAndVerifySessionTokenCommon(m, mb)
	within := nbf <= nm.epoch && iat <= nm.epoch && nm.epoch <= exp
	if err == nil {
		vrt.Assert(!nm.epochErr && within, "a session token outside its validity period (or with the epoch unknown) is rejected")
		vrt.Assert(a.calls == 1 && a.ok[0], "a session token is honoured only on a positive authentication verdict")
		vrt.Assert(c30eqb(a.signed[0], []byte{0xAA, 0xBB}) && a.issuers[0] == c30usr(1) && a.sigSet[0], "authentication is asked for the token body bytes, issuer and signature of the message")
		vrt.Assert(tok.Exp() == exp && tok.Nbf() == nbf && tok.Iat() == iat, "decoded lifetime is the message's")
		vrt.Reach("accepted")
	} else {
		vrt.Assert(nm.epochErr || !within || (a.calls == 1 && !a.ok[0]), "a valid, correctly signed session token is accepted")
		vrt.Reach("rejected")
	}
}

// VerifC30SessionV1Request: the whole V1 verification of a token message
// against a request (verb, container, object), through the public entry with
// its cache. The lifetime claims are fixed here (10/12/20, either order of nbf
// and iat) and the current epoch is any 64-bit value; arbitrary claims are
// VerifC30SessionV1Lifetime's.
func VerifC30SessionV1Request() {
	a := c30installAuth()
	exp, nbf, iat := uint64(20), uint64(10), uint64(12)
	if vrt.Bool("issuedBeforeNbf") {
		nbf, iat = iat, nbf
	}
	nm := &c30nm{epoch: vrt.U64("currentEpoch")}
	b := c30service(nm, time.Time{})
	tokVerb := int32(vrt.IntRange("tokenVerb", 0, 8))
	tokCnr := byte(1 + vrt.Choice("tokenContainer", 2))
	var objs []byte
	nObjs := vrt.Choice("tokenObjects", 3)
	for i := 0; i < nObjs; i++ {
		objs = append(objs, byte(1+i))
	}
	m := c30sessionV1Msg(exp, nbf, iat, tokVerb, tokCnr, objs)
	reqVerb := session.ObjectVerb(vrt.IntRange("requestVerb", 0, 8))
	reqCnr := byte(1 + vrt.Choice("requestContainer", 2))
	reqObj := byte(vrt.Choice("requestObject", 4)) // 0: none
	var ro oid.ID
	if reqObj != 0 {
		ro = c30obj(reqObj)
	}
	body := make([]byte, m.Body.MarshaledSize())
	m.Body.MarshalStable(body)

	_, err := b.VerifySessionV1TokenMessage(m, reqVerb, c30cnr(reqCnr), ro)

	within := nbf <= nm.epoch && iat <= nm.epoch && nm.epoch <= exp
	tv := session.ObjectVerb(tokVerb)
	objOK := tv == session.VerbObjectDelete || reqObj == 0 || len(objs) == 0 || int(reqObj) <= len(objs)
	applies := tokCnr == reqCnr && objOK && c30verbOK(tv, reqVerb)
	if err == nil {
		vrt.Assert(within, "a session token outside its validity period is rejected")
		vrt.Assert(a.calls == 1 && a.ok[0] && c30eqb(a.signed[0], body) && a.issuers[0] == c30usr(1), "a session token is honoured only on a positive authentication verdict over its encoded body")
		vrt.Assert(tokCnr == reqCnr, "a session token of another container is rejected")
		vrt.Assert(objOK, "a session token limited to other objects is rejected")
		vrt.Assert(c30verbOK(tv, reqVerb), "a session token of an inapplicable verb is rejected")
		vrt.Reach("accepted")
	} else {
		vrt.Assert(!(within && a.calls == 1 && a.ok[0] && applies), "a valid, correctly signed and applicable session token is accepted")
		vrt.Reach("rejected")
	}
	// second presentation of the same message: same verdict, from the cache
	_, err2 := b.VerifySessionV1TokenMessage(m, reqVerb, c30cnr(reqCnr), ro)
	vrt.Assert((err == nil) == (err2 == nil), "repeating the same token and request gives the same verdict")
}

func c30bearerMsg(exp, nbf, iat uint64, tableCnr byte, target byte, issuer byte) *protoacl.BearerToken {
	var tbl eacl.Table
	if tableCnr != 0 {
		tbl.SetCID(c30cnr(tableCnr))
	}
	m := &protoacl.BearerToken{
		Body: &protoacl.BearerToken_Body{
			EaclTable: tbl.ProtoMessage(),
			Lifetime:  &protoacl.BearerToken_Body_TokenLifetime{Exp: exp, Nbf: nbf, Iat: iat},
		},
		Signature: c30sigMsg(),
	}
	if target != 0 {
		u := c30usr(target)
		m.Body.OwnerId = &refs.OwnerID{Value: u[:]}
	}
	if issuer != 0 {
		u := c30usr(issuer)
		m.Body.Issuer = &refs.OwnerID{Value: u[:]}
	}
	return m
}

// VerifC30BearerLifetime: the common check of a bearer token with arbitrary
// 64-bit lifetime and epoch.
func VerifC30BearerLifetime() {
	a := c30installAuth()
	exp, nbf, iat := vrt.U64("exp"), vrt.U64("nbf"), vrt.U64("iat")
	nm := &c30nm{epoch: vrt.U64("currentEpoch"), epochErr: vrt.Bool("epochUnknown")}
	b := c30service(nm, time.Time{})
	m := c30bearerMsg(exp, nbf, iat, 1, 2, 1)
	mb := []byte{0x0a, 0x02, 0xAA, 0xBB, 0x12, 0x01, 0x00}
	_, err := b.decodeAndVerifyBearerTokenCommon(m, mb)
	within := nbf <= nm.epoch && iat <= nm.epoch && nm.epoch <= exp
	if err == nil {
		vrt.Assert(!nm.epochErr && within, "a bearer token outside its validity period (or with the epoch unknown) is rejected")
		vrt.Assert(a.calls == 1 && a.ok[0], "a bearer token is honoured only on a positive authentication verdict")
		vrt.Assert(c30eqb(a.signed[0], []byte{0xAA, 0xBB}) && a.issuers[0] == c30usr(1) && a.sigSet[0], "authentication is asked for the token body bytes, issuer and signature of the message")
		vrt.Reach("accepted")
	} else {
		vrt.Assert(nm.epochErr || !within || (a.calls == 1 && !a.ok[0]), "a valid, correctly signed bearer token is accepted")
		vrt.Reach("rejected")
	}
}

// VerifC30BearerRequest: a verified bearer token applies to a request only if
// it was issued by the container owner, for this (or any) container, and to
// this (or any) sender. Through the public VerifyBearerTokenMessage with its
// cache, then verifyBearerTokenAgainstRequest.
func VerifC30BearerRequest() {
	a := c30installAuth()
	exp, nbf, iat := uint64(20), uint64(10), uint64(12)
	if vrt.Bool("issuedBeforeNbf") {
		nbf, iat = iat, nbf
	}
	nm := &c30nm{epoch: vrt.U64("currentEpoch")}
	b := c30service(nm, time.Time{})
	tableCnr := byte(vrt.Choice("tokenContainer", 3)) // 0: any
	target := byte(vrt.Choice("tokenTargetUser", 3))  // 0: any
	issuer := byte(1 + vrt.Choice("tokenIssuer", 2))
	m := c30bearerMsg(exp, nbf, iat, tableCnr, target, issuer)
	body := make([]byte, m.Body.MarshaledSize())
	m.Body.MarshalStable(body)

	tok, err := b.VerifyBearerTokenMessage(m)
	within := nbf <= nm.epoch && iat <= nm.epoch && nm.epoch <= exp
	if err != nil {
		vrt.Assert(!(within && a.calls == 1 && a.ok[0]), "a valid, correctly signed bearer token is accepted")
		vrt.Reach("rejected")
		_, err2 := b.VerifyBearerTokenMessage(m)
		vrt.Assert(err2 != nil, "a rejected bearer token stays rejected when presented again")
		return
	}
	vrt.Assert(within, "a bearer token outside its validity period is rejected")
	vrt.Assert(a.calls == 1 && a.ok[0] && c30eqb(a.signed[0], body) && a.issuers[0] == c30usr(issuer), "a bearer token is honoured only on a positive authentication verdict over its encoded body")

	reqCnr := byte(1 + vrt.Choice("requestContainer", 2))
	owner := byte(1 + vrt.Choice("containerOwner", 2))
	sender := byte(1 + vrt.Choice("requestSender", 2))
	err = b.verifyBearerTokenAgainstRequest(tok, c30cnr(reqCnr), c30usr(owner), c30usr(sender))
	applies := issuer == owner && (tableCnr == 0 || tableCnr == reqCnr) && (target == 0 || target == sender)
	if err == nil {
		vrt.Assert(issuer == owner, "a bearer token not issued by the container owner is rejected")
		vrt.Assert(tableCnr == 0 || tableCnr == reqCnr, "a bearer token of another container is rejected")
		vrt.Assert(target == 0 || target == sender, "a bearer token given to another user is rejected")
		vrt.Reach("accepted")
	} else {
		vrt.Assert(!applies, "an applicable bearer token is accepted")
		vrt.Reach("inapplicable")
	}
}

var _ = bearer.Token{}

// VerifC30SessionV2: the V2 session token check: chain time (whole seconds)
// against iat/nbf/exp, verb and container applicability, authentication
// verdict. The lifetime claims are fixed instants (either order of iat and
// nbf), the current chain time is any half second within eight seconds around them.
func VerifC30SessionV2() {
	a := c30installAuth()
	const base = 1_700_000_000
	iat, nbf, exp := int64(base+2), int64(base+3), int64(base+5)
	if vrt.Bool("issuedAfterNbf") {
		nbf, iat = iat, nbf
	}
	nowS := int64(base + vrt.IntRange("nowOffset", 0, 7))
	nowHalf := vrt.Bool("nowPlusHalfSecond")
	now := time.Unix(nowS, 0)
	if nowHalf {
		now = time.Unix(nowS, 500_000_000)
	}
	nm := &c30nm{}
	b := c30service(nm, now)

	var t sessionv2.Token
	t.SetVersion(sessionv2.TokenCurrentVersion)
	t.SetIssuer(c30usr(1))
	_ = t.SetSubjects([]sessionv2.Target{sessionv2.NewTargetUser(c30usr(2))})
	nctx := 1 + vrt.Choice("contexts", 2)
	firstCnr := byte(vrt.Choice("firstContextContainer", 2)) // 0: wildcard
	verbs := [][]sessionv2.Verb{
		{sessionv2.Verb(1 + vrt.Choice("ctx0Verb", 3))},
		{sessionv2.Verb(1 + vrt.Choice("ctx1Verb", 3))},
	}
	cnrs := []byte{firstCnr, 2}
	var ctxs []sessionv2.Context
	for i := 0; i < nctx; i++ {
		var c cid.ID
		if cnrs[i] != 0 {
			c = c30cnr(cnrs[i])
		}
		cx, err := sessionv2.NewContext(c, verbs[i])
		vrt.Assume(err == nil)
		ctxs = append(ctxs, cx)
	}
	vrt.Assume(t.SetContexts(ctxs) == nil)
	t.SetIat(time.Unix(iat, 0))
	t.SetNbf(time.Unix(nbf, 0))
	t.SetExp(time.Unix(exp, 0))
	t.AttachSignature(neofscrypto.NewSignatureFromRawKey(neofscrypto.ECDSA_DETERMINISTIC_SHA256, []byte{2, 1}, []byte{9}))
	m := t.ProtoMessage()
	body := make([]byte, m.Body.MarshaledSize())
	m.Body.MarshalStable(body)

	reqVerb := sessionv2.Verb(1 + vrt.Choice("requestVerb", 3))
	reqCnr := byte(1 + vrt.Choice("requestContainer", 2))
	_, err := b.VerifySessionTokenMessage(m, reqVerb, c30cnr(reqCnr))

	// current time is rounded to the nearest second
	cur := nowS
	if nowHalf {
		cur = nowS + 1
	}
	within := iat <= cur && nbf <= cur && cur <= exp
	applies := false
	for i := 0; i < nctx; i++ {
		if (cnrs[i] == 0 || cnrs[i] == reqCnr) && verbs[i][0] == reqVerb {
			applies = true
		}
	}
	if err == nil {
		vrt.Assert(within, "a V2 session token outside its validity period is rejected")
		vrt.Assert(a.calls == 1 && a.ok[0] && c30eqb(a.signed[0], body) && a.issuers[0] == c30usr(1), "a V2 session token is honoured only on a positive authentication verdict over its encoded body")
		vrt.Assert(applies, "a V2 session token without the verb for the container is rejected")
		vrt.Reach("accepted")
	} else {
		vrt.Reach("rejected")
	}
}

// VerifC30SharedCache: the sessions cache is shared with object
// authentication (internal/crypto.AuthenticateObject), which stores a token
// under the hash of its encoding after the signature check only. Whatever that
// path has stored, a request-level token is honoured only within its validity
// period (V1) and only with a valid delegation chain (V2: the delegate's issuer
// must be a subject of the origin token).
func VerifC30SharedCache() {
	c30installAuth()
	nm := &c30nm{epoch: vrt.U64("currentEpoch")}
	const base = 1_700_000_000
	b := c30service(nm, time.Unix(base+3, 0))
	if vrt.Bool("v2Token") {
		mk := func(issuer byte, subject byte, origin *sessionv2.Token) sessionv2.Token {
			var t sessionv2.Token
			t.SetVersion(sessionv2.TokenCurrentVersion)
			t.SetIssuer(c30usr(issuer))
			_ = t.SetSubjects([]sessionv2.Target{sessionv2.NewTargetUser(c30usr(subject))})
			cx, err := sessionv2.NewContext(c30cnr(1), []sessionv2.Verb{sessionv2.VerbObjectGet})
			vrt.Assume(err == nil)
			_ = t.SetContexts([]sessionv2.Context{cx})
			t.SetIat(time.Unix(base+1, 0))
			t.SetNbf(time.Unix(base+1, 0))
			t.SetExp(time.Unix(base+9, 0))
			if origin != nil {
				t.SetOrigin(origin)
			}
			t.AttachSignature(neofscrypto.NewSignatureFromRawKey(neofscrypto.ECDSA_DETERMINISTIC_SHA256, []byte{2, 1}, []byte{9}))
			return t
		}
		origin := mk(1, 2, nil)
		delegate := byte(2 + vrt.Choice("delegateIssuer", 2)) // 2: the origin's subject, 3: a stranger
		tok := mk(delegate, 4, &origin)
		m := tok.ProtoMessage()
		mb := make([]byte, m.MarshaledSize())
		m.MarshalStable(mb)
		if vrt.Bool("storedByObjectAuthentication") {
			_, _ = b.sessionTokenCommonCheckCache.AuthenticateTokenV2(sha256.Sum256(mb), func() (sessionv2.Token, error) { return tok, nil })
		}
		_, err := b.VerifySessionTokenMessage(m, sessionv2.VerbObjectGet, c30cnr(1))
		if err == nil {
			vrt.Assert(delegate == 2, "a delegated V2 token whose issuer is not a subject of the origin token is rejected, whatever the sessions cache holds")
			vrt.Reach("accepted")
		} else {
			vrt.Reach("rejected")
		}
		return
	}
	exp, nbf, iat := uint64(20), uint64(10), uint64(12)
	m := c30sessionV1Msg(exp, nbf, iat, int32(session.VerbObjectGet), 1, nil)
	mb := make([]byte, m.MarshaledSize())
	m.MarshalStable(mb)
	if vrt.Bool("storedByObjectAuthentication") {
		var tok session.Object
		vrt.Assume(tok.FromProtoMessage(m) == nil)
		_, _ = b.sessionTokenCommonCheckCache.AuthenticateTokenV1(sha256.Sum256(mb), func() (session.Object, error) { return tok, nil })
	}
	_, err := b.VerifySessionV1TokenMessage(m, session.VerbObjectGet, c30cnr(1), oid.ID{})
	if err == nil {
		vrt.Assert(nbf <= nm.epoch && iat <= nm.epoch && nm.epoch <= exp, "a session token outside its validity period is rejected, whatever the sessions cache holds")
		vrt.Reach("accepted")
	} else {
		vrt.Reach("rejected")
	}
}
