//go:build verif

package objectcore

import (
	"context"

	"github.com/nspcc-dev/neofs-sdk-go/object"
)

// VerifHookValidate models the format validation of an object header as a
// verdict (decided by its own entry). The real method is renamed to Validate__real.
var VerifHookValidate func(obj *object.Object, unprepared bool) error

func (v *FormatValidator) Validate(ctx context.Context, obj *object.Object, unprepared, allowAllVersions bool) error {
	if h := VerifHookValidate; h != nil {
		return h(obj, unprepared)
	}
	return v.Validate__real(ctx, obj, unprepared, allowAllVersions)
}

// VerifHookValidateContent models ValidateContent (type-specific payload rules).
var VerifHookValidateContent func(obj *object.Object) error

func (v *FormatValidator) ValidateContent(ctx context.Context, o *object.Object) error {
	if h := VerifHookValidateContent; h != nil {
		return h(o)
	}
	return v.ValidateContent__real(ctx, o)
}
