//go:build verif

package neofs

// VerifNewWithdraw builds a Withdraw notification event with the given ID.
func VerifNewWithdraw(id []byte) *Withdraw { return &Withdraw{id: id} }
