//go:build verif

package crypto

import (
	apistatus "github.com/nspcc-dev/neofs-sdk-go/client/status"
	neofscrypto "github.com/nspcc-dev/neofs-sdk-go/crypto"
)

// VerifHookChain models the verification of a request's signature chain
// (ECDSA / N3 witnesses are outside the encoder's reach): nil verdict = valid.
// The real function is renamed to verifyRequestSignatures__real.
var VerifHookChain func() error

func verifyRequestSignatures[B neofscrypto.ProtoMessage](req neofscrypto.SignedRequest[B], verifyN3 func(data, invocScript, verifScript []byte) error) error {
	if h := VerifHookChain; h != nil {
		if err := h(); err != nil {
			var st apistatus.SignatureVerification
			st.SetMessage(err.Error())
			return st
		}
		return nil
	}
	return verifyRequestSignatures__real(req, verifyN3)
}
