//go:build verif

package client

import (
	"github.com/nspcc-dev/neo-go/pkg/crypto/keys"
	"github.com/nspcc-dev/neo-go/pkg/util"
)

// Governance-related chain ends of the morph client as models (see
// zz_verif_morphhooks.go): role updates go to VerifHookSend; the committee and
// NeoFSAlphabet role reads are answered by hooks. The real methods are renamed
// to <name>__real.
var (
	VerifHookCommittee    func() (keys.PublicKeys, error)
	VerifHookAlphabetList func() (keys.PublicKeys, error)
)

func (c *Client) Committee() (keys.PublicKeys, error) {
	if h := VerifHookCommittee; h != nil {
		return h()
	}
	return c.Committee__real()
}

func (c *Client) NeoFSAlphabetList() (keys.PublicKeys, error) {
	if h := VerifHookAlphabetList; h != nil {
		return h()
	}
	return c.NeoFSAlphabetList__real()
}

func (c *Client) UpdateNotaryList(notaries keys.PublicKeys, txHash util.Uint256) error {
	if h := VerifHookSend; h != nil {
		return h(VerifCall{Kind: "update-notary-role", Args: []any{notaries}})
	}
	return c.UpdateNotaryList__real(notaries, txHash)
}

func (c *Client) UpdateNeoFSAlphabetList(alphas keys.PublicKeys, txHash util.Uint256) error {
	if h := VerifHookSend; h != nil {
		return h(VerifCall{Kind: "update-alphabet-role", Args: []any{alphas}})
	}
	return c.UpdateNeoFSAlphabetList__real(alphas, txHash)
}
