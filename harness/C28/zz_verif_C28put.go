//go:build verif

package v2

import (
	"context"
	"errors"

	"github.com/nspcc-dev/neo-go/pkg/util"
	"github.com/nspcc-dev/neofs-node/internal/vrt"
	"github.com/nspcc-dev/neofs-node/pkg/services/object/common"
	"github.com/nspcc-dev/neofs-sdk-go/container/acl"
	cid "github.com/nspcc-dev/neofs-sdk-go/container/id"
	"github.com/nspcc-dev/neofs-sdk-go/netmap"
	protoobject "github.com/nspcc-dev/neofs-sdk-go/proto/object"
	protosession "github.com/nspcc-dev/neofs-sdk-go/proto/session"
	"github.com/nspcc-dev/neofs-sdk-go/user"
	"go.uber.org/zap"
)

type c28nm struct{ in, fail bool }

func (x c28nm) Epoch() (uint64, error)                          { return 1, nil }
func (x c28nm) GetNetMapByEpoch(uint64) (*netmap.NetMap, error) { panic("not used") }
func (x c28nm) NetMap() (*netmap.NetMap, error)                 { panic("not used") }
func (x c28nm) GetEpochBlock(uint64) (uint32, error)            { panic("not used") }
func (x c28nm) GetEpochBlockByTime(uint32) (uint32, error)      { panic("not used") }
func (x c28nm) ServerInContainer(cid.ID) (bool, error) {
	if x.fail {
		return false, errors.New("network map is unavailable")
	}
	return x.in, nil
}

// c28found is what the (modelled) resolution of requester, role and tokens answers.
var c28found struct {
	role acl.Role
	err  bool
}

// replaced collaborator (rename overlay): who the requester is and which role
// it has (classifier: VerifC28Classifier; tokens: C30).
func (b Service) findRequestInfo(_ context.Context, _ interface {
	GetMetaHeader() *protosession.RequestMetaHeader
	GetVerifyHeader() *protosession.RequestVerificationHeader
}, _ cid.ID, op acl.Op, _ common.RequestTokens) (RequestInfo, error) {
	if c28found.err {
		return RequestInfo{}, errors.New("requester cannot be resolved")
	}
	return RequestInfo{RequestRole: c28found.role, Operation: op}, nil
}

var c28v2roles = [...]acl.Role{acl.RoleOwner, acl.RoleContainer, acl.RoleInnerRing, acl.RoleOthers}

// VerifC28PutClassification: which operation a PUT is checked as. The server
// hands in "put", or "delete" for an object of the TOMBSTONE type. A tombstone
// is checked as a removal for every requester, except the replication of an
// already accepted tombstone between container nodes (a container node's
// request with TTL 1), which is checked as a put; the meta header's TTL is a
// symbolic 32-bit value.
func VerifC28PutClassification() {
	nm := c28nm{in: vrt.Bool("serverInContainer"), fail: vrt.Bool("networkMapUnavailable")}
	s := Service{cfg: &cfg{log: zap.NewNop(), nm: nm}}
	owner := user.NewFromScriptHash(util.Uint160{1})
	hdr := &protoobject.Header{OwnerId: owner.ProtoMessage()}
	split := vrt.Bool("splitObject")
	if split {
		hdr.Split = new(protoobject.Header_Split)
	}
	init := &protoobject.PutRequest_Body_Init{Header: hdr}
	req := new(protoobject.PutRequest)
	ttl := vrt.U32("ttl")
	if vrt.Bool("metaHeaderPresent") {
		req.MetaHeader = &protosession.RequestMetaHeader{Ttl: ttl}
	} else {
		ttl = 0
	}
	tombstone := vrt.Bool("tombstoneTypedObject")
	op := acl.OpObjectPut
	if tombstone {
		op = acl.OpObjectDelete
	}
	c28found.role = c28v2roles[vrt.Choice("requesterRole", len(c28v2roles))]
	c28found.err = vrt.Bool("requesterUnresolvable")
	info, gotOwner, err := s.PutRequestToInfo(context.Background(), req, init, cid.ID{}, op, common.RequestTokens{})
	switch {
	case nm.fail:
		vrt.Assert(err != nil && !errors.Is(err, ErrSkipRequest), "an unknown container membership is an error, never a skipped check")
	case split && !nm.in:
		vrt.Assert(errors.Is(err, ErrSkipRequest), "only split objects at a node outside the container skip the check (they are not stored there)")
	case c28found.err:
		vrt.Assert(err != nil && !errors.Is(err, ErrSkipRequest), "an unresolvable requester is an error")
	default:
		vrt.Assert(err == nil && gotOwner == owner, "the request is resolved for the object's owner")
		want := op
		if tombstone && c28found.role == acl.RoleContainer && ttl == 1 {
			want = acl.OpObjectPut
		}
		vrt.Assert(info.Operation == want, "a tombstone is checked as a removal, except its replication between container nodes (TTL 1)")
		vrt.Assert(info.RequestRole == c28found.role, "the role is the resolved one")
		vrt.Reach("classified")
	}
}
