//go:build verif

package engine

import (
	"errors"
	"slices"
	"sync"
	"sync/atomic"

	"github.com/nspcc-dev/neofs-node/internal/vrt"
	"github.com/nspcc-dev/neofs-node/pkg/local_object_storage/blobstor/common"
	meta "github.com/nspcc-dev/neofs-node/pkg/local_object_storage/metabase"
	"github.com/nspcc-dev/neofs-node/pkg/local_object_storage/shard"
	"github.com/nspcc-dev/neofs-node/pkg/local_object_storage/shard/mode"
	apistatus "github.com/nspcc-dev/neofs-sdk-go/client/status"
	"github.com/nspcc-dev/neofs-sdk-go/object"
	oid "github.com/nspcc-dev/neofs-sdk-go/object/id"
	"go.uber.org/zap"
)

// Shared world of the engine harnesses: an engine over real shards, each made
// of a real metabase on the bbolt model and a map-backed blob storage model.

// vwBlob is the blob storage model of one shard: address -> the object last put.
type vwBlob struct {
	common.Storage
	w        *vwWorld
	data     map[oid.Address][]byte
	putFails bool
	// deletion faults of the shard harnesses
	deleteFails, crashy bool
}

func (b *vwBlob) Type() string { return "model" }
func (b *vwBlob) Path() string { return "model" }
func (b *vwBlob) Put(a oid.Address, bin []byte) error {
	if b.putFails {
		return errors.New("disk error")
	}
	b.data[a] = bin
	return nil
}
func (b *vwBlob) Delete(a oid.Address) error {
	if b.crashy {
		vrt.Crash("before blob delete")
	}
	if b.deleteFails {
		return errors.New("disk error")
	}
	if _, ok := b.data[a]; !ok {
		return apistatus.ErrObjectNotFound
	}
	delete(b.data, a)
	return nil
}
func (b *vwBlob) ShardID() common.ID { return common.ID{} }

// Iterate visits the stored blobs in insertion-independent (address) order or,
// when the world says so, in reverse.
func (b *vwBlob) Iterate(h func(oid.Address, []byte) error, _ func(oid.Address, error) error) error {
	var keys []oid.Address
	for a := range b.data {
		keys = append(keys, a)
	}
	slices.SortFunc(keys, func(x, y oid.Address) int {
		c := x.Object().Compare(y.Object())
		if b.w.reverseIteration {
			c = -c
		}
		return c
	})
	for _, a := range keys {
		if err := h(a, b.data[a]); err != nil {
			return err
		}
	}
	return nil
}

func (b *vwBlob) Exists(a oid.Address) (bool, error) { _, ok := b.data[a]; return ok, nil }
func (b *vwBlob) GetBytes(a oid.Address) ([]byte, error) {
	bin, ok := b.data[a]
	if !ok {
		return nil, apistatus.ErrObjectNotFound
	}
	return bin, nil
}

// Get decodes through the world's object table (protobuf decoding of objects is
// reflection-based and outside the encoder).
func (b *vwBlob) Get(a oid.Address) (*object.Object, error) {
	if _, ok := b.data[a]; !ok {
		return nil, apistatus.ErrObjectNotFound
	}
	return b.w.objs[a], nil
}
func (b *vwBlob) Head(a oid.Address) (*object.Object, error) {
	o, err := b.Get(a)
	if err != nil {
		return nil, err
	}
	return o.CutPayload(), nil
}

type vwWorld struct {
	e      *StorageEngine
	epoch  *meta.VerifEpoch
	shards []*shard.Shard
	blobs  []*vwBlob
	objs   map[oid.Address]*object.Object

	reverseIteration bool
}

// vwNew builds an engine of n shards in the given modes; shard visiting order
// of sortedShards is an arbitrary forked permutation (zz_verif_enghooks.go).
func vwNew(n int, epoch uint64) *vwWorld {
	verifShardOrder = true
	verifOrderPerm = nil
	w := &vwWorld{epoch: &meta.VerifEpoch{E: epoch}, objs: map[oid.Address]*object.Object{}}
	w.e = &StorageEngine{cfg: &cfg{log: zap.NewNop()}, mtx: new(sync.RWMutex), shards: map[string]shardWrapper{}}
	for i := 0; i < n; i++ {
		b := &vwBlob{w: w, data: map[oid.Address][]byte{}}
		sh := shard.VerifNewShard(byte(i), meta.VerifNewModelDB(w.epoch), b, mode.ReadWrite)
		w.shards = append(w.shards, sh)
		w.blobs = append(w.blobs, b)
		w.e.shards[sh.ID().String()] = shardWrapper{Shard: sh, engine: w.e, errorCount: new(atomic.Uint32)}
	}
	return w
}

// vwObj registers a small object (container 0, id byte o).
func (w *vwWorld) vwObj(o byte, typ object.Type, exp int64) *object.Object {
	obj := meta.VerifObj(0, o, typ, exp, 3)
	obj.SetPayload([]byte{o, o, o})
	w.objs[obj.Address()] = obj
	return obj
}

// vwReadable reports whether shard i returns the object with its own bytes.
func (w *vwWorld) vwReadable(i int, a oid.Address) bool {
	o, err := w.shards[i].Get(a, false)
	if err != nil {
		return false
	}
	vrt.Assert(o == w.objs[a] || (o != nil && o.GetID() == a.Object()), "a shard returns the object stored under the address")
	return true
}
