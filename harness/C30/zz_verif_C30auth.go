//go:build verif

package crypto

import (
	"crypto/ecdsa"
	"crypto/sha256"
	"errors"
	"math/big"
	"time"

	"github.com/nspcc-dev/neo-go/pkg/core/block"
	"github.com/nspcc-dev/neo-go/pkg/core/transaction"
	"github.com/nspcc-dev/neo-go/pkg/neorpc/result"
	"github.com/nspcc-dev/neo-go/pkg/smartcontract/trigger"
	"github.com/nspcc-dev/neo-go/pkg/util"
	"github.com/nspcc-dev/neofs-node/internal/vrt"
	cid "github.com/nspcc-dev/neofs-sdk-go/container/id"
	neofscrypto "github.com/nspcc-dev/neofs-sdk-go/crypto"
	neofsecdsa "github.com/nspcc-dev/neofs-sdk-go/crypto/ecdsa"
	sessionv2 "github.com/nspcc-dev/neofs-sdk-go/session/v2"
	"github.com/nspcc-dev/neofs-sdk-go/user"
)

// c30tok is a token as AuthenticateToken sees it.
type c30tok struct {
	signed []byte
	sig    *neofscrypto.Signature
	issuer user.ID
	iat    uint64
}

func (t c30tok) SignedData() []byte { return t.signed }
func (t c30tok) Signature() (neofscrypto.Signature, bool) {
	if t.sig == nil {
		return neofscrypto.Signature{}, false
	}
	return *t.sig, true
}
func (t c30tok) Issuer() user.ID { return t.issuer }
func (t c30tok) Iat() uint64     { return t.iat }

type c30chain struct {
	epochErr, timeErr bool
	askedEpoch        uint64
	askedTime         uint32
}

func (c *c30chain) InvokeContainedScript(*transaction.Transaction, *block.Header, *trigger.Type, *bool) (*result.Invoke, error) {
	panic("not reached: verifyN3Scripts is a verdict model")
}
func (c *c30chain) GetEpochBlock(epoch uint64) (uint32, error) {
	c.askedEpoch = epoch
	if c.epochErr {
		return 0, errors.New("no such epoch")
	}
	return 77, nil
}
func (c *c30chain) GetEpochBlockByTime(t uint32) (uint32, error) {
	c.askedTime = t
	if c.timeErr {
		return 0, errors.New("no such time")
	}
	return 78, nil
}

func c30user(n int) user.ID {
	var id user.ID
	if n == 0 {
		return id
	}
	id[0] = 0x35
	id[1] = byte(n)
	return id
}

// c30prims installs the primitive models. Keys are one byte long: byte k
// decodes to key #k (k in 1..3), anything else fails to decode; key #k belongs
// to user #k. Every ECDSA verification and N3 script run draws its verdict and
// is recorded.
type c30call struct {
	scheme, key int
	data, sig   []byte
	verdict     bool
}
type c30n3 struct {
	height       uint32
	acc          util.Uint160
	invoc, verif []byte
	hash         [sha256.Size]byte
	verdict      bool
}

type c30prims struct {
	ecdsa []c30call
	n3    []c30n3
}

func c30install() *c30prims {
	p := new(c30prims)
	VerifHookDecodeKey = func(b []byte) (*ecdsa.PublicKey, error) {
		if len(b) != 1 || b[0] < 1 || b[0] > 3 {
			return nil, errors.New("undecodable key")
		}
		return &ecdsa.PublicKey{X: big.NewInt(int64(b[0]))}, nil
	}
	neofsecdsa.VerifHookVerifyKey = func(scheme int, pub ecdsa.PublicKey, data, sig []byte) bool {
		v := vrt.Bool("signatureVerifies")
		p.ecdsa = append(p.ecdsa, c30call{scheme: scheme, key: int(pub.X.Int64()), data: data, sig: sig, verdict: v})
		return v
	}
	user.VerifHookFromKey = func(pub ecdsa.PublicKey) user.ID { return c30user(int(pub.X.Int64())) }
	VerifHookN3 = func(height uint32, acc util.Uint160, invoc, verif []byte, h [sha256.Size]byte) error {
		v := vrt.Bool("witnessVerifies")
		p.n3 = append(p.n3, c30n3{height: height, acc: acc, invoc: invoc, verif: verif, hash: h, verdict: v})
		if !v {
			return errors.New("verification script run resulted in false")
		}
		return nil
	}
	return p
}

func c30eq(a, b []byte) bool {
	if len(a) != len(b) {
		return false
	}
	for i := range a {
		if a[i] != b[i] {
			return false
		}
	}
	return true
}

// c30sig draws a signature: absent, or any scheme value 0..5 with a one-byte
// key and a one-byte value.
func c30sig(tag string) (sig *neofscrypto.Signature, scheme int, key byte, val byte) {
	if vrt.Bool(tag + "SignaturePresent") {
		scheme = vrt.IntRange(tag+"Scheme", 0, 5)
		key = byte(vrt.IntRange(tag+"KeyByte", 0, 4))
		val = vrt.Byte(tag + "SigValue")
		s := neofscrypto.NewSignatureFromRawKey(neofscrypto.Scheme(scheme), []byte{key}, []byte{val})
		sig = &s
	}
	return
}

// c30expect decides from the recorded primitive calls whether the token
// (issuer, signature, signed data) is proven authentic.
func c30expect(p *c30prims, issuer int, sig *neofscrypto.Signature, scheme int, key, val byte, signed []byte, chainSet bool, wantHeight uint32) bool {
	if issuer == 0 || sig == nil {
		return false
	}
	switch neofscrypto.Scheme(scheme) {
	case neofscrypto.ECDSA_SHA512, neofscrypto.ECDSA_DETERMINISTIC_SHA256, neofscrypto.ECDSA_WALLETCONNECT:
		if key < 1 || key > 3 || int(key) != issuer {
			return false
		}
		for _, c := range p.ecdsa {
			if c.verdict && c.scheme == scheme && c.key == int(key) && c30eq(c.data, signed) && c30eq(c.sig, []byte{val}) {
				return true
			}
		}
		return false
	case neofscrypto.N3:
		if !chainSet {
			return false
		}
		for _, c := range p.n3 {
			if c.verdict && c.height == wantHeight && c.acc == c30user(issuer).ScriptHash() && c30eq(c.invoc, []byte{val}) && c30eq(c.verif, []byte{key}) && c.hash == sha256.Sum256(signed) {
				return true
			}
		}
		return false
	}
	return false
}

// VerifC30AuthV1: AuthenticateToken accepts a (session V1 / bearer) token only
// if the issuer is set, a signature of a supported scheme is attached, and the
// primitive for that scheme confirmed exactly this signature over exactly the
// token's signed data with a key that belongs to the issuer (N3: the issuer's
// account, at the height of the token's iat epoch).
func VerifC30AuthV1() {
	p := c30install()
	issuer := vrt.IntRange("issuer", 0, 3)
	sig, scheme, key, val := c30sig("")
	signed := []byte{vrt.Byte("signedData0"), vrt.Byte("signedData1")}
	iat := vrt.U64("iat")
	tok := c30tok{signed: signed, sig: sig, issuer: c30user(issuer), iat: iat}
	chainSet := vrt.Bool("fsChainProvided")
	ch := &c30chain{epochErr: vrt.Bool("epochBlockUnknown")}
	var err error
	if chainSet {
		err = AuthenticateToken(tok, ch)
	} else {
		err = AuthenticateToken(tok, nil)
	}
	if err == nil {
		vrt.Assert(c30expect(p, issuer, sig, scheme, key, val, signed, chainSet && !ch.epochErr, 77), "a token is authenticated only on a positive verdict for its own signature, signed data and issuer")
		if sig != nil && neofscrypto.Scheme(scheme) == neofscrypto.N3 {
			vrt.Assert(ch.askedEpoch == iat, "N3 witness is checked at the height of the token's iat epoch")
		}
		vrt.Reach("accepted")
	} else {
		vrt.Reach("rejected")
		if sig != nil && scheme >= 0 && scheme <= 2 && key >= 1 && key <= 3 && int(key) == issuer && len(p.ecdsa) == 1 && p.ecdsa[0].verdict {
			vrt.Assert(false, "a correctly signed token of its issuer is authenticated")
		}
	}
}

func c30v2(tag string, issuer int, sig *neofscrypto.Signature, iat int64, origin *sessionv2.Token) sessionv2.Token {
	var t sessionv2.Token
	t.SetVersion(sessionv2.TokenCurrentVersion)
	t.SetIssuer(c30user(issuer))
	_ = t.SetSubjects([]sessionv2.Target{sessionv2.NewTargetUser(c30user(1))})
	ctx, _ := sessionv2.NewContext(cid.ID{1}, []sessionv2.Verb{sessionv2.VerbObjectGet})
	_ = t.SetContexts([]sessionv2.Context{ctx})
	t.SetIat(time.Unix(iat, 0))
	t.SetNbf(time.Unix(iat, 0))
	t.SetExp(time.Unix(iat+100, 0))
	t.SetAppData([]byte(tag))
	if origin != nil {
		t.SetOrigin(origin)
	}
	if sig != nil {
		t.AttachSignature(*sig)
	}
	return t
}

// VerifC30AuthV2: the same for V2 session tokens, for a delegation chain of up
// to two tokens: every token of the chain must be proven authentic.
func VerifC30AuthV2() {
	p := c30install()
	type tk struct {
		issuer int
		sig    *neofscrypto.Signature
		scheme int
		key    byte
		val    byte
		iat    int64
		tok    sessionv2.Token
	}
	depth := 1 + vrt.Choice("delegations", 2)
	toks := make([]tk, depth)
	var origin *sessionv2.Token
	for i := depth - 1; i >= 0; i-- {
		tag := []string{"leaf", "origin"}[i]
		t := &toks[i]
		t.issuer = vrt.IntRange(tag+"Issuer", 0, 3)
		t.sig, t.scheme, t.key, t.val = c30sig(tag)
		t.iat = int64(1000 + vrt.Choice(tag+"IatOffset", 2))
		t.tok = c30v2(tag, t.issuer, t.sig, t.iat, origin)
		origin = &t.tok
	}
	chainSet := vrt.Bool("fsChainProvided")
	ch := &c30chain{timeErr: vrt.Bool("timeBlockUnknown")}
	var err error
	if chainSet {
		err = AuthenticateTokenV2(toks[0].tok, ch)
	} else {
		err = AuthenticateTokenV2(toks[0].tok, nil)
	}
	if err == nil {
		for i := range toks {
			t := toks[i]
			vrt.Assert(c30expect(p, t.issuer, t.sig, t.scheme, t.key, t.val, t.tok.SignedData(), chainSet && !ch.timeErr, 78),
				"a V2 token is authenticated only if every token of its delegation chain has a positive verdict for its own signature, signed data and issuer")
		}
		vrt.Reach("accepted")
	} else {
		vrt.Reach("rejected")
	}
}
