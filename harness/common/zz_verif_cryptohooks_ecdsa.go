//go:build verif

package neofsecdsa

// VerifHookDecode models public key decoding (elliptic-curve arithmetic is
// outside the encoder's reach). The real method is renamed to Decode__real.
var VerifHookDecode func(x *PublicKey, data []byte) error

func (x *PublicKey) Decode(data []byte) error {
	if h := VerifHookDecode; h != nil {
		return h(x, data)
	}
	return x.Decode__real(data)
}
