//go:build verif

package netmap

import (
	netmapEvent "github.com/nspcc-dev/neofs-node/pkg/morph/event/netmap"
)

// Entry points of the unexported handlers for harnesses in other packages.
func (np *Processor) VerifProcessAddNode(ev netmapEvent.AddNode)   { np.processAddNode(ev) }
func (np *Processor) VerifProcessNewEpoch(ev netmapEvent.NewEpoch) { np.processNewEpoch(ev) }
func (np *Processor) VerifProcessNewEpochTick()                    { np.processNewEpochTick() }

// VerifNewProcessor builds a Processor from its parameters without the
// constructor's chain reads and worker pool.
func VerifNewProcessor(p *Params) *Processor {
	np := &Processor{
		log:                 p.Log,
		epochTimer:          p.EpochTimer,
		epochState:          p.EpochState,
		alphabetState:       p.AlphabetState,
		netmapClient:        p.NetmapClient,
		containerWrp:        p.ContainerWrapper,
		metaClient:          p.MetaClient,
		handleAlphabetSync:  p.AlphabetSyncHandler,
		handleNotaryDeposit: p.NotaryDepositHandler,
		nodeValidator:       p.NodeValidator,
	}
	return np
}
