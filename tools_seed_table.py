#!/usr/bin/env python3
"""Regenerate the seed table of DESIGN.md §13.4 from seeded/results.json and
seeded/<seed>/meta.json (the rows between the table header and the summary
sentence that follows it)."""
import json, os, re

root = os.path.dirname(os.path.abspath(__file__))
res = json.load(open(os.path.join(root, 'seeded', 'results.json')))
rows = []
caught = neutral = 0
neutral_ids = []
missed_ids = []
seeds = sorted(k for k in res if not k.startswith('_'))
for s in seeds:
    mp = os.path.join(root, 'seeded', s, 'meta.json')
    breaks = ''
    if os.path.exists(mp):
        breaks = json.load(open(mp)).get('breaks', '')
    breaks = re.sub(r'\s+', ' ', breaks).replace('|', '/')[:150]
    r = res[s]
    by = r.get('caught_by')
    st = (r.get('status') or '').replace('|', '/')
    if by:
        caught += 1
    elif st.startswith('neutralised'):
        neutral += 1
        neutral_ids.append(s)
    else:
        missed_ids.append(s)
    rows.append('| %s | %s | %s | %s |' % (s, breaks, by or '—', st))

p = os.path.join(root, 'DESIGN.md')
txt = open(p).read()
hdr = '| seed | change (first sentence of the sub-agent\'s description) | reported by | note |\n|---|---|---|---|\n'
i = txt.index(hdr) + len(hdr)
j = txt.index('\n\n', i)
txt = txt[:i] + '\n'.join(rows) + txt[j:]
txt = re.sub(r'\d+ of \d+ confirmed seeded changes are reported', '%d of %d confirmed seeded changes are reported' % (caught, len(seeds)), txt)
txt = re.sub(r'\d+ were neutralised by repairs \([^)]*\)', '%d were neutralised by repairs (%s)' % (neutral, ', '.join(neutral_ids)), txt)
txt = re.sub(r'The misses are listed with the reason', 'The misses (%s) are listed with the reason' % ', '.join(missed_ids), txt) if 'The misses (' not in txt else re.sub(r'The misses \([^)]*\) are listed', 'The misses (%s) are listed' % ', '.join(missed_ids), txt)
open(p, 'w').write(txt)
print('seeds=%d caught=%d neutralised=%d' % (len(seeds), caught, neutral))
