//go:build verif

package governance

import (
	"github.com/nspcc-dev/neo-go/pkg/crypto/keys"
	"github.com/nspcc-dev/neofs-node/internal/vrt"
)

var c36ids map[*keys.PublicKey]int

func c36key(id int) *keys.PublicKey {
	k := new(keys.PublicKey)
	c36ids[k] = id
	return k
}

// c36sorted returns n keys with arbitrary strictly increasing identities.
func c36sorted(name string, n int) keys.PublicKeys {
	res := make(keys.PublicKeys, n)
	prev := -1
	for i := 0; i < n; i++ {
		id := int(vrt.Byte(name))
		vrt.Assume(id > prev)
		prev = id
		res[i] = c36key(id)
	}
	return res
}

func c36contains(l keys.PublicKeys, k *keys.PublicKey) bool {
	for _, x := range l {
		if c36ids[x] == c36ids[k] {
			return true
		}
	}
	return false
}

// VerifC36NewAlphabet: newAlphabetList on every pair of key sets (sizes forked,
// identities symbolic, every overlap pattern).
func VerifC36NewAlphabet() {
	c36ids = map[*keys.PublicKey]int{}
	keys.VerifKeyID = func(p *keys.PublicKey) int { return c36ids[p] }
	n := 1 + vrt.Choice("alphabetSize", vrt.Param("NMAX"))
	m := n + vrt.Choice("mainnetExtra", vrt.Param("EXTRA")+1)
	fs := c36sorted("fs", n)
	mn := c36sorted("main", m)
	old := append(keys.PublicKeys(nil), fs...)
	res, err := newAlphabetList(fs, mn)
	vrt.Assert(err == nil, "no error when the main network has enough keys")
	if res == nil {
		// nothing proposed: either no new key may be admitted, or the first n
		// mainnet keys admitted none
		vrt.Reach("nochange")
		return
	}
	vrt.Assert(len(res) == n, "alphabet size is kept")
	fresh := 0
	for i, k := range res {
		for j := 0; j < i; j++ {
			vrt.Assert(c36ids[res[j]] != c36ids[k], "no duplicate keys")
		}
		inOld := c36contains(old, k)
		vrt.Assert(inOld || c36contains(mn, k), "members are current members or main-network keys")
		if !inOld {
			fresh++
		}
	}
	vrt.Assert(fresh <= (n-1)/3, "at most floor((n-1)/3) new keys")
	vrt.Assert(fresh > 0, "a new list is proposed only when something changed")
	vrt.Reach("changed")
}

// VerifC36InnerRing: updateInnerRing replaces exactly the replaced keys.
func VerifC36InnerRing() {
	c36ids = map[*keys.PublicKey]int{}
	keys.VerifKeyID = func(p *keys.PublicKey) int { return c36ids[p] }
	n := 1 + vrt.Choice("ringSize", vrt.Param("RMAX"))
	r := vrt.Choice("replaced", n+1)
	ring := c36sorted("ring", n) // distinct identities
	// the replaced keys are r distinct members of the ring at forked positions;
	// the new keys have identities outside the ring
	var before, after keys.PublicKeys
	used := make([]bool, n)
	prevNew := 300
	for i := 0; i < r; i++ {
		pos := vrt.Choice("pos", n)
		vrt.Assume(!used[pos])
		used[pos] = true
		before = append(before, ring[pos])
		after = append(after, c36key(prevNew))
		prevNew++
	}
	res, err := updateInnerRing(ring, before, after)
	vrt.Assert(err == nil && len(res) == n, "same length")
	for i := range res {
		if used[i] {
			vrt.Assert(c36ids[res[i]] >= 300, "replaced key is substituted by its successor")
		} else {
			vrt.Assert(res[i] == ring[i], "other members are kept in place")
		}
		for j := 0; j < i; j++ {
			vrt.Assert(c36ids[res[j]] != c36ids[res[i]], "no duplicates in the inner ring list")
		}
	}
	_, err = updateInnerRing(ring, before, after[:len(after)/2])
	if len(after)/2 != len(before) {
		vrt.Assert(err != nil, "length mismatch is an error")
	}
	vrt.Reach("end")
}

// VerifC36InnerRingFull: updateInnerRing as the governance processor calls it -
// with the whole current alphabet and the whole new alphabet, both sorted. The
// inner ring list is the alphabet plus up to two extra members at arbitrary
// positions; an extra member may be one of the keys that join the alphabet
// (a non-alphabet inner ring node promoted by the main network). The new list
// has no duplicates and differs from the old one exactly by the replaced keys.
func VerifC36InnerRingFull() {
	c36ids = map[*keys.PublicKey]int{}
	keys.VerifKeyID = func(p *keys.PublicKey) int { return c36ids[p] }
	n := 1 + vrt.Choice("alphabetSize", vrt.Param("RMAX"))
	// identities: the alphabet is 10, 20, ..; joining keys sit between or after them
	alphabet := make(keys.PublicKeys, n)
	for i := range alphabet {
		alphabet[i] = c36key(10 * (i + 1))
	}
	// which members leave (at most floor((n-1)/3), as newAlphabetList guarantees)
	limit := (n - 1) / 3
	leaves := make([]bool, n)
	nl := 0
	for i := 0; i < n && nl < limit; i++ {
		if vrt.Bool("memberLeaves") {
			leaves[i] = true
			nl++
		}
	}
	vrt.Assume(nl > 0) // something changed
	var joinIDs []int
	for k := 0; k < nl; k++ {
		// a joining key sorts anywhere among the current ones
		id := 10*vrt.Choice("joiningKeyAfterMember", n+1) + 1 + k
		joinIDs = append(joinIDs, id)
	}
	var after keys.PublicKeys
	for i, k := range alphabet {
		if !leaves[i] {
			after = append(after, k)
		}
	}
	for _, id := range joinIDs {
		after = append(after, c36key(id))
	}
	// sorted by identity, as newAlphabetList returns it
	for i := 1; i < len(after); i++ {
		for j := i; j > 0 && c36ids[after[j-1]] > c36ids[after[j]]; j-- {
			after[j-1], after[j] = after[j], after[j-1]
		}
	}
	// the inner ring list: the alphabet (in its order) with extras inserted
	ring := append(keys.PublicKeys(nil), alphabet...)
	extras := vrt.Choice("extraInnerRingMembers", 3)
	promoted := false
	for e := 0; e < extras; e++ {
		id := 500 + e
		if !promoted && vrt.Bool("extraMemberIsAJoiningKey") {
			id = joinIDs[0]
			promoted = true
		}
		at := vrt.Choice("extraPosition", len(ring)+1)
		ring = append(ring[:at:at], append(keys.PublicKeys{c36key(id)}, ring[at:]...)...)
	}
	res, err := updateInnerRing(ring, alphabet, after)
	vrt.Assert(err == nil, "equal-length alphabets are accepted")
	has := func(l keys.PublicKeys, id int) int {
		c := 0
		for _, x := range l {
			if c36ids[x] == id {
				c++
			}
		}
		return c
	}
	for i := range res {
		for j := 0; j < i; j++ {
			if promoted {
				vrt.Assert(c36ids[res[j]] != c36ids[res[i]], "no duplicates in the inner ring list (a joining key was already a non-alphabet inner ring member)")
			} else {
				vrt.Assert(c36ids[res[j]] != c36ids[res[i]], "no duplicates in the inner ring list")
			}
		}
	}
	for i, k := range alphabet {
		if leaves[i] {
			vrt.Assert(has(res, c36ids[k]) == 0, "a replaced key leaves the inner ring list")
		} else {
			vrt.Assert(has(res, c36ids[k]) == 1, "a kept alphabet key stays in the inner ring list")
		}
	}
	for _, id := range joinIDs {
		vrt.Assert(has(res, id) >= 1, "a joining key enters the inner ring list")
	}
	for _, k := range ring {
		if id := c36ids[k]; id >= 500 {
			vrt.Assert(has(res, id) == 1, "other inner ring members are kept")
		}
	}
	if !promoted {
		vrt.Assert(len(res) == len(ring), "the list keeps its length")
	}
	vrt.Reach("end")
}
