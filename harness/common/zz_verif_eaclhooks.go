//go:build verif

package eacl

// VerifHookCalculateAction models the evaluation of an extended ACL table
// (rule matching is SDK code and outside this check): the hook sees which table
// the node passed. The real method is renamed to CalculateAction__real.
var VerifHookCalculateAction func(table *Table, role Role, op Operation) (Action, bool, error)

// VerifHookUnit additionally shows the requester identity handed to the validator.
var VerifHookUnit func(key, account []byte)

func (v *Validator) CalculateAction(unit *ValidationUnit) (Action, bool, error) {
	if h := VerifHookUnit; h != nil {
		h(unit.key, unit.account)
	}
	if h := VerifHookCalculateAction; h != nil {
		return h(unit.table, unit.role, unit.op)
	}
	return v.CalculateAction__real(unit)
}
