//go:build verif

package object

import (
	"context"
	"errors"

	icrypto "github.com/nspcc-dev/neofs-node/internal/crypto"
	"github.com/nspcc-dev/neofs-node/internal/vrt"
	deletesvc "github.com/nspcc-dev/neofs-node/pkg/services/object/delete"
	aclsvc "github.com/nspcc-dev/neofs-node/pkg/services/object/acl/v2"
	"github.com/nspcc-dev/neofs-node/pkg/services/object/common"
	getsvc "github.com/nspcc-dev/neofs-node/pkg/services/object/get"
	putsvc "github.com/nspcc-dev/neofs-node/pkg/services/object/put"
	"github.com/nspcc-dev/neofs-node/pkg/services/util"
	"github.com/nspcc-dev/neofs-sdk-go/stat"
	"github.com/nspcc-dev/neofs-sdk-go/client"
	apistatus "github.com/nspcc-dev/neofs-sdk-go/client/status"
	"github.com/nspcc-dev/neofs-sdk-go/container"
	cid "github.com/nspcc-dev/neofs-sdk-go/container/id"
	objectcore "github.com/nspcc-dev/neofs-node/pkg/core/object"
	oid "github.com/nspcc-dev/neofs-sdk-go/object/id"
	protoobject "github.com/nspcc-dev/neofs-sdk-go/proto/object"
	"github.com/nspcc-dev/neofs-sdk-go/proto/refs"
	protosession "github.com/nspcc-dev/neofs-sdk-go/proto/session"
	protostatus "github.com/nspcc-dev/neofs-sdk-go/proto/status"
	sessionv2 "github.com/nspcc-dev/neofs-sdk-go/session/v2"
	"github.com/nspcc-dev/neofs-sdk-go/session"
	"github.com/nspcc-dev/neofs-sdk-go/user"
	"go.uber.org/zap"
	"time"
)

// verdicts of the guards (symbolic) and ghost state
var c29 struct {
	sigOK, maintenance, tokensOK, infoOK, basicOK bool
	eacl                                         int // 0 allow, 1 not matched, 2 deny
	sigAsked, mntAsked, tokAsked, infoAsked, basicAsked, eaclAsked int
	effects                                      int
	sent                                         []*protostatus.Status
}

// c29effect is called by every model of a storage / forwarding / handler effect.
func c29effect(what string) {
	c29.effects++
	vrt.Assert(c29.sigAsked > 0 && c29.sigOK, "no effect before the request signatures were verified ("+what+")")
	vrt.Assert(c29.mntAsked > 0 && !c29.maintenance, "no effect while the node is under maintenance ("+what+")")
	vrt.Assert(c29.tokAsked > 0 && c29.tokensOK, "no effect before the tokens were validated ("+what+")")
	vrt.Assert(c29.infoAsked > 0 && c29.infoOK && c29.basicAsked > 0 && c29.basicOK, "no effect before the basic ACL allowed the request ("+what+")")
	vrt.Assert(c29.eaclAsked > 0 && c29.eacl != 2, "no effect before the extended ACL was evaluated and did not deny ("+what+")")
}

// replaced: token validation of the request meta header (decided by C30)
func (s *Server) handleRequestMetaHeader(metaHdr *protosession.RequestMetaHeader, reqVerb sessionv2.Verb, reqVerbV1 session.ObjectVerb, reqCnr cid.ID, reqObj oid.ID) (requestMetadata, error) {
	c29.tokAsked++
	if !c29.tokensOK {
		return requestMetadata{}, apistatus.ErrSessionTokenExpired
	}
	return requestMetadata{ttl: 2}, nil
}

type c29chain struct{ FSChain }

func (c29chain) LocalNodeUnderMaintenance() bool { c29.mntAsked++; return c29.maintenance }
func (c29chain) Get(cid.ID) (container.Container, error) {
	c29effect("container read for a search")
	return container.Container{}, apistatus.ErrContainerNotFound
}

type c29info struct{ ACLInfoExtractor }

func (c29info) answer() (aclsvc.RequestInfo, error) {
	c29.infoAsked++
	if !c29.infoOK {
		return aclsvc.RequestInfo{}, apistatus.ErrContainerNotFound
	}
	return aclsvc.RequestInfo{}, nil
}
func (i c29info) DeleteRequestToInfo(context.Context, *protoobject.DeleteRequest, cid.ID, common.RequestTokens) (aclsvc.RequestInfo, error) {
	return i.answer()
}
func (i c29info) HeadRequestToInfo(context.Context, *protoobject.HeadRequest, cid.ID, common.RequestTokens) (aclsvc.RequestInfo, error) {
	return i.answer()
}
func (i c29info) GetRequestToInfo(context.Context, *protoobject.GetRequest, cid.ID, common.RequestTokens) (aclsvc.RequestInfo, error) {
	return i.answer()
}
func (i c29info) RangeRequestToInfo(context.Context, *protoobject.GetRangeRequest, cid.ID, common.RequestTokens) (aclsvc.RequestInfo, error) {
	return i.answer()
}
func (i c29info) SearchV2RequestToInfo(context.Context, *protoobject.SearchV2Request, cid.ID, common.RequestTokens) (aclsvc.RequestInfo, error) {
	return i.answer()
}

type c29acl struct{}

func (c29acl) CheckBasicACL(aclsvc.RequestInfo) bool { c29.basicAsked++; return c29.basicOK }
func (c29acl) CheckEACL(context.Context, any, cid.ID, oid.ID, aclsvc.RequestInfo) error {
	c29.eaclAsked++
	switch c29.eacl {
	case 1:
		return aclsvc.ErrNotMatched
	case 2:
		return errors.New("denied by a table record")
	}
	return nil
}
func (c29acl) StickyBitCheck(aclsvc.RequestInfo, user.ID) bool { return true }

type c29handlers struct{}

func (c29handlers) Get(context.Context, getsvc.Prm) error {
	c29effect("object get")
	return apistatus.ErrObjectNotFound
}
func (c29handlers) Put(context.Context) (*putsvc.Streamer, error) {
	c29effect("object put")
	return nil, errors.New("not modelled")
}
func (c29handlers) Head(context.Context, getsvc.HeadPrm) error {
	c29effect("object head")
	return apistatus.ErrObjectNotFound
}
func (c29handlers) Delete(context.Context, deletesvc.Prm) error {
	c29effect("object delete")
	return nil
}
func (c29handlers) GetRange(context.Context, getsvc.RangePrm) error {
	c29effect("object range")
	return apistatus.ErrObjectNotFound
}

type c29storage struct{ Storage }

func (c29storage) SearchObjects(context.Context, cid.ID, []objectcore.SearchFilter, []string, *objectcore.SearchCursor, uint16) ([]client.SearchResultItem, []byte, error) {
	c29effect("local search")
	return nil, nil, nil
}

type c29metrics struct{}

func (c29metrics) HandleOpExecResult(stat.Method, bool, time.Duration) {}
func (c29metrics) AddPutPayload(int)                                  {}
func (c29metrics) AddGetPayload(int)                                  {}

type c29getStream struct {
	protoobject.ObjectService_GetServer
}

func (c29getStream) Context() context.Context { return context.Background() }
func (c29getStream) Send(r *protoobject.GetResponse) error {
	c29.sent = append(c29.sent, r.GetMetaHeader().GetStatus())
	return nil
}

type c29rangeStream struct {
	protoobject.ObjectService_GetRangeServer
}

func (c29rangeStream) Context() context.Context { return context.Background() }
func (c29rangeStream) Send(r *protoobject.GetRangeResponse) error {
	c29.sent = append(c29.sent, r.GetMetaHeader().GetStatus())
	return nil
}

func c29addr() *refs.Address {
	c := make([]byte, 32)
	o := make([]byte, 32)
	c[0], o[0] = 1, 2
	return &refs.Address{ContainerId: &refs.ContainerID{Value: c}, ObjectId: &refs.ObjectID{Value: o}}
}

// VerifC29Handlers: the object service calls (delete, head, get, range, search)
// with every combination of guard verdicts (request signatures, maintenance,
// tokens, requester info, basic ACL, extended ACL): no handler, storage or
// forwarding effect is reached unless every guard was consulted and passed;
// under maintenance the call is refused with the maintenance status.
func VerifC29Handlers() {
	c29.sigOK, c29.maintenance, c29.tokensOK = vrt.Bool("signaturesValid"), vrt.Bool("nodeUnderMaintenance"), vrt.Bool("tokensValid")
	c29.infoOK, c29.basicOK = vrt.Bool("requesterResolved"), vrt.Bool("basicACLAllows")
	c29.eacl = vrt.Choice("extendedACL", 3)
	c29.sigAsked, c29.mntAsked, c29.tokAsked, c29.infoAsked, c29.basicAsked, c29.eaclAsked, c29.effects = 0, 0, 0, 0, 0, 0, 0
	c29.sent = nil
	util.VerifNoSign = true
	icrypto.VerifHookChain = func() error {
		c29.sigAsked++
		if !c29.sigOK {
			return errors.New("invalid signature")
		}
		return nil
	}
	s := &Server{handlers: c29handlers{}, fsChain: c29chain{}, storage: c29storage{}, metrics: c29metrics{}, aclChecker: c29acl{}, reqInfoProc: c29info{}, log: zap.NewNop()}
	ctx := context.Background()
	var st *protostatus.Status
	switch vrt.Choice("call", 5) {
	case 0:
		resp, err := s.Delete(ctx, &protoobject.DeleteRequest{MetaHeader: &protosession.RequestMetaHeader{Ttl: 2}, Body: &protoobject.DeleteRequest_Body{Address: c29addr()}})
		vrt.Assert(err == nil, "status is reported in the response")
		st = resp.GetMetaHeader().GetStatus()
	case 1:
		r := s.HeadBuffered(ctx, &protoobject.HeadRequest{MetaHeader: &protosession.RequestMetaHeader{Ttl: 2}, Body: &protoobject.HeadRequest_Body{Address: c29addr()}})
		if hr, ok := r.(*protoobject.HeadResponse); ok {
			st = hr.GetMetaHeader().GetStatus()
		}
	case 2:
		_ = s.Get(&protoobject.GetRequest{MetaHeader: &protosession.RequestMetaHeader{Ttl: 2}, Body: &protoobject.GetRequest_Body{Address: c29addr()}}, c29getStream{})
		if len(c29.sent) > 0 {
			st = c29.sent[len(c29.sent)-1]
		}
	case 3:
		_ = s.GetRange(&protoobject.GetRangeRequest{MetaHeader: &protosession.RequestMetaHeader{Ttl: 2}, Body: &protoobject.GetRangeRequest_Body{Address: c29addr(), Range: &protoobject.Range{Offset: 0, Length: 1}}}, c29rangeStream{})
		if len(c29.sent) > 0 {
			st = c29.sent[len(c29.sent)-1]
		}
	case 4:
		r := s.SearchV2Buffered(ctx, &protoobject.SearchV2Request{MetaHeader: &protosession.RequestMetaHeader{Ttl: 2}, Body: &protoobject.SearchV2Request_Body{ContainerId: c29addr().ContainerId, Version: 1, Count: 1}})
		if sr, ok := r.(*protoobject.SearchV2Response); ok {
			st = sr.GetMetaHeader().GetStatus()
		}
	}
	allPassed := c29.sigOK && !c29.maintenance && c29.tokensOK && c29.infoOK && c29.basicOK && c29.eacl != 2
	if !allPassed {
		vrt.Assert(c29.effects == 0, "a request that fails a check causes no storage or network effect")
		vrt.Assert(st != nil && st.GetCode() != 0, "a request that fails a check gets an error status")
	}
	if c29.sigOK && c29.maintenance {
		vrt.Assert(st != nil && st.GetCode() == util.ToStatus(apistatus.ErrNodeUnderMaintenance).GetCode(), "a client operation is refused with the maintenance status while the node is under maintenance")
		vrt.Reach("maintenance")
	}
	if allPassed {
		if st != nil {
			vrt.Observe("statusCode", int(st.GetCode()))
			vrt.Observe("statusMsg", st.GetMessage())
		}
		vrt.Assert(c29.effects > 0, "a request that passes every check is served")
		vrt.Reach("served")
	}
	util.VerifNoSign, icrypto.VerifHookChain = false, nil
}
