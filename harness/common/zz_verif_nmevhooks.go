//go:build verif

package netmap

import (
	"github.com/nspcc-dev/neo-go/pkg/crypto/keys"
	"github.com/nspcc-dev/neo-go/pkg/network/payload"
	netmaprpc "github.com/nspcc-dev/neofs-contract/rpc/netmap"
)

// VerifNewAddNode builds an AddNode event as the notary parser would.
func VerifNewAddNode(node netmaprpc.NetmapNode2, nr *payload.P2PNotaryRequest) AddNode {
	return AddNode{Node: node, notaryRequest: nr}
}

// VerifNewEpoch builds a NewEpoch notification event.
func VerifNewEpoch(num uint64) NewEpoch { return NewEpoch{num: num} }

// VerifNewUpdatePeer builds an UpdatePeer event as the notary parser would.
func VerifNewUpdatePeer(key *keys.PublicKey, nr *payload.P2PNotaryRequest) UpdatePeer {
	return UpdatePeer{publicKey: key, notaryRequest: nr}
}
