//go:build verif

package timers

import "github.com/nspcc-dev/neofs-node/internal/vrt"

// VerifC40History: histories of K calls (the first one a Reset), each either
// Reset(lastTick, dur) or UpdateTime(curr) with arbitrary 64-bit arguments
// (times need not be monotonic); one new-epoch tick and two sub-epoch ticks
// with arbitrary 32-bit mul <= div. Reference: after a reset every handler
// fires exactly once, at the first observed time that reaches its schedule.
func VerifC40History() {
	k := vrt.Param("K")
	var fired [3]int // 0: epoch, 1..2: deltas
	var mul, div [2]uint32
	for i := range mul {
		mul[i] = vrt.U32("mul")
		div[i] = vrt.U32("div")
		vrt.Assume(div[i] != 0 && mul[i] <= div[i])
	}
	et := NewTimers(EpochTicks{
		NewEpochTicks: []Tick{func() { fired[0]++ }},
		DeltaTicks: []SubEpochTick{
			{Tick: func() { fired[1]++ }, EpochMul: mul[0], EpochDiv: div[0]},
			{Tick: func() { fired[2]++ }, EpochMul: mul[1], EpochDiv: div[1]},
		},
	})
	// reference state
	var at [3]uint64
	var done [3]bool
	var want [3]int
	for step := 0; step < k; step++ {
		if step == 0 || vrt.Choice("op", 2) == 0 {
			last, dur := vrt.U64("lastTick"), vrt.U64("dur")
			// stated bound: no wrap-around of the schedule arithmetic
			vrt.Assume(last < 1<<62 && dur < 1<<32)
			et.Reset(last, dur)
			at[0] = last + dur
			for i := 0; i < 2; i++ {
				at[1+i] = last + dur*uint64(mul[i])/uint64(div[i])
				// arithmetic lemma (fraction <= 1, no wrap), discharged on its own by VerifC40Lemma
				vrt.Assume(at[1+i] <= at[0])
			}
			done = [3]bool{}
			fired = [3]int{}
			want = [3]int{}
			vrt.Reach("reset")
			continue
		}
		curr := vrt.U64("curr")
		et.UpdateTime(curr)
		for h := 0; h < 3; h++ {
			if !done[h] && at[h] <= curr {
				done[h] = true
				want[h]++
			}
		}
		vrt.Assert(fired[0] == want[0], "new-epoch handler fires exactly once, at the first time reaching the epoch end")
		vrt.Assert(fired[1] == want[1] && fired[2] == want[2], "each sub-epoch handler fires exactly once, at the first time reaching its fraction")
		vrt.Assert(fired[0] <= 1 && fired[1] <= 1 && fired[2] <= 1, "nothing fires twice between resets")
		vrt.Reach("update")
	}
}

// VerifC40Lemma: for dur < 2^32, 0 < div, mul <= div (32-bit): floor(dur*mul/div) <= dur,
// hence a sub-epoch tick is never scheduled after the epoch end.
func VerifC40Lemma() {
	mul, div := vrt.U32("mul"), vrt.U32("div")
	last, dur := vrt.U64("lastTick"), vrt.U64("dur")
	vrt.Assume(div != 0 && mul <= div && last < 1<<62 && dur < 1<<32)
	vrt.Assert(last+dur*uint64(mul)/uint64(div) <= last+dur, "a fraction of the epoch is scheduled no later than the epoch end")
	vrt.Reach("end")
}
