//go:build verif

package client

import (
	"context"

	"github.com/nspcc-dev/neo-go/pkg/crypto/keys"
	"github.com/nspcc-dev/neo-go/pkg/encoding/fixedn"
	"github.com/nspcc-dev/neo-go/pkg/util"
)

// Further chain-facing ends of the morph client as models (see
// zz_verif_morphhooks.go): GAS transfers and alphabet notary scripts go to
// VerifHookSend; the reads the inner ring needs before acting are answered by
// the hooks below. The real methods are renamed to <name>__real.
var (
	VerifHookGasBalance  func() (int64, error)
	VerifHookAccountVote func(addr util.Uint160) (*keys.PublicKey, error)
	VerifHookNonceVUB    func() (uint32, uint32, error)
)

func (c *Client) TransferGas(receiver util.Uint160, amount fixedn.Fixed8) error {
	if h := VerifHookSend; h != nil {
		return h(VerifCall{Kind: "transfer-gas", Contract: receiver, Args: []any{int64(amount)}})
	}
	return c.TransferGas__real(receiver, amount)
}

func (c *Client) GasBalance() (int64, error) {
	if h := VerifHookGasBalance; h != nil {
		return h()
	}
	return c.GasBalance__real()
}

func (c *Client) runAlphabetNotaryScript(ctx context.Context, script []byte, nonce uint32, await, invokedByAlpha bool) error {
	if h := VerifHookSend; h != nil {
		k := "script-for-alphabet"
		if invokedByAlpha {
			k = "alphabet-script"
		}
		return h(VerifCall{Kind: k, Args: []any{script}})
	}
	return c.runAlphabetNotaryScript__real(ctx, script, nonce, await, invokedByAlpha)
}

func (c *Client) CalculateNonceAndVUB(hash util.Uint256) (uint32, uint32, error) {
	if h := VerifHookNonceVUB; h != nil {
		return h()
	}
	return c.CalculateNonceAndVUB__real(hash)
}

func (c *Client) AccountVote(addr util.Uint160) (*keys.PublicKey, error) {
	if h := VerifHookAccountVote; h != nil {
		return h(addr)
	}
	return c.AccountVote__real(addr)
}
