//go:build verif

package ec

import "github.com/nspcc-dev/neofs-node/internal/vrt"

// VerifC22Sequence: for every totalParts in 1..TMAX, nodes in 0..NMAX and
// partIdx in [0,totalParts): the node order is a permutation of [0,nodes) and
// a part starts at the node with its own index.
func VerifC22Sequence() {
	tmax, nmax := vrt.Param("TMAX"), vrt.Param("NMAX")
	total := 1 + vrt.Choice("totalParts", tmax) // concretised: symbolic % symbolic is out of the solvers' reach
	nodes := vrt.IntRange("nodes", 0, nmax)
	part := vrt.Choice("partIdx", total) // concretised as well: 64-bit remainder by a constant stalls the bit-blasters

	seen := make([]int, nmax)
	n := 0
	first := -1
	for i := range NodeSequenceForPart(part, total, nodes) {
		vrt.Assert(i >= 0 && i < nodes, "every index is a node index")
		if i < 0 || i >= nmax {
			return
		}
		if n == 0 {
			first = i
		}
		seen[i]++
		n++
		if n > nmax {
			break
		}
	}
	vrt.Assert(n == nodes, "sequence length equals the number of nodes")
	bad := 0
	for k := 0; k < nodes; k++ {
		bad |= seen[k] ^ 1
	}
	vrt.Assert(bad == 0, "every node index exactly once")
	if part < nodes {
		vrt.Assert(first == part, "a part starts at the node with its own index")
	}
	vrt.Reach("end")
}

// VerifC22Spread: two distinct parts start at distinct nodes when there are at
// least as many nodes as parts.
func VerifC22Spread() {
	tmax, nmax := vrt.Param("TMAX"), vrt.Param("NMAX")
	total := 1 + vrt.Choice("totalParts", tmax)
	nodes := vrt.IntRange("nodes", 0, nmax)
	p1 := vrt.Choice("part1", total)
	p2 := vrt.Choice("part2", total)
	vrt.Assume(p1 != p2 && nodes >= total)
	f1, f2 := -1, -2
	for i := range NodeSequenceForPart(p1, total, nodes) {
		f1 = i
		break
	}
	for i := range NodeSequenceForPart(p2, total, nodes) {
		f2 = i
		break
	}
	vrt.Assert(f1 != f2 && f1 >= 0 && f2 >= 0, "distinct parts start at distinct nodes")
	vrt.Reach("end")
}

