//go:build verif

package ec

import (
	"crypto/sha256"
	"encoding/hex"

	"github.com/klauspost/reedsolomon"
	"github.com/nspcc-dev/neofs-node/internal/vrt"
)

func c21eq(a, b []byte) bool {
	if len(a) != len(b) {
		return false
	}
	for i := range a {
		if a[i] != b[i] {
			return false
		}
	}
	return true
}

func c21clone(parts [][]byte) [][]byte {
	out := make([][]byte, len(parts))
	for i := range parts {
		if parts[i] != nil {
			out[i] = append([]byte{}, parts[i]...)
		}
	}
	return out
}

// VerifC21EncodeDecode: for a rule with 1..3 data and 0..2 parity parts and a
// payload of 0..L arbitrary bytes (in a buffer without spare capacity, as the
// PUT pipeline guarantees): all parts have equal length, the announced hashes
// are the SHA-256 of the parts, and after erasing any set of at most
// parity-count parts the payload decodes to exactly the original; a partial
// reconstruction restores exactly the requested part.
func VerifC21EncodeDecode() {
	reedsolomon.VerifNoTable16 = true // shards stay below 8 bytes
	reedsolomon.VerifLinearGF = true  // constant multiplication in its linear form (see zz_verif_rshooks.go)
	d := 1 + vrt.Choice("dataParts", 3)
	p := vrt.Choice("parityParts", 3)
	rule := Rule{DataPartNum: uint8(d), ParityPartNum: uint8(p)}
	l := vrt.Choice("payloadLength", vrt.Param("L")+1)
	buf := make([]byte, l)
	copy(buf, vrt.Bytes("payload", l))
	orig := append([]byte{}, buf...)
	parts, sums, err := Encode(rule, buf)
	vrt.Assert(err == nil && len(parts) == d+p && len(sums) == d+p, "encoding yields data+parity parts and as many hashes")
	if err != nil {
		return
	}
	for i := range parts {
		vrt.Assert(len(parts[i]) == len(parts[0]), "all parts have equal length")
		h := sha256.Sum256(parts[i])
		vrt.Assert(sums[i] == hex.EncodeToString(h[:]), "the announced hash of a part is the SHA-256 of that part")
	}
	if l == 0 {
		vrt.Reach("empty")
		return
	}
	full := c21clone(parts)
	// erase up to p parts
	got := c21clone(parts)
	erased, lost := 0, -1
	for i := range got {
		if erased < p && vrt.Bool("partLost") {
			got[i] = nil
			erased++
			if lost < 0 {
				lost = i
			}
		}
	}
	res, err := Decode(rule, uint64(l), got)
	vrt.Assert(err == nil, "any set of at least data-count parts decodes")
	if err == nil {
		vrt.Assert(c21eq(res, orig), "the decoded payload is exactly the original")
	}
	// partial reconstruction of one lost part
	if erased > 0 {
		again := c21clone(parts)
		again[lost] = nil
		err = DecodeIndexes(rule, again, []int{lost})
		vrt.Assert(err == nil && c21eq(again[lost], full[lost]), "partial reconstruction restores exactly the requested part")
	}
	vrt.Reach("end")
}

// VerifC21KernelModel: the linear form that replaces the codec's table look-ups
// in the other entries equals the codec's own multiplication table for every
// constant and every byte (65536 concrete cases, run on every check).
func VerifC21KernelModel() {
	vrt.Assert(reedsolomon.VerifCheckLinearGF(), "the linear GF(2^8) kernel model equals the codec's multiplication table")
	vrt.Reach("end")
}
