#!/bin/sh
# runs every claimed check at the given tier (default quick); prints one line per property
TIER=${1:-quick}
cd /verif
for id in $(python3 -c "import json;print(' '.join(c['property_id'] for c in json.load(open('/verif/MANIFEST.json'))['checks']))"); do
  s=$(date +%s)
  timeout ${VERIF_ALL_TIMEOUT:-3600} ./check $id --tier $TIER > /var/tmp/runall-$id.log 2>&1
  rc=$?
  e=$(date +%s)
  echo "$id rc=$rc $((e-s))s $(grep -c '^KNOWN-FINDING' /var/tmp/runall-$id.log) known; $(grep -E '^(PASS|VIOLATION|INCONCLUSIVE)' /var/tmp/runall-$id.log | head -2 | tr '\n' ' ' | cut -c1-160)"
done
