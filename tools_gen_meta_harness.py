#!/usr/bin/env python3
# regenerates harness.json of the properties whose harnesses run on the bbolt model
import sys,json; sys.path.insert(0,'/verif')
from tools_meta_unit import *
SH="./pkg/local_object_storage/shard"
def shard_unit(hfile, entries, tiers=None):
    u=meta_unit([],entries,pkg=SH,tiers=tiers)
    u['files']={hfile:SH[2:],"../common/zz_verif_metacommon.go":"pkg/local_object_storage/metabase","../common/zz_verif_bboltmodel.go":"mod:github.com/nspcc-dev/bbolt"}
    return u
write("C01",[meta_unit(["zz_verif_C01.go"],[{"name":"VerifC01History","reach":["end"]}],tiers={"quick":{"params":{"K":3},"unwind":200},"thorough":{"params":{"K":4},"unwind":200}})],
 [],["histories longer than K operations on one object","search/EC-part views, split parents"])
write("C02",[meta_unit(["zz_verif_C02.go"],[{"name":"VerifC02History","reach":["end"]},{"name":"VerifC02UpdateCounter","reach":["end"]}],
  tiers={"quick":{"unwind":200,"params":{"K":2}},"thorough":{"unwind":200,"params":{"K":3}}})],
 ["the numbers the property defines are computed by the harness from the facts of the history; the real recount syncContainerCounters is compared with them as well"],["histories longer than K operations, removal marks on unknown objects","shard-level metric mirrors","wrap-around of a counter above 2^64 on positive deltas is outside"])
write("C06",[meta_unit(["zz_verif_C06.go"],[{"name":"VerifC06Listing","reach":["end"]}])],
 [],["more than 2 containers x 3 objects, page sizes above 3","attribute fetching in listing","engine-level merge of shard listings (separate entry when present)"])
write("C07",[meta_unit(["zz_verif_C07.go"],[{"name":"VerifC07LockProtects","reach":["locked","unlocked"]}])],
 [],["concurrent lock/tombstone arrival, GC interleavings (sequential engine)","engine-level expired handling across shards"])
write("C18",[meta_unit(["zz_verif_C18.go","../C01/zz_verif_C01.go"],[{"name":"VerifC18ResyncOrders","reach":["end"]}])],
 ["blob decoding is not part of this check: the batch put of the resync (DB.PutBatch) receives already decoded objects"],["blob sets beyond {object, tombstone, expired lock}","split children, batch thresholds of the resync handler, blob iteration errors"])
write("C14",[shard_unit("zz_verif_C14.go",[{"name":"VerifC14ReadOnly","reach":["readonly","writes-in-rw"]}])],
 ["the shard reports a read-only mode while the components below it (real metabase on the bbolt model, recording models of blob storage and write-cache) would still accept writes, so a missing gate shows as a write"],
 ["entry points other than the 11 explored (Put, Delete, MarkGarbage, InhumeContainer, DeleteContainer, Restore, ReviveObject, FlushWriteCache, removeGarbage, collectExpiredObjects, tombstone put)","flush workers of the write-cache (concurrency), on-disk comparison"],
 ["common.Storage, writecache.Cache -> recording models"])
write("C43",[shard_unit("zz_verif_C43.go",[{"name":"VerifC43ModeChanges","reach":["switched","failed"]}],tiers={"quick":{"unwind":200,"params":{"T":2,"MAXFAIL":1}},"thorough":{"unwind":200,"params":{"T":3,"MAXFAIL":2}}})],
 ["metabase mode switch (reopens the bbolt file), blob storage open/close and write-cache mode switch are models that record their mode and may fail"],
 ["more than T changes / MAXFAIL failures","which operations are accepted after a partially failed switch (components then differ from the reported mode by design, docs/shard-modes.md); the gates are decided by C14","handleMetabaseFailure file operations"],
 ["(*meta.DB).SetMode, common.Storage.Open/Close/Init, writecache.Cache.SetMode -> models"])
write("C15",[shard_unit("zz_verif_C15.go",[{"name":"VerifC15Put","reach":["stored","crashed"]},{"name":"VerifC15Delete","reach":["deleted","crashed"]}])],
 ["write-cache and blob storage are maps address -> present with a symbolic crash point before and after every call and injectable failures; the metabase is the real one on the bbolt model; component calls are atomic"],
 ["garbage collection and write-cache flush under crash (separate entries when present)","histories of more than one operation per run, real restart and recovery code","crash inside a component call (partial writes) - see C12"],
 ["common.Storage, writecache.Cache -> models with crash points"])
write("C44",[shard_unit("zz_verif_C44.go",[{"name":"VerifC44Collect","reach":["end"]}],tiers={"quick":{"unwind":400,"params":{"PASSES":8}},"thorough":{"unwind":400,"params":{"PASSES":12}}})],
 ["blob storage is a presence map; expired objects reported by the shard are garbage-marked unless locked, as the engine does; the metabase is the real one on the bbolt model"],
 ["liveness beyond PASSES passes, shard contents other than the explored one, GC timers and workers (the passes are invoked sequentially)","write-cache"],
 ["common.Storage -> presence map"])
# C03: two units
h=json.load(open('/verif/harness/C03/harness.json'))
h['units']=[u for u in h['units'] if u['package']=='./pkg/core/object']+[meta_unit(["zz_verif_C03meta.go"],[{"name":"VerifC03Search","reach":["end"]}])]
json.dump(h,open('/verif/harness/C03/harness.json','w'),indent=1)
print("ok")
