package eng

import (
	"encoding/hex"
	"crypto/sha256"
	"fmt"
	"go/types"
	"math"
	"math/big"
	"strconv"
	"strings"

	"golang.org/x/tools/go/ssa"
)

var intrinsics = map[string]intrinsic{}

func reg(names string, f intrinsic) {
	for _, n := range strings.Fields(names) {
		intrinsics[n] = f
	}
}

const vrtPath = "github.com/nspcc-dev/neofs-node/internal/vrt"

func lookupIntrinsic(in *Interp, fn *ssa.Function, name string) intrinsic {
	if f, ok := intrinsics[name]; ok {
		return f
	}
	// havoc by package prefix
	pkgPath := ""
	if fn.Pkg != nil {
		pkgPath = fn.Pkg.Pkg.Path()
	} else if o := fn.Origin(); o != nil && o.Pkg != nil {
		pkgPath = o.Pkg.Pkg.Path()
	} else if fn.Object() != nil && fn.Object().Pkg() != nil {
		pkgPath = fn.Object().Pkg().Path()
	}
	for _, h := range in.cfg.Havoc {
		if pkgPath == h || strings.HasPrefix(pkgPath, h+"/") {
			return intrZero
		}
	}
	return nil
}

func intrZero(in *Interp, fr *frame, fn *ssa.Function, args []Value) Value {
	res := fn.Signature.Results()
	// methods returning the receiver type (e.g. (*zap.Logger).With) return the receiver
	if fn.Signature.Recv() != nil && res.Len() == 1 && len(args) > 0 && types.Identical(res.At(0).Type(), fn.Signature.Recv().Type()) {
		return args[0]
	}
	return resultZero(fn)
}

func cstr(in *Interp, v Value, what string) string {
	s, ok := v.(*Str).Concrete()
	if !ok {
		in.unsupported("%s must be a concrete string", what)
	}
	return s
}

func bv(v Value) *Term { return v.(*Term) }

func tuple(vs ...Value) Value { return Tuple(vs) }

func nilErr() Value { return Iface{} }

func init() {
	// ---------------- vrt ----------------
	draw := func(kind string, w int) intrinsic {
		return func(in *Interp, fr *frame, fn *ssa.Function, args []Value) Value {
			d := in.newDraw(cstr(in, args[0], "vrt name"), kind, BV(w))
			return d.Terms[0]
		}
	}
	reg(vrtPath+".Byte", draw("u8", 8))
	reg(vrtPath+".U16", draw("u16", 16))
	reg(vrtPath+".U32", draw("u32", 32))
	reg(vrtPath+".U64", draw("u64", 64))
	reg(vrtPath+".I64", draw("i64", 64))
	reg(vrtPath+".Int", draw("int", 64))
	reg(vrtPath+".Bool", func(in *Interp, fr *frame, fn *ssa.Function, args []Value) Value {
		d := in.newDraw(cstr(in, args[0], "vrt name"), "bool", BoolSort)
		return d.Terms[0]
	})
	reg(vrtPath+".IntRange", func(in *Interp, fr *frame, fn *ssa.Function, args []Value) Value {
		lo, hi := bv(args[1]), bv(args[2])
		d := in.newDraw(cstr(in, args[0], "vrt name"), "range", BV(64))
		v := d.Terms[0]
		in.assume(in.tb.And(in.tb.Sle(lo, v), in.tb.Sle(v, hi)))
		return v
	})
	reg(vrtPath+".Choice", func(in *Interp, fr *frame, fn *ssa.Function, args []Value) Value {
		n := int(in.concreteInt(bv(args[1]), "choice n"))
		name := cstr(in, args[0], "vrt name")
		c := in.choice(name, n)
		in.P.draws = append(in.P.draws, &Draw{Name: name, Kind: "choice", Conc: uint64(c)})
		return ConstBV(64, uint64(c))
	})
	reg(vrtPath+".Bytes", func(in *Interp, fr *frame, fn *ssa.Function, args []Value) Value {
		n := int(in.concreteInt(bv(args[1]), "bytes n"))
		sorts := make([]Sort, n)
		for i := range sorts {
			sorts[i] = BV(8)
		}
		d := in.newDraw(cstr(in, args[0], "vrt name"), "bytes", sorts...)
		a := make([]Value, n)
		for i := range a {
			a[i] = d.Terms[i]
		}
		return Slice{A: a}
	})
	reg(vrtPath+".String", func(in *Interp, fr *frame, fn *ssa.Function, args []Value) Value {
		n := int(in.concreteInt(bv(args[1]), "string n"))
		sorts := make([]Sort, n)
		for i := range sorts {
			sorts[i] = BV(8)
		}
		d := in.newDraw(cstr(in, args[0], "vrt name"), "bytes", sorts...)
		if n == 0 {
			return mkStr("")
		}
		return &Str{Sym: append([]*Term(nil), d.Terms...)}
	})
	reg(vrtPath+".Assume", func(in *Interp, fr *frame, fn *ssa.Function, args []Value) Value {
		in.assume(bv(args[0]))
		return nil
	})
	reg(vrtPath+".Assert", func(in *Interp, fr *frame, fn *ssa.Function, args []Value) Value {
		in.assert(bv(args[0]), cstr(in, args[1], "assert label"))
		return nil
	})
	reg(vrtPath+".Reach", func(in *Interp, fr *frame, fn *ssa.Function, args []Value) Value {
		in.P.reached[cstr(in, args[0], "reach label")] = true
		return nil
	})
	reg(vrtPath+".Param", func(in *Interp, fr *frame, fn *ssa.Function, args []Value) Value {
		name := cstr(in, args[0], "param name")
		v, ok := in.cfg.Params[name]
		if !ok {
			in.unsupported("vrt.Param(%q) not configured", name)
		}
		return ConstBV(64, uint64(int64(v)))
	})
	reg(vrtPath+".Observe", func(in *Interp, fr *frame, fn *ssa.Function, args []Value) Value {
		name := cstr(in, args[0], "observe name")
		i := args[1].(Iface)
		in.P.observes = append(in.P.observes, name+"="+obsString(i.V))
		return nil
	})
	reg(vrtPath+".Symbolic", func(in *Interp, fr *frame, fn *ssa.Function, args []Value) Value {
		return TrueT
	})
	reg(vrtPath+".UF", func(in *Interp, fr *frame, fn *ssa.Function, args []Value) Value {
		name := cstr(in, args[0], "UF name")
		inb := args[1].(Slice).A
		outLen := int(in.concreteInt(bv(args[2]), "UF outLen"))
		return Slice{A: in.ufBytes(name, inb, outLen)}
	})

	// ---------------- sync ----------------
	noop := func(in *Interp, fr *frame, fn *ssa.Function, args []Value) Value { return resultZero(fn) }
	// sync.Mutex: single-threaded lock state in the first word; locking a held
	// mutex in the sequential schedule is a self-deadlock and reported as such.
	mutexWord := func(in *Interp, recv Value) *Value {
		pv, ok := recv.(*Value)
		if !ok || pv == nil {
			in.gopanic("runtime error: invalid memory address or nil pointer dereference (nil mutex)")
		}
		st, ok := (*pv).(Struct)
		if !ok {
			return nil
		}
		// Mutex{ _ noCopy; mu isync.Mutex{state int32; sema uint32} } or {state, sema}
		for len(st) > 0 {
			if _, isT := st[0].(*Term); isT {
				return &st[0]
			}
			found := false
			for i := range st {
				if inner, ok := st[i].(Struct); ok && len(inner) > 0 {
					st = inner
					found = true
					break
				}
			}
			if !found {
				return nil
			}
		}
		return nil
	}
	reg("(*sync.Mutex).Lock", func(in *Interp, fr *frame, fn *ssa.Function, args []Value) Value {
		if w := mutexWord(in, args[0]); w != nil {
			if t, ok := (*w).(*Term); ok && t.IsConst() && t.C != 0 {
				in.gopanic("deadlock: sync.Mutex.Lock of a mutex that is already held and never released on this schedule")
			}
			in.storeLeaf(w, ConstBV(32, 1))
		}
		return nil
	})
	reg("(*sync.Mutex).Unlock", func(in *Interp, fr *frame, fn *ssa.Function, args []Value) Value {
		if w := mutexWord(in, args[0]); w != nil {
			if t, ok := (*w).(*Term); ok && t.IsConst() && t.C == 0 {
				in.gopanic("fatal error: sync: unlock of unlocked mutex")
			}
			in.storeLeaf(w, ConstBV(32, 0))
		}
		return nil
	})
	reg("(*sync.RWMutex).Lock (*sync.RWMutex).Unlock (*sync.RWMutex).RLock (*sync.RWMutex).RUnlock", noop)
	reg("time.AfterFunc", func(in *Interp, fr *frame, fn *ssa.Function, args []Value) Value {
		// the timer never fires by itself; harnesses invoke the callback where a firing is to be explored
		v := zero(fn.Signature.Results().At(0).Type().(*types.Pointer).Elem())
		return &v
	})
	reg("(*sync.WaitGroup).Add (*sync.WaitGroup).Done (*sync.WaitGroup).Wait (*sync.Cond).Broadcast (*sync.Cond).Signal", noop)
	reg("(*sync.Mutex).TryLock (*sync.RWMutex).TryLock (*sync.RWMutex).TryRLock", func(in *Interp, fr *frame, fn *ssa.Function, args []Value) Value { return TrueT })
	reg("(*sync.WaitGroup).Go", func(in *Interp, fr *frame, fn *ssa.Function, args []Value) Value {
		in.call(fr, args[1], nil, nil)
		return nil
	})
	reg("(*sync.Pool).Put", noop)
	reg("(*sync.Pool).Get", func(in *Interp, fr *frame, fn *ssa.Function, args []Value) Value {
		p := args[0].(*Value)
		st := (*p).(Struct)
		// field New is the last field
		newf := st[len(st)-1]
		if isNilFunc(newf) {
			return Iface{}
		}
		return in.call(fr, newf, nil, nil)
	})
	reg("runtime.KeepAlive runtime.GC runtime.Gosched runtime.SetFinalizer runtime/debug.FreeOSMemory time.Sleep", noop)
	reg("internal/abi.NoEscape", func(in *Interp, fr *frame, fn *ssa.Function, args []Value) Value { return args[0] })
	reg("internal/abi.Escape[T]", func(in *Interp, fr *frame, fn *ssa.Function, args []Value) Value { return args[0] })
	reg("internal/race.Enabled", noop)

	// ---------------- sync/atomic ----------------
	atomLoad := func(in *Interp, fr *frame, fn *ssa.Function, args []Value) Value { return in.load(args[0]) }
	atomStore := func(in *Interp, fr *frame, fn *ssa.Function, args []Value) Value {
		in.storeTo(args[0], args[1])
		return nil
	}
	atomAdd := func(in *Interp, fr *frame, fn *ssa.Function, args []Value) Value {
		n := in.tb.Add(bv(in.load(args[0])), bv(args[1]))
		in.storeTo(args[0], n)
		return n
	}
	atomSwap := func(in *Interp, fr *frame, fn *ssa.Function, args []Value) Value {
		old := in.load(args[0])
		in.storeTo(args[0], args[1])
		return old
	}
	atomCAS := func(in *Interp, fr *frame, fn *ssa.Function, args []Value) Value {
		old := in.load(args[0])
		var t types.Type
		eq := in.equals(t, old, args[1])
		if in.branch(eq) {
			in.storeTo(args[0], args[2])
			return TrueT
		}
		return FalseT
	}
	for _, ty := range []string{"Int32", "Int64", "Uint32", "Uint64", "Uintptr", "Pointer"} {
		reg("sync/atomic.Load"+ty, atomLoad)
		reg("sync/atomic.Store"+ty, atomStore)
		reg("sync/atomic.Swap"+ty, atomSwap)
		reg("sync/atomic.CompareAndSwap"+ty, atomCAS)
		if ty != "Pointer" {
			reg("sync/atomic.Add"+ty, atomAdd)
		}
	}
	reg("sync/atomic.AndInt32 sync/atomic.AndUint32 sync/atomic.AndInt64 sync/atomic.AndUint64", func(in *Interp, fr *frame, fn *ssa.Function, args []Value) Value {
		old := bv(in.load(args[0]))
		in.storeTo(args[0], in.tb.BAnd(old, bv(args[1])))
		return old
	})
	reg("sync/atomic.OrInt32 sync/atomic.OrUint32 sync/atomic.OrInt64 sync/atomic.OrUint64", func(in *Interp, fr *frame, fn *ssa.Function, args []Value) Value {
		old := bv(in.load(args[0]))
		in.storeTo(args[0], in.tb.BOr(old, bv(args[1])))
		return old
	})
	// atomic.Value: struct{ v any }
	reg("(*sync/atomic.Value).Load", func(in *Interp, fr *frame, fn *ssa.Function, args []Value) Value {
		st := (*args[0].(*Value)).(Struct)
		return st[0]
	})
	reg("(*sync/atomic.Value).Store", func(in *Interp, fr *frame, fn *ssa.Function, args []Value) Value {
		st := (*args[0].(*Value)).(Struct)
		in.store(&st[0], args[1])
		return nil
	})
	reg("(*sync/atomic.Value).Swap", func(in *Interp, fr *frame, fn *ssa.Function, args []Value) Value {
		st := (*args[0].(*Value)).(Struct)
		old := st[0]
		in.store(&st[0], args[1])
		return old
	})

	// ---------------- time ----------------
	// the wall clock is a fixed instant shortly before this image's date
	// (Unix 1_790_000_000, no monotonic reading): code comparing it with far
	// past / far future deadlines behaves as in a native replay.
	reg("time.Now", func(in *Interp, fr *frame, fn *ssa.Function, args []Value) Value {
		z := zero(fn.Signature.Results().At(0).Type())
		if st, ok := z.(Struct); ok && len(st) == 3 {
			st[1] = ConstBV(64, uint64(1_790_000_000+62135596800))
			return st
		}
		return z
	})

	// ---------------- fmt / errors ----------------
	reg("fmt.Errorf", intrErrorf)
	reg("fmt.Sprintf", func(in *Interp, fr *frame, fn *ssa.Function, args []Value) Value {
		return in.sprintf(args[0].(*Str), args[1].(Slice).A)
	})
	reg("fmt.Sprint fmt.Sprintln", func(in *Interp, fr *frame, fn *ssa.Function, args []Value) Value {
		var parts []string
		for _, a := range args[0].(Slice).A {
			parts = append(parts, in.fmtArg(a, 'v'))
		}
		return mkStr(strings.Join(parts, " "))
	})
	reg("fmt.Println fmt.Printf fmt.Print fmt.Fprintf fmt.Fprintln fmt.Fprint log.Printf log.Println log.Print", func(in *Interp, fr *frame, fn *ssa.Function, args []Value) Value {
		return resultZero(fn)
	})
	reg("errors.Is", func(in *Interp, fr *frame, fn *ssa.Function, args []Value) Value {
		return ConstBool(in.errorsIs(args[0].(Iface), args[1].(Iface), 0))
	})
	reg("errors.As", func(in *Interp, fr *frame, fn *ssa.Function, args []Value) Value {
		return ConstBool(in.errorsAs(args[0].(Iface), args[1].(Iface), 0))
	})

	// ---------------- strings / bytes helpers on bytealg ----------------
	reg("internal/bytealg.IndexByte bytes.IndexByte", func(in *Interp, fr *frame, fn *ssa.Function, args []Value) Value {
		return in.indexByte(sliceTerms(args[0].(Slice)), bv(args[1]))
	})
	reg("internal/bytealg.IndexByteString strings.IndexByte", func(in *Interp, fr *frame, fn *ssa.Function, args []Value) Value {
		return in.indexByte(args[0].(*Str).Terms(), bv(args[1]))
	})
	reg("internal/bytealg.LastIndexByte", func(in *Interp, fr *frame, fn *ssa.Function, args []Value) Value {
		return in.lastIndexByte(sliceTerms(args[0].(Slice)), bv(args[1]))
	})
	reg("internal/bytealg.LastIndexByteString", func(in *Interp, fr *frame, fn *ssa.Function, args []Value) Value {
		return in.lastIndexByte(args[0].(*Str).Terms(), bv(args[1]))
	})
	reg("internal/bytealg.Compare bytes.Compare", func(in *Interp, fr *frame, fn *ssa.Function, args []Value) Value {
		return in.bytesCompare(sliceTerms(args[0].(Slice)), sliceTerms(args[1].(Slice)))
	})
	reg("internal/bytealg.CompareString strings.Compare", func(in *Interp, fr *frame, fn *ssa.Function, args []Value) Value {
		return in.strCompare(args[0].(*Str), args[1].(*Str))
	})
	reg("bytes.Equal", func(in *Interp, fr *frame, fn *ssa.Function, args []Value) Value {
		return in.bytesEqual(sliceTerms(args[0].(Slice)), sliceTerms(args[1].(Slice)))
	})
	reg("internal/bytealg.Equal", func(in *Interp, fr *frame, fn *ssa.Function, args []Value) Value {
		return in.bytesEqual(sliceTerms(args[0].(Slice)), sliceTerms(args[1].(Slice)))
	})
	reg("internal/bytealg.MakeNoZero", func(in *Interp, fr *frame, fn *ssa.Function, args []Value) Value {
		n := int(in.concreteInt(bv(args[0]), "MakeNoZero"))
		a := make([]Value, n)
		for i := range a {
			a[i] = ConstBV(8, 0)
		}
		return Slice{A: a}
	})
	reg("internal/bytealg.Count", func(in *Interp, fr *frame, fn *ssa.Function, args []Value) Value {
		return in.countByte(sliceTerms(args[0].(Slice)), bv(args[1]))
	})
	reg("internal/bytealg.CountString", func(in *Interp, fr *frame, fn *ssa.Function, args []Value) Value {
		return in.countByte(args[0].(*Str).Terms(), bv(args[1]))
	})
	reg("internal/bytealg.IndexString strings.Index", func(in *Interp, fr *frame, fn *ssa.Function, args []Value) Value {
		return in.indexSeq(args[0].(*Str).Terms(), args[1].(*Str).Terms())
	})
	reg("internal/bytealg.Index bytes.Index", func(in *Interp, fr *frame, fn *ssa.Function, args []Value) Value {
		return in.indexSeq(sliceTerms(args[0].(Slice)), sliceTerms(args[1].(Slice)))
	})
	reg("internal/stringslite.Index", func(in *Interp, fr *frame, fn *ssa.Function, args []Value) Value {
		return in.indexSeq(args[0].(*Str).Terms(), args[1].(*Str).Terms())
	})
	reg("internal/stringslite.IndexByte", func(in *Interp, fr *frame, fn *ssa.Function, args []Value) Value {
		return in.indexByte(args[0].(*Str).Terms(), bv(args[1]))
	})
	reg("strings.Clone internal/stringslite.Clone", func(in *Interp, fr *frame, fn *ssa.Function, args []Value) Value { return args[0] })

	// ---------------- math/bits ----------------
	lenN := func(w int) intrinsic {
		return func(in *Interp, fr *frame, fn *ssa.Function, args []Value) Value {
			return in.bitsLen(bv(args[0]), w)
		}
	}
	reg("math/bits.Len64 math/bits.Len", lenN(64))
	reg("math/bits.Len32", lenN(32))
	reg("math/bits.Len16", lenN(16))
	reg("math/bits.Len8", lenN(8))
	lz := func(w int) intrinsic {
		return func(in *Interp, fr *frame, fn *ssa.Function, args []Value) Value {
			return in.tb.Sub(ConstBV(64, uint64(w)), in.bitsLen(bv(args[0]), w))
		}
	}
	reg("math/bits.LeadingZeros64 math/bits.LeadingZeros", lz(64))
	reg("math/bits.LeadingZeros32", lz(32))
	reg("math/bits.LeadingZeros16", lz(16))
	reg("math/bits.LeadingZeros8", lz(8))
	tz := func(w int) intrinsic {
		return func(in *Interp, fr *frame, fn *ssa.Function, args []Value) Value {
			x := bv(args[0])
			r := ConstBV(64, uint64(w))
			for i := w - 1; i >= 0; i-- {
				bit := in.tb.Eq(in.tb.Extract(x, i, i), ConstBV(1, 1))
				r = in.tb.Ite(bit, ConstBV(64, uint64(i)), r)
			}
			return r
		}
	}
	reg("math/bits.TrailingZeros64 math/bits.TrailingZeros", tz(64))
	reg("math/bits.TrailingZeros32", tz(32))
	reg("math/bits.TrailingZeros16", tz(16))
	reg("math/bits.TrailingZeros8", tz(8))
	oc := func(w int) intrinsic {
		return func(in *Interp, fr *frame, fn *ssa.Function, args []Value) Value {
			x := bv(args[0])
			r := ConstBV(64, 0)
			for i := 0; i < w; i++ {
				r = in.tb.Add(r, in.tb.Zext(in.tb.Extract(x, i, i), 64))
			}
			return r
		}
	}
	reg("math/bits.OnesCount64 math/bits.OnesCount", oc(64))
	reg("math/bits.OnesCount32", oc(32))
	reg("math/bits.OnesCount16", oc(16))
	reg("math/bits.OnesCount8", oc(8))
	reg("math/bits.Mul64", func(in *Interp, fr *frame, fn *ssa.Function, args []Value) Value {
		x, y := bv(args[0]), bv(args[1])
		if x.IsConst() && y.IsConst() {
			p := new(big.Int).Mul(new(big.Int).SetUint64(x.C), new(big.Int).SetUint64(y.C))
			lo := new(big.Int).And(p, new(big.Int).SetUint64(^uint64(0))).Uint64()
			hi := new(big.Int).Rsh(p, 64).Uint64()
			return tuple(ConstBV(64, hi), ConstBV(64, lo))
		}
		p := in.tb.Mul(in.tb.Zext(x, 128), in.tb.Zext(y, 128))
		return tuple(in.tb.Extract(p, 127, 64), in.tb.Extract(p, 63, 0))
	})
	reg("math/bits.Add64", func(in *Interp, fr *frame, fn *ssa.Function, args []Value) Value {
		x, y, c := bv(args[0]), bv(args[1]), bv(args[2])
		b := in.tb
		sum := b.Add(b.Add(x, y), c)
		// carry = ((x & y) | ((x | y) &^ sum)) >> 63
		carry := b.Lshr(b.BOr(b.BAnd(x, y), b.BAnd(b.BOr(x, y), b.BNot(sum))), ConstBV(64, 63))
		return tuple(sum, carry)
	})
	reg("math/bits.Sub64", func(in *Interp, fr *frame, fn *ssa.Function, args []Value) Value {
		x, y, c := bv(args[0]), bv(args[1]), bv(args[2])
		b := in.tb
		diff := b.Sub(b.Sub(x, y), c)
		// borrow = ((^x & y) | (^(x ^ y) & diff)) >> 63
		borrow := b.Lshr(b.BOr(b.BAnd(b.BNot(x), y), b.BAnd(b.BNot(b.BXor(x, y)), diff)), ConstBV(64, 63))
		return tuple(diff, borrow)
	})

	// ---------------- math (concrete floats) ----------------
	f1 := func(f func(float64) float64) intrinsic {
		return func(in *Interp, fr *frame, fn *ssa.Function, args []Value) Value {
			return FloatV(f(float64(args[0].(FloatV))))
		}
	}
	reg("math.Floor", f1(math.Floor))
	reg("math.Ceil", f1(math.Ceil))
	reg("math.Sqrt", f1(math.Sqrt))
	reg("math.Abs", f1(math.Abs))
	reg("math.Log", f1(math.Log))
	reg("math.Log2", f1(math.Log2))
	reg("math.Trunc", f1(math.Trunc))
	reg("math.Round", f1(math.Round))
	reg("math.Pow10", func(in *Interp, fr *frame, fn *ssa.Function, args []Value) Value {
		n := in.concreteInt(bv(args[0]), "Pow10 exponent")
		return FloatV(math.Pow10(int(n)))
	})
	reg("math.Pow", func(in *Interp, fr *frame, fn *ssa.Function, args []Value) Value {
		return FloatV(math.Pow(float64(args[0].(FloatV)), float64(args[1].(FloatV))))
	})
	reg("math.IsNaN", func(in *Interp, fr *frame, fn *ssa.Function, args []Value) Value {
		return ConstBool(math.IsNaN(float64(args[0].(FloatV))))
	})
	reg("math.IsInf", func(in *Interp, fr *frame, fn *ssa.Function, args []Value) Value {
		return ConstBool(math.IsInf(float64(args[0].(FloatV)), int(bv(args[1]).sval())))
	})
	reg("math.Float64bits", func(in *Interp, fr *frame, fn *ssa.Function, args []Value) Value {
		return ConstBV(64, math.Float64bits(float64(args[0].(FloatV))))
	})
	reg("math.Float64frombits", func(in *Interp, fr *frame, fn *ssa.Function, args []Value) Value {
		t := bv(args[0])
		if !t.IsConst() {
			in.unsupported("Float64frombits(symbolic)")
		}
		return FloatV(math.Float64frombits(t.C))
	})

	// ---------------- hashes as uninterpreted functions ----------------
	reg("crypto/sha256.Sum256", func(in *Interp, fr *frame, fn *ssa.Function, args []Value) Value {
		inb := args[0].(Slice).A
		allConst := true
		bs := make([]byte, len(inb))
		for i, e := range inb {
			t := e.(*Term)
			if !t.IsConst() {
				allConst = false
				break
			}
			bs[i] = byte(t.C)
		}
		out := make(Array, 32)
		if allConst {
			h := sha256.Sum256(bs)
			for i := range out {
				out[i] = ConstBV(8, uint64(h[i]))
			}
			return out
		}
		r := in.ufBytes("sha256", inb, 32)
		copy(out, r)
		return out
	})
	// streaming SHA-256 (crypto/sha256.New: the block function is assembly): the
	// written bytes are kept in a side table keyed by the digest; Sum hashes them
	// concretely when they are all concrete and is the same uninterpreted
	// function as Sum256 otherwise.
	shaBuf := func(in *Interp, recv Value) *[]Value {
		pv := recv.(*Value)
		if in.shaStreams == nil {
			in.shaStreams = map[*Value]*[]Value{}
		}
		b, ok := in.shaStreams[pv]
		if !ok {
			b = new([]Value)
			in.shaStreams[pv] = b
		}
		return b
	}
	reg("(*crypto/internal/fips140/sha256.Digest).Reset", func(in *Interp, fr *frame, fn *ssa.Function, args []Value) Value {
		*shaBuf(in, args[0]) = nil
		return nil
	})
	reg("(*crypto/internal/fips140/sha256.Digest).Write", func(in *Interp, fr *frame, fn *ssa.Function, args []Value) Value {
		b := shaBuf(in, args[0])
		p := args[1].(Slice).A
		*b = append(*b, p...)
		return tuple(ConstBV(64, uint64(len(p))), nilErr())
	})
	reg("(*crypto/internal/fips140/sha256.Digest).Sum", func(in *Interp, fr *frame, fn *ssa.Function, args []Value) Value {
		inb := *shaBuf(in, args[0])
		allConst := true
		bs := make([]byte, len(inb))
		for i, e := range inb {
			t := e.(*Term)
			if !t.IsConst() {
				allConst = false
				break
			}
			bs[i] = byte(t.C)
		}
		var out []Value
		if allConst {
			h := sha256.Sum256(bs)
			for i := range h {
				out = append(out, ConstBV(8, uint64(h[i])))
			}
		} else {
			out = in.ufBytes("sha256", inb, 32)
		}
		prefix := args[1].(Slice).A
		res := append(append([]Value{}, prefix...), out...)
		return Slice{A: res}
	})
	// hex encoding without the table look-up (a symbolic index into the digit
	// string would fork 16 ways per digit): digit = nibble < 10 ? '0'+nibble : 'a'+nibble-10
	hexDigits := func(in *Interp, src []Value) []*Term {
		out := make([]*Term, 0, 2*len(src))
		for _, e := range src {
			t := e.(*Term)
			for _, nib := range []*Term{in.tb.Extract(t, 7, 4), in.tb.Extract(t, 3, 0)} {
				n8 := in.tb.Concat(ConstBV(4, 0), nib)
				lt := in.tb.Ult(n8, ConstBV(8, 10))
				out = append(out, in.tb.Ite(lt, in.tb.Add(n8, ConstBV(8, '0')), in.tb.Add(n8, ConstBV(8, 'a'-10))))
			}
		}
		return out
	}
	reg("encoding/hex.EncodeToString", func(in *Interp, fr *frame, fn *ssa.Function, args []Value) Value {
		src := args[0].(Slice).A
		allConst := true
		bs := make([]byte, len(src))
		for i, e := range src {
			t := e.(*Term)
			if !t.IsConst() {
				allConst = false
				break
			}
			bs[i] = byte(t.C)
		}
		if allConst {
			return mkStr(hex.EncodeToString(bs))
		}
		return &Str{Sym: hexDigits(in, src)}
	})
	// randomness: fixed bytes (listed as a stub; no property here depends on random values)
	fill := func(in *Interp, fr *frame, fn *ssa.Function, args []Value) Value {
		b := args[len(args)-1].(Slice)
		for i := range b.A {
			in.store(&b.A[i], ConstBV(8, uint64(0x42+i)))
		}
		return tuple(ConstBV(64, uint64(len(b.A))), nilErr())
	}
	reg("crypto/rand.Read crypto/internal/sysrand.Read math/rand.Read", fill)
	reg("(crypto/internal/rand.reader).Read (*crypto/internal/rand.reader).Read", fill)
	// neo-go transaction hash (streaming SHA-256 over the encoded transaction):
	// modelled as the zero hash; it feeds logging and nonce seeds only. A replay
	// whose outcome depended on it would not confirm natively.
	reg("(*github.com/nspcc-dev/neo-go/pkg/core/transaction.Transaction).createHash", func(in *Interp, fr *frame, fn *ssa.Function, args []Value) Value {
		return nilErr()
	})
	reg("github.com/google/uuid.New github.com/google/uuid.Must", func(in *Interp, fr *frame, fn *ssa.Function, args []Value) Value {
		if fn.Name() == "Must" {
			return args[0]
		}
		out := make(Array, 16)
		for i := range out {
			out[i] = ConstBV(8, uint64(0x10+i))
		}
		out[6] = ConstBV(8, 0x40)
		return out
	})
	reg("github.com/google/uuid.NewRandom", func(in *Interp, fr *frame, fn *ssa.Function, args []Value) Value {
		out := make(Array, 16)
		for i := range out {
			out[i] = ConstBV(8, uint64(0x10+i))
		}
		out[6] = ConstBV(8, 0x40)
		return tuple(out, nilErr())
	})
	reg("github.com/nspcc-dev/neofs-sdk-go/internal/proto.isMessageNil", func(in *Interp, fr *frame, fn *ssa.Function, args []Value) Value {
		i := args[0].(Iface)
		if i.T == nil {
			return TrueT
		}
		switch v := i.V.(type) {
		case *Value:
			return ConstBool(v == nil)
		case *Map:
			return ConstBool(v == nil)
		case Slice:
			return ConstBool(v.A == nil)
		}
		return FalseT
	})
	// sync.Map modelled by an engine map kept in a side table keyed by the receiver
	smap := func(in *Interp, recv Value) *Map {
		pv := recv.(*Value)
		if in.syncMaps == nil {
			in.syncMaps = map[*Value]*Map{}
		}
		m, ok := in.syncMaps[pv]
		if !ok {
			m = &Map{Index: map[string]int{}}
			in.syncMaps[pv] = m
		}
		return m
	}
	reg("(*sync.Map).Load", func(in *Interp, fr *frame, fn *ssa.Function, args []Value) Value {
		m := smap(in, args[0])
		if i := in.mapFind(m, args[1]); i >= 0 {
			return tuple(m.Vals[i], TrueT)
		}
		return tuple(Iface{}, FalseT)
	})
	reg("(*sync.Map).Store", func(in *Interp, fr *frame, fn *ssa.Function, args []Value) Value {
		in.mapSet(smap(in, args[0]), args[1], args[2])
		return nil
	})
	reg("(*sync.Map).Delete", func(in *Interp, fr *frame, fn *ssa.Function, args []Value) Value {
		in.mapDelete(smap(in, args[0]), args[1])
		return nil
	})
	reg("(*sync.Map).LoadOrStore", func(in *Interp, fr *frame, fn *ssa.Function, args []Value) Value {
		m := smap(in, args[0])
		if i := in.mapFind(m, args[1]); i >= 0 {
			return tuple(m.Vals[i], TrueT)
		}
		in.mapSet(m, args[1], args[2])
		return tuple(args[2], FalseT)
	})
	reg("(*sync.Map).LoadAndDelete", func(in *Interp, fr *frame, fn *ssa.Function, args []Value) Value {
		m := smap(in, args[0])
		if i := in.mapFind(m, args[1]); i >= 0 {
			v := m.Vals[i]
			in.mapDelete(m, args[1])
			return tuple(v, TrueT)
		}
		return tuple(Iface{}, FalseT)
	})
	reg("(*sync.Map).Range", func(in *Interp, fr *frame, fn *ssa.Function, args []Value) Value {
		m := smap(in, args[0])
		keys := append([]Value(nil), m.Keys...)
		vals := append([]Value(nil), m.Vals...)
		for i := range keys {
			r := in.call(fr, args[1], []Value{keys[i], vals[i]}, nil)
			if !in.branch(r.(*Term)) {
				break
			}
		}
		return nil
	})
	// time.NewTicker: a ticker whose channel holds exactly one tick
	reg("time.NewTicker", func(in *Interp, fr *frame, fn *ssa.Function, args []Value) Value {
		tt := fn.Signature.Results().At(0).Type().(*types.Pointer).Elem()
		tv := zero(tt).(Struct)
		st := tt.Underlying().(*types.Struct)
		for i := 0; i < st.NumFields(); i++ {
			if st.Field(i).Name() == "C" {
				et := st.Field(i).Type().Underlying().(*types.Chan).Elem()
				tv[i] = &Chan{Cap: 1, Buf: []Value{zero(et)}}
			}
		}
		var v Value = tv
		return &v
	})
	reg("(*time.Ticker).Stop (*time.Ticker).Reset (*time.Timer).Stop (*time.Timer).Reset", func(in *Interp, fr *frame, fn *ssa.Function, args []Value) Value {
		return resultZero(fn)
	})
	// vrt.UntilBlocked(f): runs f until it returns or would block on a channel operation
	reg(vrtPath+".UntilBlocked", func(in *Interp, fr *frame, fn *ssa.Function, args []Value) (res Value) {
		saved := in.cur
		depth := in.depth
		defer func() {
			if r := recover(); r != nil {
				if ab, ok := r.(*abort); ok && ab.kind == "blocked" {
					in.cur = saved
					in.depth = depth
					res = TrueT
					return
				}
				panic(r)
			}
		}()
		in.call(fr, args[0], nil, nil)
		return FalseT
	})
	reg("maps.clone", func(in *Interp, fr *frame, fn *ssa.Function, args []Value) Value {
		i := args[0].(Iface)
		m, _ := i.V.(*Map)
		if m == nil {
			return i
		}
		nm := &Map{Keys: append([]Value(nil), m.Keys...), Vals: make([]Value, len(m.Vals)), KT: m.KT}
		for k, v := range m.Vals {
			nm.Vals[k] = copyVal(v)
		}
		nm.reindex()
		return Iface{T: i.T, V: nm}
	})
	// hash functions implemented in assembly: concrete inputs get a fixed 64-bit
	// FNV-1a value (only equality/ordering of hashes is ever used), symbolic inputs an uninterpreted function
	reg("github.com/nspcc-dev/hrw/v2.Hash github.com/twmb/murmur3.Sum64", func(in *Interp, fr *frame, fn *ssa.Function, args []Value) Value {
		inb := args[0].(Slice).A
		h := uint64(14695981039346656037)
		for _, e := range inb {
			t := e.(*Term)
			if !t.IsConst() {
				r := in.ufBytes("hash64", inb, 8)
				v := r[0].(*Term)
				for _, x := range r[1:] {
					v = in.tb.Concat(v, x.(*Term))
				}
				return v
			}
			h ^= t.C
			h *= 1099511628211
		}
		return ConstBV(64, h)
	})
	reg("strconv.Itoa", func(in *Interp, fr *frame, fn *ssa.Function, args []Value) Value {
		t := bv(args[0])
		if t.IsConst() {
			return mkStr(strconv.FormatInt(t.sval(), 10))
		}
		return in.callSSA(fn, args, nil, fr)
	})
}

func obsString(v Value) string {
	switch x := v.(type) {
	case *Term:
		if x.IsConst() {
			if x.S.K == KBool {
				return fmt.Sprint(x.C != 0)
			}
			return fmt.Sprint(x.C)
		}
		return "<sym>"
	case *Str:
		if s, ok := x.Concrete(); ok {
			return fmt.Sprintf("%q", s)
		}
		return "<sym>"
	case Slice:
		var sb strings.Builder
		sb.WriteString("[")
		for i, e := range x.A {
			if i > 0 {
				sb.WriteString(" ")
			}
			sb.WriteString(obsString(e))
		}
		sb.WriteString("]")
		return sb.String()
	case Array:
		return obsString(Slice{A: []Value(x)})
	case Iface:
		if x.T == nil {
			return "<nil>"
		}
		return "iface(" + x.T.String() + ")"
	}
	return fmt.Sprintf("<%T>", v)
}

func sliceTerms(s Slice) []*Term {
	ts := make([]*Term, len(s.A))
	for i, e := range s.A {
		ts[i] = e.(*Term)
	}
	return ts
}

func (in *Interp) ufBytes(name string, inb []Value, outLen int) []Value {
	b := in.tb
	var arg *Term
	if len(inb) == 0 {
		arg = ConstBV(8, 0)
	} else {
		arg = inb[0].(*Term)
		for _, e := range inb[1:] {
			arg = b.Concat(arg, e.(*Term))
		}
	}
	fname := fmt.Sprintf("uf_%s_%d_%d", name, len(inb), outLen)
	r := b.UF(fname, BV(outLen*8), arg)
	out := make([]Value, outLen)
	for i := 0; i < outLen; i++ {
		hi := (outLen-i)*8 - 1
		out[i] = b.Extract(r, hi, hi-7)
	}
	return out
}

func (in *Interp) bitsLen(x *Term, w int) *Term {
	if x.S.W > w {
		x = in.tb.Extract(x, w-1, 0)
	}
	r := ConstBV(64, 0)
	for i := 0; i < w; i++ {
		bit := in.tb.Eq(in.tb.Extract(x, i, i), ConstBV(1, 1))
		r = in.tb.Ite(bit, ConstBV(64, uint64(i+1)), r)
	}
	return r
}

func (in *Interp) indexByte(ts []*Term, c *Term) Value {
	for i, t := range ts {
		if in.branch(in.tb.Eq(t, c)) {
			return ConstBV(64, uint64(i))
		}
	}
	return ConstBV(64, ^uint64(0))
}

func (in *Interp) lastIndexByte(ts []*Term, c *Term) Value {
	for i := len(ts) - 1; i >= 0; i-- {
		if in.branch(in.tb.Eq(ts[i], c)) {
			return ConstBV(64, uint64(i))
		}
	}
	return ConstBV(64, ^uint64(0))
}

func (in *Interp) countByte(ts []*Term, c *Term) Value {
	r := ConstBV(64, 0)
	for _, t := range ts {
		r = in.tb.Add(r, in.tb.Ite(in.tb.Eq(t, c), ConstBV(64, 1), ConstBV(64, 0)))
	}
	return r
}

func (in *Interp) indexSeq(hay, needle []*Term) Value {
	n := len(needle)
	if n == 0 {
		return ConstBV(64, 0)
	}
	for i := 0; i+n <= len(hay); i++ {
		if in.branch(in.bytesEqual(hay[i:i+n], needle)) {
			return ConstBV(64, uint64(i))
		}
	}
	return ConstBV(64, ^uint64(0))
}

// ---- fmt ----

func (in *Interp) fmtArg(a Value, verb byte) string {
	i, ok := a.(Iface)
	if !ok {
		return in.fmtPlain(a, verb)
	}
	if i.T == nil {
		return "<nil>"
	}
	if verb != 'T' && verb != 'p' && verb != 'd' && verb != 'x' && verb != 'X' {
		// error / Stringer
		for _, mname := range []string{"Error", "String"} {
			if m := in.findMethod(i.T, nil, mname); m != nil && m.Signature.Params().Len() == 0 && m.Signature.Results().Len() == 1 && isString(m.Signature.Results().At(0).Type()) {
				if _, isPtr := i.V.(*Value); isPtr && isNilPtr(i.V) {
					return "<nil>"
				}
				var out string
				func() {
					defer func() {
						if r := recover(); r != nil {
							if _, isAb := r.(*abort); isAb {
								out = "<" + i.T.String() + ">"
								return
							}
							if _, isGp := r.(*goPanic); isGp {
								out = "<panic in " + mname + ">"
								return
							}
							panic(r)
						}
					}()
					r := in.callFn(in.cur, m, []Value{i.V}, nil, nil)
					if s, ok := r.(*Str); ok {
						if c, ok := s.Concrete(); ok {
							out = c
						} else {
							out = "<sym>"
						}
					}
				}()
				return out
			}
		}
	}
	if verb == 'T' {
		return i.T.String()
	}
	return in.fmtPlain(i.V, verb)
}

func (in *Interp) fmtPlain(v Value, verb byte) string {
	switch x := v.(type) {
	case *Term:
		if !x.IsConst() {
			return "<sym>"
		}
		if x.S.K == KBool {
			return fmt.Sprint(x.C != 0)
		}
		switch verb {
		case 'x':
			return fmt.Sprintf("%x", x.C)
		case 'X':
			return fmt.Sprintf("%X", x.C)
		case 'c':
			return string(rune(x.C))
		}
		return fmt.Sprint(x.sval())
	case *Str:
		if s, ok := x.Concrete(); ok {
			if verb == 'q' {
				return strconv.Quote(s)
			}
			if verb == 'x' {
				return fmt.Sprintf("%x", s)
			}
			return s
		}
		return "<sym>"
	case FloatV:
		return fmt.Sprint(float64(x))
	case Slice:
		parts := make([]string, len(x.A))
		allBytes := len(x.A) > 0
		for i, e := range x.A {
			parts[i] = in.fmtPlain(e, verb)
			if t, ok := e.(*Term); !ok || t.S.W != 8 {
				allBytes = false
			}
		}
		if allBytes && (verb == 'x' || verb == 's') {
			var sb strings.Builder
			for _, e := range x.A {
				t := e.(*Term)
				if !t.IsConst() {
					return "<sym>"
				}
				if verb == 'x' {
					fmt.Fprintf(&sb, "%02x", t.C)
				} else {
					sb.WriteByte(byte(t.C))
				}
			}
			return sb.String()
		}
		return "[" + strings.Join(parts, " ") + "]"
	case Array:
		return in.fmtPlain(Slice{A: []Value(x)}, verb)
	case Struct:
		parts := make([]string, len(x))
		for i, e := range x {
			parts[i] = in.fmtPlain(e, verb)
		}
		return "{" + strings.Join(parts, " ") + "}"
	case *Value:
		if x == nil {
			return "<nil>"
		}
		return "&" + in.fmtPlain(*x, verb)
	case Iface:
		return in.fmtArg(x, verb)
	case nil:
		return "<nil>"
	}
	return fmt.Sprintf("<%T>", v)
}

func (in *Interp) sprintf(format *Str, args []Value) *Str {
	f, ok := format.Concrete()
	if !ok {
		return mkStr("<sym format>")
	}
	var sb strings.Builder
	ai := 0
	for i := 0; i < len(f); i++ {
		if f[i] != '%' {
			sb.WriteByte(f[i])
			continue
		}
		i++
		for i < len(f) && strings.IndexByte("+-# 0123456789.*", f[i]) >= 0 {
			i++
		}
		if i >= len(f) {
			break
		}
		if f[i] == '%' {
			sb.WriteByte('%')
			continue
		}
		if ai < len(args) {
			sb.WriteString(in.fmtArg(args[ai], f[i]))
			ai++
		} else {
			sb.WriteString("%!" + string(f[i]) + "(MISSING)")
		}
	}
	return mkStr(sb.String())
}

func intrErrorf(in *Interp, fr *frame, fn *ssa.Function, args []Value) Value {
	format := args[0].(*Str)
	fargs := args[1].(Slice).A
	msg := in.sprintf(format, fargs)
	f, _ := format.Concrete()
	// collect %w operands
	var wrapped []Iface
	ai := 0
	for i := 0; i < len(f); i++ {
		if f[i] != '%' {
			continue
		}
		i++
		for i < len(f) && strings.IndexByte("+-# 0123456789.*", f[i]) >= 0 {
			i++
		}
		if i >= len(f) {
			break
		}
		if f[i] == '%' {
			continue
		}
		if f[i] == 'w' && ai < len(fargs) {
			if e, ok := fargs[ai].(Iface); ok && e.T != nil {
				wrapped = append(wrapped, e)
			}
		}
		ai++
	}
	fmtPkg := in.prog.ImportedPackage("fmt")
	errPkg := in.prog.ImportedPackage("errors")
	switch len(wrapped) {
	case 0:
		if errPkg != nil {
			if tn := errPkg.Type("errorString"); tn != nil {
				var v Value = Struct{msg}
				return Iface{T: types.NewPointer(tn.Type()), V: &v}
			}
		}
	case 1:
		if fmtPkg != nil {
			if tn := fmtPkg.Type("wrapError"); tn != nil {
				var v Value = Struct{msg, wrapped[0]}
				return Iface{T: types.NewPointer(tn.Type()), V: &v}
			}
		}
	default:
		if fmtPkg != nil {
			if tn := fmtPkg.Type("wrapErrors"); tn != nil {
				es := make([]Value, len(wrapped))
				for i, w := range wrapped {
					es[i] = w
				}
				var v Value = Struct{msg, Slice{A: es}}
				return Iface{T: types.NewPointer(tn.Type()), V: &v}
			}
		}
	}
	in.unsupported("fmt.Errorf: fmt/errors packages not loaded")
	return nil
}

func (in *Interp) errorsIs(err, target Iface, depth int) bool {
	if depth > 64 {
		in.unsupported("errors.Is chain too deep")
	}
	if err.T == nil || target.T == nil {
		return err.T == nil && target.T == nil
	}
	for {
		if types.Identical(err.T, target.T) && types.Comparable(target.T) {
			if in.branch(in.equals(err.T, err.V, target.V)) {
				return true
			}
		}
		if m := in.findMethod(err.T, nil, "Is"); m != nil && m.Signature.Params().Len() == 1 {
			r := in.callFn(in.cur, m, []Value{err.V, target}, nil, nil)
			if in.branch(r.(*Term)) {
				return true
			}
		}
		m := in.findMethod(err.T, nil, "Unwrap")
		if m == nil {
			return false
		}
		r := in.callFn(in.cur, m, []Value{err.V}, nil, nil)
		switch x := r.(type) {
		case Iface:
			if x.T == nil {
				return false
			}
			err = x
		case Slice:
			for _, e := range x.A {
				if ei := e.(Iface); ei.T != nil && in.errorsIs(ei, target, depth+1) {
					return true
				}
			}
			return false
		default:
			return false
		}
	}
}

func (in *Interp) errorsAs(err, target Iface, depth int) bool {
	if target.T == nil {
		in.gopanic("errors: target cannot be nil")
	}
	pt, ok := target.T.Underlying().(*types.Pointer)
	if !ok {
		in.gopanic("errors: target must be a non-nil pointer")
	}
	tt := pt.Elem()
	for err.T != nil {
		if it, isI := tt.Underlying().(*types.Interface); isI {
			if types.Implements(err.T, it) {
				in.storeTo(target.V, err)
				return true
			}
		} else if types.Identical(err.T, tt) {
			in.storeTo(target.V, err.V)
			return true
		}
		if m := in.findMethod(err.T, nil, "As"); m != nil && m.Signature.Params().Len() == 1 {
			r := in.callFn(in.cur, m, []Value{err.V, target}, nil, nil)
			if in.branch(r.(*Term)) {
				return true
			}
		}
		m := in.findMethod(err.T, nil, "Unwrap")
		if m == nil {
			return false
		}
		r := in.callFn(in.cur, m, []Value{err.V}, nil, nil)
		switch x := r.(type) {
		case Iface:
			err = x
		case Slice:
			for _, e := range x.A {
				if ei := e.(Iface); ei.T != nil && in.errorsAs(ei, target, depth+1) {
					return true
				}
			}
			return false
		default:
			return false
		}
	}
	return false
}
