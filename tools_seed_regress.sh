#!/bin/bash
# usage: tools_seed_regress.sh [parallelism]
# Re-runs every recorded seeded change against the check recorded as reporting it
# (seeded/results.json) in scratch worktrees and prints the seeds whose outcome
# differs from the record: expected exit 1 (VIOLATION) for "caught_by" seeds.
P=${1:-3}
cd /verif
python3 - <<'PY' > /var/tmp/seedregress.list
import json
r=json.load(open('/verif/seeded/results.json'))
for s,v in sorted(r.items()):
    if s.startswith('_') or not v.get('caught_by'): continue
    print(s, v['caught_by'])
PY
rm -f /var/tmp/sreg-*.out
cat /var/tmp/seedregress.list | xargs -P $P -L 1 sh -c './tools_seed_run_wt.sh $0 $1 > /var/tmp/sreg-$0.out 2>&1'
echo "== summary"
grep -h SEEDRUN /var/tmp/sreg-*.out | grep -v "exit=1" || echo "all recorded seeds are still reported"
