//go:build verif

package crypto

import (
	"time"

	neofscrypto "github.com/nspcc-dev/neofs-sdk-go/crypto"
	sessionv2 "github.com/nspcc-dev/neofs-sdk-go/session/v2"
	"github.com/nspcc-dev/neofs-sdk-go/user"
)

// VerifHookAuthToken models "the token is correctly signed by its issuer" as a
// verdict over what the caller hands in (signed data, issuer, signature). The
// real functions are renamed to AuthenticateToken__real / AuthenticateTokenV2__real
// and decided by their own entry.
var VerifHookAuthToken func(v2 bool, signed []byte, issuer user.ID, sig neofscrypto.Signature, sigSet bool) error

func AuthenticateToken[T interface {
	SignedData() []byte
	Signature() (neofscrypto.Signature, bool)
	Issuer() user.ID
	Iat() uint64
}](token T, fsChain HistoricN3ScriptRunner) error {
	if h := VerifHookAuthToken; h != nil {
		sig, ok := token.Signature()
		return h(false, token.SignedData(), token.Issuer(), sig, ok)
	}
	return AuthenticateToken__real(token, fsChain)
}

func AuthenticateTokenV2[T interface {
	SignedData() []byte
	Signature() (neofscrypto.Signature, bool)
	Issuer() user.ID
	Iat() time.Time
	Origin() *sessionv2.Token
}](token T, fsChain HistoricN3ScriptRunner) error {
	if h := VerifHookAuthToken; h != nil {
		sig, ok := token.Signature()
		return h(true, token.SignedData(), token.Issuer(), sig, ok)
	}
	return AuthenticateTokenV2__real(token, fsChain)
}
