package eng

import (
	"fmt"
	"math/big"
	"os"
	"sort"
	"strings"
	"sync"
	"time"

	"golang.org/x/tools/go/ssa"
)

// RunConfig holds bounds and options for one harness entry.
type RunConfig struct {
	Unwind        int
	Depth         int
	Steps         int64
	MaxPaths      int
	QueryTimeout  int // ms
	MaxIte        int
	Params        map[string]int
	MapOrder      string // "insertion" | "any"
	GoMode        string // "run" | "skip"
	ChanUnbounded bool
	SkipInit      []string
	Workers       int
	SolverBin     string
	KeepScripts   int // number of assertion scripts kept for cross-solver checks
	Fallback      string // solver used to re-decide assertion queries the primary solver answers unknown
	ExpectReach   []string
	Stubs         map[string]string // real function name -> harness function name
	Havoc         []string          // package path prefixes whose functions return zero values
	TimeBudget    time.Duration

	mu    sync.Mutex
	notes map[string]int
}

func (c *RunConfig) skipInit(path string) bool {
	for _, p := range c.SkipInit {
		if path == p || strings.HasPrefix(path, p+"/") {
			return true
		}
	}
	return false
}

func (c *RunConfig) note(format string, a ...any) {
	c.mu.Lock()
	defer c.mu.Unlock()
	if c.notes == nil {
		c.notes = map[string]int{}
	}
	c.notes[fmt.Sprintf(format, a...)]++
}

func (c *RunConfig) Notes() []string {
	c.mu.Lock()
	defer c.mu.Unlock()
	var out []string
	for k, n := range c.notes {
		out = append(out, fmt.Sprintf("%s (x%d)", k, n))
	}
	sort.Strings(out)
	return out
}

// Decision is one recorded choice on a path.
type Decision struct {
	Taken  bool   // branch taken
	Val    uint64 // concretize candidate / choice value
	Kind   uint8  // 0 branch, 1 concretize, 2 choice
	Forced bool   // other side known infeasible (no sibling)
}

// Draw is one nondeterministic input created through vrt.
type Draw struct {
	Name  string  `json:"n"`
	Kind  string  `json:"k"` // bool u8 u16 u32 u64 i64 int range choice bytes
	Terms []*Term `json:"-"`
	Val   string  `json:"v"` // filled from the model (decimal; bytes: hex)
	Conc  uint64  `json:"-"` // choice value
}

// Path is the state of one execution.
type Path struct {
	prefix   []Decision
	trace    []Decision
	ndec     int
	pcAssert []*Term // conditions asserted (for samples)
	draws    []*Draw
	nameCnt  map[string]int
	reached  map[string]bool
	observes []string
	asserts  int // assertion queries on this path with symbolic condition
	trivial  int
	pending  []*Term // path condition conjuncts not yet sent to solver
	sol      *Solver
	ex       *Explorer
	lastModel map[string]uint64 // last satisfying assignment of the path condition (BV/bool vars)
	modelOK   bool
	lits      map[*Term]bool // literals already on the path condition
}

// Violation is a counterexample candidate.
type Violation struct {
	Entry     string            `json:"entry"`
	Kind      string            `json:"kind"` // assert | panic
	Label     string            `json:"label"`
	Draws     []*Draw           `json:"draws"`
	Decisions int               `json:"decisions"`
	Stack     []string          `json:"stack,omitempty"`
	Model     map[string]string `json:"model,omitempty"`
	PathCond  []string          `json:"path_condition,omitempty"`
	Confirmed string            `json:"confirmed,omitempty"`
	TapePath  string            `json:"tape,omitempty"`
}

type Sample struct {
	Entry    string   `json:"entry"`
	Label    string   `json:"assertion"`
	PathCond []string `json:"path_condition"`
	Negated  string   `json:"negated_assertion"`
	Answer   string   `json:"solver_answer"`
	Draws    []string `json:"inputs"`
}

// Stats aggregated over a run of one entry.
type Stats struct {
	Paths, Completed, Infeasible   int
	Aborts                         map[string]int
	AbortMsgs                      map[string]int
	Decisions                      int
	NontrivialPaths                int
	QFeasSat, QFeasUnsat, QFeasUnk int
	QAssertUnsat, QAssertSat, QAssertUnk int
	QSafety                        int
	TrivialAsserts                 int
	SolverTime                     time.Duration
	SolverQueries                  int
	SolverErrors                   int
	Reached                        map[string]int
	Violations                     []*Violation
	Samples                        []Sample
	Scripts                        []string
	ScriptAnswers                  []Res
	Funcs                          map[string]int64
	Steps                          int64
	Wall                           time.Duration
	Truncated                      bool
	Observes                       [][]string
	LabelsDischarged               map[string]int
	FallbackQueries, FallbackDecided int
}

type Explorer struct {
	prog  *ssa.Program
	cfg   *RunConfig
	entry *ssa.Function
	stubs map[string]*ssa.Function

	mu      sync.Mutex
	queue   [][]Decision
	active  int
	cond    *sync.Cond
	st      Stats
	stop    bool
	vioKeys map[string]bool
}

func NewExplorer(prog *ssa.Program, entry *ssa.Function, cfg *RunConfig, stubs map[string]*ssa.Function) *Explorer {
	e := &Explorer{prog: prog, cfg: cfg, entry: entry, stubs: stubs, vioKeys: map[string]bool{}}
	e.cond = sync.NewCond(&e.mu)
	e.st.Aborts = map[string]int{}
	e.st.AbortMsgs = map[string]int{}
	e.st.Reached = map[string]int{}
	e.st.Funcs = map[string]int64{}
	e.st.LabelsDischarged = map[string]int{}
	return e
}

func (e *Explorer) Run() *Stats {
	t0 := time.Now()
	e.queue = [][]Decision{nil}
	var wg sync.WaitGroup
	nw := e.cfg.Workers
	if nw <= 0 {
		nw = 8
	}
	for w := 0; w < nw; w++ {
		wg.Add(1)
		go func() {
			defer wg.Done()
			e.worker(t0)
		}()
	}
	wg.Wait()
	e.st.Wall = time.Since(t0)
	return &e.st
}

func (e *Explorer) worker(t0 time.Time) {
	sol, err := NewSolver(e.cfg.SolverBin, e.cfg.QueryTimeout, true)
	if err != nil {
		e.mu.Lock()
		e.st.Aborts["solver-start"]++
		e.mu.Unlock()
		return
	}
	defer sol.Close()
	in := NewInterp(e.prog, e.cfg)
	in.stubs = e.stubs
	for {
		e.mu.Lock()
		for len(e.queue) == 0 && e.active > 0 && !e.stop {
			e.cond.Wait()
		}
		if e.stop || (len(e.queue) == 0 && e.active == 0) {
			e.mu.Unlock()
			e.cond.Broadcast()
			break
		}
		prefix := e.queue[len(e.queue)-1]
		e.queue = e.queue[:len(e.queue)-1]
		e.active++
		e.st.Paths++
		if e.st.Paths >= e.cfg.MaxPaths || (e.cfg.TimeBudget > 0 && time.Since(t0) > e.cfg.TimeBudget) {
			e.st.Truncated = true
			e.stop = true
		}
		e.mu.Unlock()

		e.runPath(in, sol, prefix)

		e.mu.Lock()
		e.active--
		e.mu.Unlock()
		e.cond.Broadcast()
	}
	e.mu.Lock()
	e.st.SolverTime += sol.Time
	e.st.SolverQueries += sol.Queries
	e.st.SolverErrors += sol.Errors
	for fn, n := range in.fnsSeen {
		e.st.Funcs[fn.String()] += n
	}
	e.st.Steps += in.steps
	e.mu.Unlock()
}

func (e *Explorer) push(prefix []Decision) {
	e.mu.Lock()
	e.queue = append(e.queue, prefix)
	e.mu.Unlock()
	e.cond.Signal()
}

func (e *Explorer) runPath(in *Interp, sol *Solver, prefix []Decision) {
	sol.Reset()
	in.tb.Reset()
	p := &Path{prefix: prefix, nameCnt: map[string]int{}, reached: map[string]bool{}, sol: sol, ex: e}
	in.P = p
	in.depth = 0
	stepsBefore := in.steps
	in.steps = 0
	in.cur = nil
	outcome := "completed"
	var abmsg string
	func() {
		defer func() {
			r := recover()
			if r == nil {
				return
			}
			switch x := r.(type) {
			case *abort:
				outcome = x.kind
				abmsg = x.msg
			case *goPanic:
				outcome = "panic"
				in.reportPanic(p, x)
			default:
				panic(r)
			}
		}()
		in.callSSA(e.entry, nil, nil, nil)
	}()
	in.undoAll()
	in.undoChans()
	total := in.steps
	in.steps = stepsBefore + total

	e.mu.Lock()
	defer e.mu.Unlock()
	switch outcome {
	case "completed", "panic", "exit":
		e.st.Completed++
	case "infeasible":
		e.st.Infeasible++
	default:
		e.st.Aborts[outcome]++
		if len(e.st.AbortMsgs) < 40 {
			e.st.AbortMsgs[outcome+": "+abmsg]++
		}
	}
	e.st.Decisions += len(p.trace)
	if p.asserts > 0 {
		e.st.NontrivialPaths++
	}
	e.st.TrivialAsserts += p.trivial
	for l := range p.reached {
		e.st.Reached[l]++
	}
	if len(p.observes) > 0 && len(e.st.Observes) < 64 {
		e.st.Observes = append(e.st.Observes, p.observes)
	}
}

func (in *Interp) undoChans() {
	for i := len(in.chanUndo) - 1; i >= 0; i-- {
		u := in.chanUndo[i]
		*u.ch = u.old
	}
	in.chanUndo = in.chanUndo[:0]
}

// ---- path condition handling ----

func (p *Path) flush() {
	for _, t := range p.pending {
		p.sol.Assert(t)
	}
	p.pending = p.pending[:0]
}

func (p *Path) addPC(t *Term) {
	if t.IsTrue() {
		return
	}
	if p.lits == nil {
		p.lits = map[*Term]bool{}
	}
	p.lits[t] = true
	if t.Op == ONot && t.S.K == KBool {
		p.lits[t.A[0]] = false
	}
	p.pending = append(p.pending, t)
	p.pcAssert = append(p.pcAssert, t)
}

func (p *Path) check(extra *Term, model bool) (Res, map[string]*big.Int) {
	p.flush()
	return p.sol.Check(extra, model)
}

func (p *Path) setModel(m map[string]*big.Int) {
	if m == nil {
		p.modelOK = false
		return
	}
	p.lastModel = make(map[string]uint64, len(m))
	for k, v := range m {
		if v.IsUint64() {
			p.lastModel[k] = v.Uint64()
		} else {
			p.lastModel[k] = new(big.Int).And(v, new(big.Int).SetUint64(^uint64(0))).Uint64()
		}
	}
	p.modelOK = true
}

// evalUnderModel evaluates c under the last model if the model is still a
// model of the current path condition. Returns (value, ok).
func (p *Path) evalUnderModel(c *Term) (bool, bool) {
	if !p.modelOK {
		return false, false
	}
	v, ok := c.Eval(p.lastModel, map[*Term]uint64{})
	if !ok {
		return false, false
	}
	return v != 0, true
}

// branch decides a symbolic condition, forking when both sides are feasible.
func (in *Interp) branch(c *Term) bool {
	if c.IsConst() {
		return c.C != 0
	}
	p := in.P
	if p == nil {
		in.unsupported("symbolic branch outside a path (package init?)")
	}
	if v, ok := p.lits[c]; ok {
		return v // already decided on this path (syntactically the same condition)
	}
	b := in.tb
	if p.ndec < len(p.prefix) {
		d := p.prefix[p.ndec]
		p.ndec++
		p.trace = append(p.trace, d)
		if d.Taken {
			p.addPC(c)
		} else {
			p.addPC(b.Not(c))
		}
		return d.Taken
	}
	ex := p.ex
	// model-guided: the side the last model takes is feasible for free
	var resT, resF Res = Unknown, Unknown
	haveT, haveF := false, false
	if v, ok := p.evalUnderModel(c); ok {
		if v {
			resT, haveT = Sat, true
		} else {
			resF, haveF = Sat, true
		}
	}
	if !haveT {
		var m map[string]*big.Int
		resT, m = p.check(c, !haveF)
		ex.countFeas(resT)
		if resT == Sat && !haveF {
			_ = m
		}
		if resT == Unsat && !haveF {
			// path condition is satisfiable, so the other side is
			resF, haveF = Sat, true
		}
		if resT == Sat && m != nil && !p.modelOK {
			p.setModel(m)
		}
	}
	if !haveF {
		var m map[string]*big.Int
		resF, m = p.check(b.Not(c), !p.modelOK)
		ex.countFeas(resF)
		if resF == Sat && m != nil && !p.modelOK {
			p.setModel(m)
		}
	}
	tOK := resT != Unsat
	fOK := resF != Unsat
	switch {
	case tOK && fOK:
		sib := append(append([]Decision(nil), p.trace...), Decision{Taken: false})
		ex.push(sib)
		p.trace = append(p.trace, Decision{Taken: true})
		p.ndec++
		p.addPC(c)
		p.invalidateModelUnless(c, true)
		return true
	case tOK:
		p.trace = append(p.trace, Decision{Taken: true, Forced: true})
		p.ndec++
		p.addPC(c)
		return true
	case fOK:
		p.trace = append(p.trace, Decision{Taken: false, Forced: true})
		p.ndec++
		p.addPC(b.Not(c))
		return false
	}
	in.abortf("infeasible", "both sides infeasible")
	return false
}

// invalidateModelUnless drops the cached model unless it satisfies the newly
// added conjunct.
func (p *Path) invalidateModelUnless(c *Term, want bool) {
	if !p.modelOK {
		return
	}
	v, ok := c.Eval(p.lastModel, map[*Term]uint64{})
	if !ok || (v != 0) != want {
		p.modelOK = false
	}
}

func (e *Explorer) countFeas(r Res) {
	e.mu.Lock()
	switch r {
	case Sat:
		e.st.QFeasSat++
	case Unsat:
		e.st.QFeasUnsat++
	default:
		e.st.QFeasUnk++
	}
	e.mu.Unlock()
}

// concretize picks a feasible concrete value for t, forking over alternatives.
func (in *Interp) concretize(t *Term, what string) uint64 {
	if t.IsConst() {
		return t.C
	}
	p := in.P
	if p == nil {
		in.unsupported("concretize outside a path")
	}
	b := in.tb
	for iter := 0; ; iter++ {
		if iter > in.cfg.Unwind*4+64 {
			in.abortf("unwind", "too many concretisation alternatives for %s", what)
		}
		if p.ndec < len(p.prefix) {
			d := p.prefix[p.ndec]
			p.ndec++
			p.trace = append(p.trace, d)
			eq := b.Eq(t, ConstBV(t.S.W, d.Val))
			if d.Taken {
				p.addPC(eq)
				return d.Val
			}
			p.addPC(b.Not(eq))
			continue
		}
		// ask the solver for a value
		var cand uint64
		got := false
		if p.modelOK {
			if v, ok := t.Eval(p.lastModel, map[*Term]uint64{}); ok {
				cand, got = v, true
			}
		}
		if !got {
			res, m := p.check(nil, true)
			p.ex.countFeas(res)
			if res == Unsat {
				in.abortf("infeasible", "no value for %s", what)
			}
			if res != Sat || m == nil {
				in.abortf("solver-unknown", "cannot concretise %s", what)
			}
			p.setModel(m)
			v, ok := t.Eval(p.lastModel, map[*Term]uint64{})
			if !ok {
				in.abortf("unsupported", "cannot evaluate term for concretisation of %s", what)
			}
			cand = v
		}
		eq := b.Eq(t, ConstBV(t.S.W, cand))
		// is another value possible?
		res, m := p.check(b.Not(eq), true)
		p.ex.countFeas(res)
		if res == Unsat {
			p.trace = append(p.trace, Decision{Taken: true, Val: cand, Kind: 1, Forced: true})
			p.ndec++
			p.addPC(eq)
			return cand
		}
		_ = m
		sib := append(append([]Decision(nil), p.trace...), Decision{Taken: false, Val: cand, Kind: 1})
		p.ex.push(sib)
		p.trace = append(p.trace, Decision{Taken: true, Val: cand, Kind: 1})
		p.ndec++
		p.addPC(eq)
		return cand
	}
}

// choice forks n ways without consulting the solver.
func (in *Interp) choice(name string, n int) int {
	p := in.P
	if n <= 1 {
		return 0
	}
	if p.ndec < len(p.prefix) {
		d := p.prefix[p.ndec]
		p.ndec++
		p.trace = append(p.trace, d)
		return int(d.Val)
	}
	for v := n - 1; v >= 1; v-- {
		sib := append(append([]Decision(nil), p.trace...), Decision{Taken: true, Val: uint64(v), Kind: 2})
		p.ex.push(sib)
	}
	p.trace = append(p.trace, Decision{Taken: true, Val: 0, Kind: 2})
	p.ndec++
	return 0
}

// ---- draws ----

func (in *Interp) newDraw(name, kind string, sorts ...Sort) *Draw {
	p := in.P
	if p == nil {
		in.unsupported("vrt draw outside a path")
	}
	k := p.nameCnt[name]
	p.nameCnt[name] = k + 1
	d := &Draw{Name: name, Kind: kind}
	for i, s := range sorts {
		vn := fmt.Sprintf("%s#%d", name, k)
		if len(sorts) > 1 {
			vn = fmt.Sprintf("%s#%d[%d]", name, k, i)
		}
		d.Terms = append(d.Terms, in.tb.Var(symName(vn), s))
	}
	p.draws = append(p.draws, d)
	return d
}

func (in *Interp) assume(c *Term) {
	if c.IsTrue() {
		return
	}
	if c.IsFalse() {
		in.abortf("infeasible", "assume(false)")
	}
	p := in.P
	if p.ndec >= len(p.prefix) {
		// check satisfiable where placed
		if v, ok := p.evalUnderModel(c); ok && v {
			p.addPC(c)
			return
		}
		res, m := p.check(c, true)
		p.ex.countFeas(res)
		if res == Unsat {
			in.abortf("infeasible", "assumption unsatisfiable")
		}
		if res == Sat {
			p.setModel(m)
		} else {
			p.modelOK = false
		}
	} else {
		p.modelOK = false
	}
	p.addPC(c)
}

func (p *Path) fillDraws(m map[string]*big.Int) []*Draw {
	out := make([]*Draw, len(p.draws))
	for i, d := range p.draws {
		nd := &Draw{Name: d.Name, Kind: d.Kind}
		switch d.Kind {
		case "choice":
			nd.Val = fmt.Sprint(d.Conc)
		case "bytes":
			var sb strings.Builder
			for _, t := range d.Terms {
				v := m[t.Name]
				var b uint64
				if v != nil {
					b = v.Uint64()
				}
				fmt.Fprintf(&sb, "%02x", b&0xff)
			}
			nd.Val = sb.String()
		default:
			v := m[d.Terms[0].Name]
			if v == nil {
				v = new(big.Int)
			}
			nd.Val = v.String()
		}
		out[i] = nd
	}
	return out
}

func (p *Path) pcStrings(limit int) []string {
	var out []string
	for i, t := range p.pcAssert {
		if i >= limit {
			out = append(out, fmt.Sprintf("… (%d more conjuncts)", len(p.pcAssert)-limit))
			break
		}
		out = append(out, t.String())
	}
	return out
}

func (p *Path) drawStrings() []string {
	var out []string
	for _, d := range p.draws {
		out = append(out, d.Kind+" "+d.Name)
	}
	return out
}

// assert discharges the obligation cond on the current path.
func (in *Interp) assert(cond *Term, label string) {
	p := in.P
	ex := p.ex
	if cond.IsTrue() {
		p.trivial++
		return
	}
	p.asserts++
	neg := in.tb.Not(cond)
	var res Res
	var m map[string]*big.Int
	if cond.IsFalse() {
		res, m = p.check(nil, true)
	} else {
		res, m = p.check(neg, true)
	}
	if res == Unknown && ex.cfg.Fallback != "" {
		var script string
		if cond.IsFalse() {
			script = p.sol.Script(nil)
		} else {
			script = p.sol.Script(neg)
		}
		res, m = RunScriptModel(ex.cfg.Fallback, script, p.sol.Vars(), ex.cfg.QueryTimeout*3)
		if d := os.Getenv("GOSE_DUMP_UNKNOWN"); d != "" && res == Unknown {
			os.WriteFile(fmt.Sprintf("%s/unk-%d.smt2", d, time.Now().UnixNano()), []byte(script), 0o644)
		}
		ex.mu.Lock()
		ex.st.FallbackQueries++
		if res != Unknown {
			ex.st.FallbackDecided++
		}
		ex.mu.Unlock()
	}
	ex.mu.Lock()
	switch res {
	case Unsat:
		ex.st.QAssertUnsat++
		ex.st.LabelsDischarged[label]++
	case Sat:
		ex.st.QAssertSat++
	default:
		ex.st.QAssertUnk++
	}
	if len(ex.st.Samples) < 6 && (res == Unsat || res == Sat) && (len(ex.st.Samples) < 3 || ex.st.Paths%7 == 0) {
		ex.st.Samples = append(ex.st.Samples, Sample{Entry: ex.entry.Name(), Label: label, PathCond: p.pcStrings(12), Negated: neg.String(), Answer: res.String(), Draws: p.drawStrings()})
	}
	if ex.cfg.KeepScripts > len(ex.st.Scripts) && (res == Unsat || res == Sat) {
		ex.st.Scripts = append(ex.st.Scripts, p.sol.Script(neg))
		ex.st.ScriptAnswers = append(ex.st.ScriptAnswers, res)
	}
	ex.mu.Unlock()
	switch res {
	case Unsat:
		return
	case Sat:
		v := &Violation{Entry: ex.entry.Name(), Kind: "assert", Label: label, Draws: p.fillDraws(m), Decisions: len(p.trace), PathCond: p.pcStrings(16), Stack: in.stack()}
		ex.addViolation(v)
		// continue under the assumption that the assertion holds (avoid cascades)
		r2, m2 := p.check(cond, true)
		if r2 != Sat {
			in.abortf("exit", "no continuation after violated assertion")
		}
		p.setModel(m2)
		p.addPC(cond)
	default:
		ex.mu.Lock()
		ex.st.Aborts["assert-unknown"]++
		ex.st.AbortMsgs["assert-unknown: "+label]++
		ex.mu.Unlock()
		p.addPC(cond)
		p.modelOK = false
	}
}

func (in *Interp) reportPanic(p *Path, gp *goPanic) {
	res, m := p.check(nil, true)
	if res == Unsat {
		return
	}
	if m == nil {
		m = map[string]*big.Int{}
	}
	v := &Violation{Entry: p.ex.entry.Name(), Kind: "panic", Label: gp.msg, Draws: p.fillDraws(m), Decisions: len(p.trace), PathCond: p.pcStrings(16), Stack: gp.stack}
	p.ex.addViolation(v)
}

func (e *Explorer) addViolation(v *Violation) {
	e.mu.Lock()
	defer e.mu.Unlock()
	key := v.Kind + "|" + v.Label
	n := 0
	for _, o := range e.st.Violations {
		if o.Kind+"|"+o.Label == key {
			n++
		}
	}
	if n >= 4 || len(e.st.Violations) >= 64 {
		return
	}
	e.st.Violations = append(e.st.Violations, v)
}
