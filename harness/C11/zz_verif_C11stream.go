//go:build verif

package fstree

import (
	"io"

	"github.com/nspcc-dev/neofs-node/internal/vrt"
)

// c11stream is the not yet buffered rest of the object file (os.File read
// semantics: a zero-length read returns 0, nil even at the end).
type c11stream struct {
	data   []byte
	pos    int
	closed bool
}

func (s *c11stream) Read(b []byte) (int, error) {
	if len(b) == 0 { // as *os.File does
		return 0, nil
	}
	if s.pos >= len(s.data) {
		return 0, io.EOF
	}
	n := copy(b, s.data[s.pos:])
	s.pos += n
	return n, nil
}

func (s *c11stream) Seek(off int64, whence int) (int64, error) {
	if whence != io.SeekCurrent || off < 0 {
		panic("unexpected seek")
	}
	s.pos += int(off)
	return int64(s.pos), nil
}

func (s *c11stream) Close() error { s.closed = true; return nil }

// VerifC11Stream: shiftPayloadRangeStream for a payload of 0..6 arbitrary
// bytes of which an arbitrary prefix (with the payload field's length varint
// in front) is already buffered and the rest is still in the file stream, for
// every range the resolver can produce (full, or 0 < ln with off+ln within the
// payload): reading the returned stream to the end yields exactly
// payload[off:off+ln].
func VerifC11Stream() {
	l := vrt.Choice("payloadLength", 7)
	payload := vrt.Bytes("payload", l)
	k := vrt.Choice("bufferedPayloadBytes", l+1)
	prefix := append([]byte{byte(l)}, payload[:k]...)
	var stream io.ReadSeekCloser
	st := &c11stream{data: payload[k:]}
	if k < l || vrt.Bool("emptyStreamInsteadOfNone") {
		stream = st
	}
	off := uint64(vrt.IntRange("off", 0, 6))
	ln := uint64(vrt.IntRange("ln", 0, 6))
	if ln == 0 {
		vrt.Assume(off == 0) // full payload
	} else {
		vrt.Assume(off+ln <= uint64(l))
	}
	res, err := shiftPayloadRangeStream(prefix, uint64(l), 0, stream, off, ln)
	vrt.Assert(err == nil && res != nil, "a range inside the payload is served")
	if err != nil || res == nil {
		return
	}
	var got []byte
	buf := make([]byte, 2+vrt.Choice("readBufferSize", 3))
	for i := 0; i < 12; i++ {
		n, rerr := res.Read(buf)
		got = append(got, buf[:n]...)
		if rerr != nil {
			break
		}
	}
	want := payload
	if ln != 0 {
		want = payload[off : off+ln]
	}
	same := len(got) == len(want)
	for i := 0; same && i < len(want); i++ {
		same = got[i] == want[i]
	}
	vrt.Assert(same, "the returned stream yields exactly the requested payload range")
	vrt.Reach("end")
}
