//go:build verif

package getsvc

import (
	"bytes"
	"context"
	"crypto/ecdsa"
	"errors"
	"io"

	"github.com/klauspost/reedsolomon"
	iec "github.com/nspcc-dev/neofs-node/internal/ec"
	"github.com/nspcc-dev/neofs-node/internal/vrt"
	cid "github.com/nspcc-dev/neofs-sdk-go/container/id"
	"github.com/nspcc-dev/neofs-sdk-go/netmap"
	oid "github.com/nspcc-dev/neofs-sdk-go/object/id"
	"go.uber.org/zap"
)

// the EC parts of the object under test and the index of the unavailable one
var c23ec struct {
	parts [][]byte
	lost  int
	reads int
}

// replaced collaborators (rename overlay): a part range stream is a reader over
// the stored part (range 0,0 = the whole part) unless the part is lost; the
// recovery fetch collects the other parts one after another (the real one does
// it with an errgroup; the result is the same set of parts).
func (s *Service) getECPartRangeStream(_ context.Context, _ cid.ID, _ oid.ID, off, ln uint64, _ iec.Rule, _ int, _ []netmap.NodeInfo, partIdx int, _ ecdsa.PrivateKey) (io.ReadCloser, error) {
	c23ec.reads++
	if partIdx == c23ec.lost {
		return nil, errors.New("all nodes failed: part is unavailable")
	}
	p := c23ec.parts[partIdx]
	if off == 0 && ln == 0 {
		return io.NopCloser(bytes.NewReader(p)), nil
	}
	if off+ln > uint64(len(p)) {
		return nil, errors.New("out of range")
	}
	return io.NopCloser(bytes.NewReader(p[off : off+ln])), nil
}

func (s *Service) getRecoveryECPartRanges(ctx context.Context, key ecdsa.PrivateKey, cnr cid.ID, parent oid.ID,
	rule iec.Rule, ruleIdx int, nodes []netmap.NodeInfo, fullPartLen uint64, failedPartIdx int) ([][]byte, error) {
	total := int(rule.DataPartNum + rule.ParityPartNum)
	parts := make([][]byte, total)
	ok := 0
	for i := 0; i < total && ok < int(rule.DataPartNum); i++ {
		if i == failedPartIdx {
			continue
		}
		p, err := s.readFullECPartRange(ctx, cnr, parent, rule, ruleIdx, nodes, i, key, fullPartLen)
		if err != nil {
			continue
		}
		parts[i] = p
		ok++
	}
	if ok < int(rule.DataPartNum) {
		return nil, errors.New("too many parts unavailable")
	}
	return parts, nil
}

type c23chunks struct{ got []byte }

func (c *c23chunks) WriteChunk(b []byte) error { c.got = append(c.got, b...); return nil }

// VerifC23ECRange: a payload of 1..LMAX distinct bytes is encoded by the real
// codec under an EC rule (2+1 or 3+1), at most one part is unavailable, and the
// real range reader (part-by-part streaming with the Reed-Solomon recovery of
// the failed part) serves every range inside the payload, with or without an
// already opened stream of the first part: the chunks written are exactly
// payload[off:off+ln].
func VerifC23ECRange() {
	rule := iec.Rule{DataPartNum: uint8(2 + vrt.Choice("dataParts", 2)), ParityPartNum: 1}
	total := int(rule.DataPartNum + rule.ParityPartNum)
	l := 1 + vrt.Choice("payloadLength", int(vrt.Param("LMAX")))
	payload := make([]byte, l)
	for i := range payload {
		payload[i] = byte(0x11 * (i + 1))
	}
	reedsolomon.VerifNoTable16 = true // the two-byte table is never read for parts this short
	parts, _, err := iec.Encode(rule, payload)
	vrt.Assert(err == nil && len(parts) == total, "encode")
	c23ec.parts, c23ec.reads = parts, 0
	c23ec.lost = vrt.Choice("lostPart", total+1) // total: none
	// every caller resolves the requested range against the payload length
	// first (PayloadRange.Resolve, C11): the length is never zero here
	off := vrt.Choice("off", l)
	ln := 1 + vrt.Choice("ln", l-off)
	var first io.ReadCloser
	if c23ec.lost != 0 && vrt.Bool("firstPartStreamAlreadyOpen") {
		first = io.NopCloser(bytes.NewReader(parts[0]))
	}
	s := &Service{cfg: &cfg{log: zap.NewNop()}}
	var dst c23chunks
	written, err := s.copyECObjectRangeByParts(context.Background(), &dst, ecdsa.PrivateKey{}, cid.ID{}, oid.ID{}, rule, 0, nil, uint64(l), uint64(off), uint64(ln), first)
	want := payload[off : off+ln]
	vrt.Assert(err == nil, "a range inside the payload is served when at most as many parts are lost as there are parity parts")
	if err != nil {
		return
	}
	vrt.Assert(bytes.Equal(dst.got, want), "the bytes written for a range of an erasure-coded object are exactly the requested bytes of the original payload")
	vrt.Assert(written == uint64(len(want)), "the reported number of written bytes is the length of the range")
	if c23ec.lost < total {
		vrt.Reach("ec-one-part-lost")
	} else {
		vrt.Reach("ec-all-parts")
	}
}
