//go:build verif

package client

import (
	"context"

	"github.com/nspcc-dev/neo-go/pkg/core/transaction"
	"github.com/nspcc-dev/neo-go/pkg/encoding/fixedn"
	"github.com/nspcc-dev/neo-go/pkg/util"
)

// Hooks that replace the chain-facing ends of the morph client by recording
// models (RPC, notary actor and key handling are outside the encoder's reach).
// The real methods are renamed to <name>__real. Everything above them
// (StaticClient.Invoke's choice of the call kind, contract wrappers) runs real.
//
// VerifCall describes one chain-mutating call.
type VerifCall struct {
	Kind     string // "notary-alpha", "notary-not-alpha", "invoke", "alphabet-witness", "cosign"
	Contract util.Uint160
	Method   string
	Args     []any
	Tx       *transaction.Transaction
}

var (
	// VerifHookSend receives every chain-mutating call; its result is the call's.
	VerifHookSend func(VerifCall) error
	// VerifHookValidScript models the test execution of a notary main script.
	VerifHookValidScript func(script []byte, signers []transaction.Signer) (bool, error)
)

func (c *Client) NotarySignAndInvokeTX(mainTx *transaction.Transaction, await bool) error {
	if h := VerifHookSend; h != nil {
		return h(VerifCall{Kind: "cosign", Tx: mainTx})
	}
	return c.NotarySignAndInvokeTX__real(mainTx, await)
}

func (c *Client) IsValidScript(script []byte, signers []transaction.Signer) (bool, error) {
	if h := VerifHookValidScript; h != nil {
		return h(script, signers)
	}
	return c.IsValidScript__real(script, signers)
}

func (c *Client) Invoke(ctx context.Context, contract util.Uint160, await, payByProxy bool, fee fixedn.Fixed8, method string, args ...any) error {
	if h := VerifHookSend; h != nil {
		return h(VerifCall{Kind: "invoke", Contract: contract, Method: method, Args: args})
	}
	return c.Invoke__real(ctx, contract, await, payByProxy, fee, method, args...)
}

func (c *Client) NotaryInvoke(ctx context.Context, contract util.Uint160, await bool, fee fixedn.Fixed8, nonce uint32, vub *uint32, method string, args ...any) (util.Uint256, error) {
	if h := VerifHookSend; h != nil {
		return util.Uint256{}, h(VerifCall{Kind: "notary-alpha", Contract: contract, Method: method, Args: args})
	}
	return c.NotaryInvoke__real(ctx, contract, await, fee, nonce, vub, method, args...)
}

func (c *Client) NotaryInvokeNotAlpha(contract util.Uint160, await bool, fee fixedn.Fixed8, method string, args ...any) error {
	if h := VerifHookSend; h != nil {
		return h(VerifCall{Kind: "notary-not-alpha", Contract: contract, Method: method, Args: args})
	}
	return c.NotaryInvokeNotAlpha__real(contract, await, fee, method, args...)
}

func (c *Client) CallWithAlphabetWitness(ctx context.Context, contract util.Uint160, method string, args []any) error {
	if h := VerifHookSend; h != nil {
		return h(VerifCall{Kind: "alphabet-witness", Contract: contract, Method: method, Args: args})
	}
	return c.CallWithAlphabetWitness__real(ctx, contract, method, args)
}

// execWithBackoff: one attempt (retry timing is not the subject).
func (s StaticClient) execWithBackoff(retryingMessage string, invokeFunc func() error) error {
	if VerifHookSend != nil {
		return invokeFunc()
	}
	return s.execWithBackoff__real(retryingMessage, invokeFunc)
}
