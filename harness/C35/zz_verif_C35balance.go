//go:build verif

package balance

import (
	"github.com/nspcc-dev/neo-go/pkg/util"
	"github.com/nspcc-dev/neofs-node/internal/vrt"
	"github.com/nspcc-dev/neofs-node/pkg/morph/client"
	neofscontract "github.com/nspcc-dev/neofs-node/pkg/morph/client/neofs"
	balanceEvent "github.com/nspcc-dev/neofs-node/pkg/morph/event/balance"
	"github.com/nspcc-dev/neofs-node/pkg/util/precision"
	"go.uber.org/zap"
)

type c35alpha struct{ is bool }

func (a c35alpha) IsAlphabet() bool { return a.is }

// VerifC35BalanceLock: the cheque for a balance lock is sent only in alphabet state.
func VerifC35BalanceLock() {
	alpha := vrt.Bool("isAlphabet")
	var calls []client.VerifCall
	client.VerifHookSend = func(c client.VerifCall) error {
		calls = append(calls, c)
		return nil
	}
	client.VerifHookNonceVUB = func() (uint32, uint32, error) { return 1, 100, nil }
	nc, err := neofscontract.NewFromMorph(&client.Client{}, util.Uint160{0x10}, 0, neofscontract.TryNotary(), neofscontract.AsAlphabet())
	if err != nil {
		panic(err)
	}
	bp := &Processor{log: zap.NewNop(), neofsClient: nc, alphabetState: c35alpha{alpha}, converter: precision.NewConverter(12)}
	bp.processLock(new(balanceEvent.Lock))
	if len(calls) > 0 {
		vrt.Assert(alpha, "a non-alphabet node never sends a cheque")
		vrt.Reach("acted")
	} else {
		vrt.Assert(!alpha, "an alphabet node sends the cheque")
		vrt.Reach("silent")
	}
}
