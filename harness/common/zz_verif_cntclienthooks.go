//go:build verif

package container

import "github.com/nspcc-dev/neofs-sdk-go/container"

// VerifHookGet models reading a container from the Container contract. The
// real method is renamed to Get__real.
var VerifHookGet func(id []byte) (container.Container, error)

func (c *Client) Get(id []byte) (container.Container, error) {
	if h := VerifHookGet; h != nil {
		return h(id)
	}
	return c.Get__real(id)
}
