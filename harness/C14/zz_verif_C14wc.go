//go:build verif

package writecache

import (
	"errors"

	"github.com/nspcc-dev/neofs-node/internal/vrt"
	"github.com/nspcc-dev/neofs-node/pkg/local_object_storage/shard/mode"
	oid "github.com/nspcc-dev/neofs-sdk-go/object/id"
	"go.uber.org/zap"
)

var c14wcModes = [...]mode.Mode{mode.ReadWrite, mode.ReadOnly, mode.Degraded, mode.DegradedReadOnly}

// c14openStore models the reopening of the cache's file tree (directory
// creation and file system access are outside the encoder).
var c14opened []bool

func (c *cache) openStore(readOnly bool) error {
	c14opened = append(c14opened, readOnly)
	return nil
}

// VerifC14CacheModes: after every successful mode switch of the write-cache the
// cache is in the requested mode, whatever mode it came from; in a read-only
// mode it refuses puts and removals (its flush workers stay idle exactly while
// it reports a read-only mode).
func VerifC14CacheModes() {
	c := &cache{mode: c14wcModes[vrt.Choice("initialMode", len(c14wcModes))], flushCh: make(chan []oid.Address, 1), flushErrCh: make(chan struct{}, 1), closeCh: make(chan struct{})}
	c.log = zap.NewNop()
	c.metrics = new(metricsWithID)
	c.objCounters.objMap = make(map[oid.Address]uint64)
	c14opened = nil
	for i := 0; i < 2; i++ {
		target := c14wcModes[vrt.Choice("targetMode", len(c14wcModes))]
		from := c.mode
		if target.NoMetabase() && !from.NoMetabase() {
			continue // this switch flushes the cache through its file tree (C16/C17)
		}
		err := c.SetMode(target)
		vrt.Assert(err == nil, "the switch succeeds")
		vrt.Assert(c.mode == target, "after a successful switch the write-cache is in the requested mode")
		if target.ReadOnly() {
			var a oid.Address
			vrt.Assert(errors.Is(c.Put(a, nil, []byte{1}), ErrReadOnly), "a read-only write-cache refuses puts")
			vrt.Assert(errors.Is(c.Delete(a), ErrReadOnly), "a read-only write-cache refuses removals")
		}
		vrt.Reach("switched")
	}
}
