//go:build verif

package engine

import (
	"context"

	"github.com/nspcc-dev/neofs-node/internal/vrt"
	"github.com/nspcc-dev/neofs-node/pkg/local_object_storage/blobstor/common"
	meta "github.com/nspcc-dev/neofs-node/pkg/local_object_storage/metabase"
	"github.com/nspcc-dev/neofs-node/pkg/local_object_storage/shard/mode"
	"github.com/nspcc-dev/neofs-sdk-go/object"
	oid "github.com/nspcc-dev/neofs-sdk-go/object/id"
)

// VerifC19Evacuate: an engine of 2..3 real shards (metabase on the bbolt model,
// map-backed blob storage) holding a regular object, a locked object with its
// lock, and a tombstoned object with its tombstone, each on an arbitrary shard
// (lock and tombstone on every shard, as the engine broadcasts them). One or
// two shards are evacuated, target shards may be read-only or have a failing
// disk. After a successful evacuation every object that was readable from an
// evacuated shard is readable from a remaining one; the sources still hold
// their data; lock and removal status did not change anywhere.
func VerifC19Evacuate() {
	n := 2 + vrt.Choice("shards", 2)
	verifOrderOnce = vrt.Param("HOMES") == 0
	w := vwNew(n, 10)
	regular := w.vwObj(1, object.TypeRegular, -1)
	locked := w.vwObj(2, object.TypeRegular, -1)
	lock := w.vwObj(3, object.TypeLock, 100)
	lock.AssociateLocked(locked.GetID())
	removed := w.vwObj(4, object.TypeRegular, -1)
	ts := w.vwObj(5, object.TypeTombstone, 100)
	ts.AssociateDeleted(removed.GetID())

	put := func(i int, o *object.Object) {
		err := w.shards[i].Put(o, nil)
		vrt.Assume(err == nil)
	}
	home := func(name string) int { return vrt.Choice(name, n) }
	hr, hl, hd := 0, home("shardOfLocked"), 0
	if vrt.Param("HOMES") != 0 { // thorough: every object on every shard; quick: regular and removed object on the first evacuated shard
		hr, hd = home("shardOfRegular"), home("shardOfRemoved")
	}
	put(hr, regular)
	put(hl, locked)
	put(hd, removed)
	// lock and tombstone are broadcast by the engine; a shard that was read-only
	// at that moment does not have them (at least one shard does)
	lockSomewhere := false
	for i := 0; i < n; i++ {
		if i == n-1 && !lockSomewhere || vrt.Bool("lockReachedThisShard") {
			put(i, lock)
			lockSomewhere = true
		}
		put(i, ts)
	}

	// a copy of the regular object on the last shard (never evacuated) that a
	// partially applied engine removal has marked as garbage: still stored there,
	// not served any more, and about to be collected
	if hr != n-1 && vrt.Bool("markedCopyOfRegularOnLastShard") {
		put(n-1, regular)
		err := w.shards[n-1].MarkGarbage(regular.GetContainerID(), []oid.ID{regular.GetID()}, meta.GarbageMarkDefault)
		vrt.Assume(err == nil)
	}

	// what is readable where before evacuation
	objs := []*object.Object{regular, locked, lock, ts, removed}
	before := make([][]bool, n)
	for i := range before {
		for _, o := range objs {
			before[i] = append(before[i], w.vwReadable(i, o.Address()))
		}
	}
	vrt.Assert(before[hr][0] && before[hl][1] && !before[hd][4], "setup: stored objects are readable, the tombstoned one is not")

	// evacuate shard 0 (and maybe shard 1); other shards may be unusable
	src := map[int]bool{0: true}
	ids := []common.ID{w.shards[0].ID()}
	if n == 3 && vrt.Bool("evacuateTwoShards") {
		src[1] = true
		ids = append(ids, w.shards[1].ID())
	}
	for i := 0; i < n; i++ {
		if src[i] {
			w.shards[i].VerifSetModeRaw(mode.ReadOnly)
			continue
		}
		switch vrt.Choice("targetShardState", 3) {
		case 1:
			w.shards[i].VerifSetModeRaw(mode.ReadOnly)
		case 2:
			w.blobs[i].putFails = true
		}
	}
	ignoreErrors := vrt.Bool("ignoreErrors")
	handled := map[oid.Address]bool{}
	var fh func(oid.Address, *object.Object) error
	if vrt.Bool("withFaultHandler") {
		fh = func(a oid.Address, _ *object.Object) error { handled[a] = true; return nil }
	}
	_, err := w.e.Evacuate(context.Background(), ids, ignoreErrors, fh)
	if err != nil {
		vrt.Reach("failed")
	} else {
		for k, o := range objs {
			a := o.Address()
			wasOnSource := false
			for i := range src {
				wasOnSource = wasOnSource || before[i][k]
			}
			if !wasOnSource {
				continue
			}
			onTarget := false
			for i := 0; i < n; i++ {
				if !src[i] && w.vwReadable(i, a) {
					onTarget = true
				}
			}
			vrt.Assert(onTarget || handled[a], "after a successful evacuation every object readable from an evacuated shard is readable from a remaining shard (or was handed to the fault handler)")
		}
		vrt.Reach("evacuated")
	}
	// whatever the outcome: sources keep their data, statuses do not change
	for i := 0; i < n; i++ {
		for k, o := range objs {
			if src[i] && before[i][k] {
				vrt.Assert(w.vwReadable(i, o.Address()), "evacuation does not remove data from the source shards")
			}
		}
		db := w.shards[i].VerifMeta()
		if ok, _ := db.Exists(locked.Address(), true); ok {
			if hasLock, _ := db.Exists(lock.Address(), true); hasLock {
				l, err := db.IsLocked(locked.Address())
				vrt.Assert(err == nil && l, "a locked object stays locked on every shard that holds it together with its lock")
			}
		}
		_, err := w.shards[i].Get(removed.Address(), false)
		vrt.Assert(err != nil, "a removed object does not become readable on any shard")
	}
	_ = meta.ErrEndOfListing
}
