//go:build verif

package netmap

import (
	"errors"
	"math/big"
	"time"

	"github.com/nspcc-dev/neo-go/pkg/core/transaction"
	"github.com/nspcc-dev/neo-go/pkg/crypto/keys"
	"github.com/nspcc-dev/neo-go/pkg/network/payload"
	"github.com/nspcc-dev/neo-go/pkg/util"
	netmaprpc "github.com/nspcc-dev/neofs-contract/rpc/netmap"
	"github.com/nspcc-dev/neofs-node/internal/vrt"
	"github.com/nspcc-dev/neofs-node/pkg/morph/client"
	cntClient "github.com/nspcc-dev/neofs-node/pkg/morph/client/container"
	nmClient "github.com/nspcc-dev/neofs-node/pkg/morph/client/netmap"
	"github.com/nspcc-dev/neofs-node/pkg/morph/event"
	netmapEvent "github.com/nspcc-dev/neofs-node/pkg/morph/event/netmap"
	"github.com/nspcc-dev/neofs-sdk-go/container"
	cid "github.com/nspcc-dev/neofs-sdk-go/container/id"
	"github.com/nspcc-dev/neofs-sdk-go/netmap"
	"go.uber.org/zap"
)

type c35alpha struct{ is bool }

func (a c35alpha) IsAlphabet() bool { return a.is }

type c35epoch struct{ counter, duration uint64 }

func (e *c35epoch) SetEpochCounter(v uint64)     { e.counter = v }
func (e *c35epoch) EpochCounter() uint64         { return e.counter }
func (e *c35epoch) SetEpochDuration(v uint64)    { e.duration = v }
func (e *c35epoch) EpochDuration() time.Duration { return time.Duration(e.duration) }

type c35timer struct{}

func (c35timer) ResetEpochTimer(uint32) error { return nil }

func c35node(k byte) netmap.NodeInfo {
	var n netmap.NodeInfo
	n.SetPublicKey([]byte{2, k})
	n.SetNetworkEndpoints("/ip4/1.2.3.4/tcp/8080")
	n.SetOnline()
	return n
}

// VerifC35NetmapEvents: every netmap processor reaction - new-epoch
// notification (with a changed network map and one container to re-place),
// peer update, new node, epoch tick - run in alphabet and non-alphabet state:
// a non-alphabet node sends nothing that carries alphabet authority.
func VerifC35NetmapEvents() {
	alpha := vrt.Bool("isAlphabet")
	var calls []client.VerifCall
	client.VerifHookSend = func(c client.VerifCall) error {
		calls = append(calls, c)
		return nil
	}
	client.VerifHookValidScript = func([]byte, []transaction.Signer) (bool, error) { return true, nil }
	nmc, err := nmClient.NewFromMorph(&client.Client{}, util.Uint160{0x4e}, nmClient.AsAlphabet())
	if err != nil {
		panic(err)
	}
	cc, err := cntClient.NewFromMorph(&client.Client{}, util.Uint160{0xc0}, cntClient.AsAlphabet())
	if err != nil {
		panic(err)
	}
	var oldMap, newMap netmap.NetMap
	oldMap.SetNodes([]netmap.NodeInfo{c35node(1)})
	if vrt.Bool("networkMapChanged") {
		newMap.SetNodes([]netmap.NodeInfo{c35node(1), c35node(2)})
	} else {
		newMap.SetNodes([]netmap.NodeInfo{c35node(1)})
	}
	nmFails := vrt.Bool("networkMapUnreadable")
	nmClient.VerifHookNetMap = func() (*netmap.NetMap, error) {
		if nmFails {
			return nil, errors.New("RPC failure")
		}
		return &newMap, nil
	}
	id := cid.ID{0x61}
	cntClient.VerifHookList = func() ([]cid.ID, error) { return []cid.ID{id}, nil }
	var cnr container.Container
	cnr.Init()
	var pol netmap.PlacementPolicy
	var rd netmap.ReplicaDescriptor
	rd.SetNumberOfObjects(1)
	pol.SetReplicas([]netmap.ReplicaDescriptor{rd})
	cnr.SetPlacementPolicy(pol)
	cntClient.VerifHookGet = func([]byte) (container.Container, error) { return cnr, nil }

	nop := func(event.Event) {}
	np := &Processor{
		log:                 zap.NewNop(),
		epochTimer:          c35timer{},
		epochState:          &c35epoch{counter: 5},
		alphabetState:       c35alpha{alpha},
		netmapClient:        nmc,
		containerWrp:        cc,
		handleAlphabetSync:  nop,
		handleNotaryDeposit: nop,
		nodeValidator:       c35ok{},
	}
	np.curMap.Store(&oldMap)

	tx := &transaction.Transaction{Script: []byte{1}, Signers: []transaction.Signer{{Account: util.Uint160{1}}}}
	switch vrt.Choice("event", 4) {
	case 0:
		np.processNewEpoch(netmapEvent.VerifNewEpoch(vrt.U64("notifiedEpoch")))
	case 1:
		np.processNewEpochTick()
	case 2:
		np.processUpdatePeer(netmapEvent.VerifNewUpdatePeer(&keys.PublicKey{}, &payload.P2PNotaryRequest{MainTransaction: tx}))
	case 3:
		np.processAddNode(netmapEvent.VerifNewAddNode(c35rpcNode(), &payload.P2PNotaryRequest{MainTransaction: tx}))
	}
	if !alpha {
		for _, c := range calls {
			vrt.Assert(false, "a non-alphabet node sent a transaction carrying alphabet authority: "+c.Kind)
		}
		vrt.Reach("non-alphabet")
	} else if len(calls) > 0 {
		vrt.Reach("alphabet-acted")
	}
}

type c35ok struct{}

func (c35ok) Verify(netmap.NodeInfo) error { return nil }

func c35rpcNode() netmaprpc.NetmapNode2 {
	return netmaprpc.NetmapNode2{
		Addresses:  []string{"/ip4/1.2.3.4/tcp/8080"},
		Attributes: map[string]string{"Price": "1"},
		Key:        &keys.PublicKey{},
		State:      big.NewInt(1),
	}
}
