//go:build verif

package innerring

import (
	"context"
	"errors"
	"math/big"
	"time"

	"github.com/nspcc-dev/neo-go/pkg/crypto/keys"
	"github.com/nspcc-dev/neo-go/pkg/util"
	"github.com/nspcc-dev/neofs-node/internal/vrt"
	"github.com/nspcc-dev/neofs-node/pkg/morph/client"
	"go.uber.org/zap"
)

type c35fetch struct {
	list keys.PublicKeys
	err  bool
}

func (f c35fetch) InnerRingKeys() (keys.PublicKeys, error) {
	if f.err {
		return nil, errors.New("RPC failure")
	}
	return f.list, nil
}

func (f c35fetch) Committee() (keys.PublicKeys, error) {
	if f.err {
		return nil, errors.New("RPC failure")
	}
	return f.list, nil
}

func c35key(n int64) *keys.PublicKey {
	return &keys.PublicKey{X: big.NewInt(n), Y: big.NewInt(2)}
}

// VerifC35StartupVote: the validator vote at startup (and on alphabet sync)
// sends vote invocations of the alphabet contracts only from a node whose
// index is inside the alphabet range [0, number of alphabet contracts); a node
// that is not in the list (index -1), or whose index lookup fails, sends none.
func VerifC35StartupVote() {
	nContracts := 1 + vrt.Choice("alphabetContracts", 3)
	nIR := vrt.Choice("innerRingSize", 5)
	pos := vrt.Choice("ownKeyPosition", 6) // >= nIR: not in the list
	lookupFails := vrt.Bool("indexLookupFails")
	var ir keys.PublicKeys
	for i := 0; i < nIR; i++ {
		ir = append(ir, c35key(int64(10+i)))
	}
	own := c35key(int64(10 + pos))
	var calls []client.VerifCall
	client.VerifHookSend = func(c client.VerifCall) error {
		calls = append(calls, c)
		return nil
	}
	client.VerifHookAccountVote = func(util.Uint160) (*keys.PublicKey, error) { return nil, nil }
	client.VerifHookNonceVUB = func() (uint32, uint32, error) { return 1, 100, nil }
	s := &Server{
		log:           zap.NewNop(),
		fsChainClient: &client.Client{},
		contracts:     new(contracts),
		statusIndex:   newInnerRingIndexer(c35fetch{ir, lookupFails}, c35fetch{ir, lookupFails}, own, time.Second),
	}
	for i := 0; i < nContracts; i++ {
		s.contracts.alphabet = append(s.contracts.alphabet, util.Uint160{byte(0xa0 + i)})
	}
	s.epochCounter.Store(vrt.U64("epoch"))
	validators := keys.PublicKeys{c35key(77)}
	vrt.Observe("ownBytes", own.Bytes())
	vrt.Observe("irIndex", s.InnerRingIndex())
	err := s.voteForFSChainValidator(context.Background(), validators, nil)
	_ = err
	member := !lookupFails && pos < nIR && pos < nContracts
	if len(calls) > 0 {
		vrt.Assert(member, "validator votes are sent only by a node whose index is inside the alphabet range")
		vrt.Assert(len(calls) == nContracts, "one vote per alphabet contract")
		vrt.Reach("voted")
	} else {
		vrt.Assert(!member, "an alphabet member votes for the configured validators")
		vrt.Reach("silent")
	}
}

type c35fetch2 struct {
	list  keys.PublicKeys
	calls *int
	fail  func(call int) bool
}

func (f c35fetch2) get() (keys.PublicKeys, error) {
	*f.calls++
	if f.fail(*f.calls) {
		return nil, errors.New("RPC failure")
	}
	return f.list, nil
}
func (f c35fetch2) InnerRingKeys() (keys.PublicKeys, error) { return f.get() }
func (f c35fetch2) Committee() (keys.PublicKeys, error)     { return f.get() }

// VerifC35Indexer: the inner ring indexer over two consecutive lookups (inside
// the cache timeout) where the inner ring fetch and the committee fetch may
// each fail at each lookup: whenever AlphabetIndex / InnerRingIndex answer
// without error, the answer is the node's true position in the list (-1 when
// absent) - a failed refresh never leaves a stale or zero index to be served
// as fresh; Server.IsAlphabet follows.
func VerifC35Indexer() {
	nAlpha := 1 + vrt.Choice("alphabetSize", 3)
	pos := vrt.Choice("ownKeyPosition", 5) // >= size: not a member
	var alpha, ir keys.PublicKeys
	for i := 0; i < nAlpha; i++ {
		alpha = append(alpha, c35key(int64(10+i)))
	}
	irPos := vrt.Choice("ownInnerRingPosition", 3)
	for i := 0; i < 2; i++ {
		ir = append(ir, c35key(int64(30+i)))
	}
	own := c35key(int64(10 + pos))
	if irPos < 2 {
		ir[irPos] = own
	}
	var irCalls, comCalls int
	irFail1, irFail2 := vrt.Bool("innerRingFetchFailsAtFirstLookup"), vrt.Bool("innerRingFetchFailsAtSecondLookup")
	comFail1, comFail2 := vrt.Bool("committeeFetchFailsAtFirstLookup"), vrt.Bool("committeeFetchFailsAtSecondLookup")
	idx := newInnerRingIndexer(
		c35fetch2{alpha, &comCalls, func(c int) bool { return c == 1 && comFail1 || c == 2 && comFail2 }},
		c35fetch2{ir, &irCalls, func(c int) bool { return c == 1 && irFail1 || c == 2 && irFail2 }},
		own, time.Hour)
	wantAlpha := int32(-1)
	if pos < nAlpha {
		wantAlpha = int32(pos)
	}
	wantIR := int32(-1)
	if irPos < 2 {
		wantIR = int32(irPos)
	}
	s := &Server{log: zap.NewNop(), statusIndex: idx}
	for look := 0; look < 2; look++ {
		a, err := idx.AlphabetIndex()
		if err == nil {
			vrt.Assert(a == wantAlpha, "an alphabet index answered without error is the node's true position in the committee")
		}
		r, err := idx.InnerRingIndex()
		if err == nil {
			vrt.Assert(r == wantIR, "an inner ring index answered without error is the node's true position in the list")
		}
		if s.IsAlphabet() {
			vrt.Assert(wantAlpha >= 0, "a node outside the committee never considers itself an alphabet member")
			vrt.Reach("member")
		}
	}
	vrt.Reach("end")
}
