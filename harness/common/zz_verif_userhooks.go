//go:build verif

package user

import "crypto/ecdsa"

// VerifHookFromKey models the derivation of a user ID from a public key (script
// hash of the verification script: hashing and curve arithmetic are outside the
// encoder's reach). The real function is renamed to NewFromECDSAPublicKey__real.
var VerifHookFromKey func(pub ecdsa.PublicKey) ID

func NewFromECDSAPublicKey(pub ecdsa.PublicKey) ID {
	if h := VerifHookFromKey; h != nil {
		return h(pub)
	}
	return NewFromECDSAPublicKey__real(pub)
}
