//go:build verif

package container

import (
	"crypto/ecdsa"
	"crypto/sha256"
	"errors"
	"math/big"
	"time"

	"github.com/nspcc-dev/neo-go/pkg/core/transaction"
	"github.com/nspcc-dev/neo-go/pkg/util"
	icrypto "github.com/nspcc-dev/neofs-node/internal/crypto"
	"github.com/nspcc-dev/neofs-node/internal/vrt"
	"github.com/nspcc-dev/neofs-node/pkg/morph/client"
	cntClient "github.com/nspcc-dev/neofs-node/pkg/morph/client/container"
	fschaincontracts "github.com/nspcc-dev/neofs-node/pkg/morph/contracts"
	containerEvent "github.com/nspcc-dev/neofs-node/pkg/morph/event/container"
	sdkclient "github.com/nspcc-dev/neofs-sdk-go/client"
	"github.com/nspcc-dev/neofs-sdk-go/container"
	"github.com/nspcc-dev/neofs-sdk-go/container/acl"
	cid "github.com/nspcc-dev/neofs-sdk-go/container/id"
	neofscrypto "github.com/nspcc-dev/neofs-sdk-go/crypto"
	neofsecdsa "github.com/nspcc-dev/neofs-sdk-go/crypto/ecdsa"
	"github.com/nspcc-dev/neofs-sdk-go/eacl"
	"github.com/nspcc-dev/neofs-sdk-go/netmap"
	"github.com/nspcc-dev/neofs-sdk-go/proto/refs"
	protosession "github.com/nspcc-dev/neofs-sdk-go/proto/session"
	"github.com/nspcc-dev/neofs-sdk-go/session"
	sessionv2 "github.com/nspcc-dev/neofs-sdk-go/session/v2"
	"github.com/nspcc-dev/neofs-sdk-go/user"
	"go.uber.org/zap"
)

type c37alpha struct{ is bool }

func (a c37alpha) IsAlphabet() bool { return a.is }

type c37net struct {
	epoch    uint64
	epochErr bool
}

func (n *c37net) Epoch() (uint64, error) {
	if n.epochErr {
		return 0, errors.New("epoch is unknown")
	}
	return n.epoch, nil
}
func (n *c37net) NetMap() (*netmap.NetMap, error)            { return nil, errors.New("no network map") }
func (n *c37net) GetEpochBlock(uint64) (uint32, error)       { return 77, nil }
func (n *c37net) GetEpochBlockByTime(uint32) (uint32, error) { return 78, nil }

type c37clock struct{ t time.Time }

func (c c37clock) Now() time.Time { return c.t }

func c37usr(n byte) user.ID { return user.NewFromScriptHash(util.Uint160{n}) }

func c37eq(a, b []byte) bool {
	if len(a) != len(b) {
		return false
	}
	for i := range a {
		if a[i] != b[i] {
			return false
		}
	}
	return true
}

// c37env is the model world: who is the container owner, what the primitives
// answer, and what was sent to the chain.
// c37anyState lets the C35 harness run the same requests in non-alphabet state.
var c37anyState bool

type c37env struct {
	alpha bool
	cp    *Processor
	calls []client.VerifCall
	net   *c37net
	nowS  int64 // chain time, rounded seconds

	// direct witness
	sigCalls []c37sig
	n3Calls  []c37n3
	// tokens
	tokAuth []c37tokAuth
	// session key signature over request data
	skCalls []c37sk
}

type c37sig struct {
	scheme, key int
	data, sig   []byte
	ok          bool
}
type c37n3 struct {
	acc          util.Uint160
	invoc, verif []byte
	hash         [32]byte
	ok           bool
}
type c37tokAuth struct {
	v2     bool
	issuer user.ID
	ok     bool
}
type c37sk struct {
	key, sig, data []byte
	ok             bool
}

const c37base = 1_700_000_000

func c37setup() *c37env {
	e := new(c37env)
	c37installCodec()
	alpha := vrt.Bool("isAlphabet")
	e.net = &c37net{epoch: vrt.U64("currentEpoch"), epochErr: vrt.Bool("epochUnknown")}
	e.nowS = int64(c37base + vrt.IntRange("nowOffset", 0, 7))
	now := time.Unix(e.nowS, 0)
	if vrt.Bool("nowPlusHalfSecond") {
		now = time.Unix(e.nowS, 500_000_000)
		e.nowS++
	}
	client.VerifHookSend = func(c client.VerifCall) error {
		e.calls = append(e.calls, c)
		return nil
	}
	icrypto.VerifHookDecodeKey = func(b []byte) (*ecdsa.PublicKey, error) {
		if len(b) != 1 || b[0] < 1 || b[0] > 3 {
			return nil, errors.New("undecodable key")
		}
		return &ecdsa.PublicKey{X: big.NewInt(int64(b[0]))}, nil
	}
	neofsecdsa.VerifHookVerifyKey = func(scheme int, pub ecdsa.PublicKey, data, sig []byte) bool {
		v := vrt.Bool("ownerSignatureVerifies")
		e.sigCalls = append(e.sigCalls, c37sig{scheme, int(pub.X.Int64()), data, sig, v})
		return v
	}
	user.VerifHookFromKey = func(pub ecdsa.PublicKey) user.ID { return c37usr(byte(pub.X.Int64())) }
	icrypto.VerifHookN3 = func(height uint32, acc util.Uint160, invoc, verif []byte, h [sha256.Size]byte) error {
		v := vrt.Bool("ownerWitnessVerifies")
		e.n3Calls = append(e.n3Calls, c37n3{acc, invoc, verif, h, v})
		if !v {
			return errors.New("witness mismatch")
		}
		return nil
	}
	icrypto.VerifHookAuthToken = func(v2 bool, signed []byte, issuer user.ID, sig neofscrypto.Signature, sigSet bool) error {
		v := vrt.Bool("tokenCorrectlySignedByIssuer")
		e.tokAuth = append(e.tokAuth, c37tokAuth{v2, issuer, v})
		if !v {
			return errors.New("signature mismatch")
		}
		return nil
	}
	neofscrypto.VerifHookVerify = func(x neofscrypto.Signature, data []byte) bool {
		v := vrt.Bool("sessionKeySignatureVerifies")
		e.skCalls = append(e.skCalls, c37sk{x.PublicKeyBytes(), x.Value(), data, v})
		return v
	}
	cc, err := cntClient.NewFromMorph(&client.Client{}, util.Uint160{0xc0}, cntClient.AsAlphabet())
	if err != nil {
		panic(err)
	}
	e.cp = VerifNewProcessor(&Params{
		Log:             zap.NewNop(),
		AlphabetState:   c37alpha{alpha},
		ContainerClient: cc,
		NetworkState:    e.net,
		ChainTime:       c37clock{now},
		MetaEnabled:     vrt.Bool("metaEnabled"),
		AllowEC:         vrt.Bool("ecAllowed"),
	})
	e.alpha = alpha
	if !c37anyState {
		vrt.Assume(alpha) // the membership guard itself is C35's subject
	}
	return e
}

// c37authz describes how a request is authorised and computes, from the
// recorded primitive answers, whether the container owner (user #1) really
// authorised it.
type c37authz struct {
	mode int // 0 direct witness, 1 V1 session token, 2 V2 session token

	// direct
	verif []byte
	invoc []byte

	// V1
	v1verb   session.ContainerVerb
	v1cnr    int // 0 any, 1 this container, 2 another
	v1issuer byte
	v1nbf    uint64
	v1iat    uint64
	v1exp    uint64

	// V2
	v2verb   sessionv2.Verb
	v2cnr    int // 0 wildcard, 1 this, 2 another
	v2issuer byte
	v2iat    int64
	v2nbf    int64
	v2exp    int64

	token []byte
}

var c37sessionKey = []byte{7, 7}

// c37codec is the model codec: byte strings produced by Marshal in this
// harness decode back to their values; anything else fails to decode.
type c37codec struct {
	v2   map[string]sessionv2.Token
	v1   map[string]session.Container
	cnr  map[string]container.Container
	eacl map[string]eacl.Table
}

var c37reg *c37codec

func c37installCodec() {
	c37reg = &c37codec{map[string]sessionv2.Token{}, map[string]session.Container{}, map[string]container.Container{}, map[string]eacl.Table{}}
	sessionv2.VerifHookUnmarshal = func(x *sessionv2.Token, data []byte) error {
		t, ok := c37reg.v2[string(data)]
		if !ok {
			return errors.New("not a V2 session token")
		}
		t.CopyTo(x)
		return nil
	}
	session.VerifHookUnmarshalContainer = func(x *session.Container, data []byte) error {
		t, ok := c37reg.v1[string(data)]
		if !ok {
			return errors.New("not a V1 container session token")
		}
		t.CopyTo(x)
		return nil
	}
	container.VerifHookUnmarshal = func(x *container.Container, data []byte) error {
		c, ok := c37reg.cnr[string(data)]
		if !ok {
			return errors.New("not a container")
		}
		c.CopyTo(x)
		return nil
	}
	eacl.VerifHookUnmarshalTable = func(x *eacl.Table, data []byte) error {
		t, ok := c37reg.eacl[string(data)]
		if !ok {
			return errors.New("not an eACL table")
		}
		t.CopyTo(x)
		return nil
	}
}

func c37draw(thisCnr cid.ID) *c37authz {
	a := &c37authz{mode: vrt.Choice("authorisation", 3)}
	a.invoc = []byte{0xEE}
	switch a.mode {
	case 0:
		a.verif = []byte{byte(vrt.Choice("witnessKey", 3))} // 0: not a key (N3 witness), k: key of user #k
	case 1:
		a.verif = []byte{2}
		a.v1verb = session.ContainerVerb(vrt.Choice("tokenVerb", 7))
		a.v1cnr = vrt.Choice("tokenContainer", 3)
		a.v1issuer = byte(1 + vrt.Choice("tokenIssuer", 2))
		a.v1nbf, a.v1iat, a.v1exp = 10, 12, 20
		if vrt.Bool("issuedBeforeNbf") {
			a.v1nbf, a.v1iat = 12, 10
		}
		ctx := &protosession.ContainerSessionContext{Verb: protosession.ContainerSessionContext_Verb(a.v1verb)}
		switch a.v1cnr {
		case 0:
			ctx.Wildcard = true
		case 1:
			ctx.ContainerId = &refs.ContainerID{Value: thisCnr[:]}
		default:
			other := cid.ID{0xAB}
			ctx.ContainerId = &refs.ContainerID{Value: other[:]}
		}
		iss := c37usr(a.v1issuer)
		m := &protosession.SessionToken{
			Body: &protosession.SessionToken_Body{
				Id:         []byte{1, 2, 3, 4, 5, 6, 0x47, 8, 0x89, 10, 11, 12, 13, 14, 15, 16},
				OwnerId:    &refs.OwnerID{Value: iss[:]},
				Lifetime:   &protosession.SessionToken_Body_TokenLifetime{Exp: a.v1exp, Nbf: a.v1nbf, Iat: a.v1iat},
				SessionKey: c37sessionKey,
				Context:    &protosession.SessionToken_Body_Container{Container: ctx},
			},
			Signature: &refs.Signature{Key: []byte{2, 1}, Sign: []byte{9}, Scheme: refs.SignatureScheme_ECDSA_RFC6979_SHA256},
		}
		a.token = make([]byte, m.MarshaledSize())
		m.MarshalStable(a.token)
		var tok session.Container
		if err := tok.FromProtoMessage(m); err != nil {
			panic(err)
		}
		c37reg.v1[string(a.token)] = tok
	case 2:
		a.verif = []byte{2}
		a.v2verb = []sessionv2.Verb{sessionv2.VerbContainerPut, sessionv2.VerbContainerDelete, sessionv2.VerbContainerSetEACL, sessionv2.VerbContainerSetAttribute, sessionv2.VerbContainerRemoveAttribute, sessionv2.VerbObjectGet}[vrt.Choice("tokenVerb", 6)]
		a.v2cnr = vrt.Choice("tokenContainer", 3)
		a.v2issuer = byte(1 + vrt.Choice("tokenIssuer", 2))
		a.v2iat, a.v2nbf, a.v2exp = c37base+2, c37base+3, c37base+5
		var t sessionv2.Token
		t.SetVersion(sessionv2.TokenCurrentVersion)
		t.SetIssuer(c37usr(a.v2issuer))
		_ = t.SetSubjects([]sessionv2.Target{sessionv2.NewTargetUser(c37usr(3))})
		var c cid.ID
		switch a.v2cnr {
		case 1:
			c = thisCnr
		case 2:
			c = cid.ID{0xAB}
		}
		cx, err := sessionv2.NewContext(c, []sessionv2.Verb{a.v2verb})
		if err != nil {
			panic(err)
		}
		_ = t.SetContexts([]sessionv2.Context{cx})
		t.SetIat(time.Unix(a.v2iat, 0))
		t.SetNbf(time.Unix(a.v2nbf, 0))
		t.SetExp(time.Unix(a.v2exp, 0))
		t.AttachSignature(neofscrypto.NewSignatureFromRawKey(neofscrypto.ECDSA_DETERMINISTIC_SHA256, []byte{2, 1}, []byte{9}))
		a.token = t.Marshal()
		c37reg.v2[string(a.token)] = t
	}
	return a
}

// authorised decides whether the container owner (user #owner) authorised the
// operation (verb, on container cnrSet/…) over signedData.
func (a *c37authz) authorised(e *c37env, owner byte, verb session.ContainerVerb, verbV2 sessionv2.Verb, hasCnr bool, signedData []byte) bool {
	switch a.mode {
	case 0:
		if a.verif[0] == 0 {
			for _, c := range e.n3Calls {
				if c.ok && c.acc == c37usr(owner).ScriptHash() && c37eq(c.invoc, a.invoc) && c37eq(c.verif, a.verif) && c.hash == sha256.Sum256(signedData) {
					return true
				}
			}
			return false
		}
		if a.verif[0] != owner {
			return false
		}
		for _, c := range e.sigCalls {
			if c.ok && c.scheme == 1 && c.key == int(owner) && c37eq(c.data, signedData) && c37eq(c.sig, a.invoc) {
				return true
			}
		}
		return false
	case 1:
		tokOK := false
		for _, c := range e.tokAuth {
			if c.ok && !c.v2 && c.issuer == c37usr(a.v1issuer) {
				tokOK = true
			}
		}
		skOK := false
		for _, c := range e.skCalls {
			if c.ok && c37eq(c.key, c37sessionKey) && c37eq(c.sig, a.invoc) && c37eq(c.data, signedData) {
				skOK = true
			}
		}
		return tokOK && skOK && a.v1issuer == owner && a.v1verb == verb &&
			(!hasCnr || a.v1cnr != 2) &&
			!e.net.epochErr && a.v1nbf <= e.net.epoch && a.v1iat <= e.net.epoch && e.net.epoch <= a.v1exp
	default:
		tokOK := false
		for _, c := range e.tokAuth {
			if c.ok && c.v2 && c.issuer == c37usr(a.v2issuer) {
				tokOK = true
			}
		}
		// the token must carry the verb: for this container (or any), or - for
		// creation, where no container exists yet - in a context for any container
		cnrOK := a.v2cnr == 0 || (hasCnr && a.v2cnr == 1)
		return tokOK && a.v2issuer == owner && a.v2verb == verbV2 && cnrOK &&
			a.v2iat <= e.nowS && a.v2nbf <= e.nowS && e.nowS <= a.v2exp
	}
}

func c37container(owner byte, extendable bool) container.Container {
	var c container.Container
	c.Init()
	c.SetOwner(c37usr(owner))
	if extendable {
		c.SetBasicACL(acl.PublicRWExtended)
	} else {
		c.SetBasicACL(acl.PublicRW)
	}
	var p netmap.PlacementPolicy
	p.SetReplicas([]netmap.ReplicaDescriptor{c37rep(1)})
	c.SetPlacementPolicy(p)
	return c
}

func c37rep(n uint32) netmap.ReplicaDescriptor {
	var r netmap.ReplicaDescriptor
	r.SetNumberOfObjects(n)
	return r
}

var c37tx = transaction.Transaction{Script: []byte{0x11}, Nonce: 5}

func (e *c37env) approved() bool {
	if len(e.calls) == 0 {
		return false
	}
	vrt.Assert(e.calls[0].Kind == "cosign" && e.calls[0].Tx != nil && len(e.calls[0].Tx.Script) == 1 && e.calls[0].Tx.Script[0] == 0x11, "what is co-signed is the request's main transaction")
	for _, c := range e.calls[1:] {
		vrt.Assert(c.Kind != "cosign", "a request is co-signed at most once")
	}
	return true
}

// VerifC37Delete: removal of an existing container of user #1 (or of user #2:
// then nothing user #1 signs may authorise it).
func VerifC37Delete() {
	e := c37setup()
	id := cid.ID{0x51}
	owner := byte(1 + vrt.Choice("containerOwner", 2))
	getFails := vrt.Bool("containerUnknown")
	cntClient.VerifHookGet = func(b []byte) (container.Container, error) {
		if getFails || !c37eq(b, id[:]) {
			return container.Container{}, errors.New("container not found")
		}
		return c37container(owner, true), nil
	}
	a := c37draw(id)
	req := containerEvent.RemoveContainerRequest{MainTransaction: c37tx, RemoveContainerParams: fschaincontracts.RemoveContainerParams{
		ID: id[:], InvocationScript: a.invoc, VerificationScript: a.verif, SessionToken: a.token}}
	e.cp.processContainerDelete(req)
	if e.approved() {
		vrt.Assert(!getFails && a.authorised(e, owner, session.VerbContainerDelete, sessionv2.VerbContainerDelete, true, id[:]), "container removal is approved only if its owner authorised it")
		vrt.Reach("approved")
	} else {
		vrt.Assert(getFails || !a.authorised(e, owner, session.VerbContainerDelete, sessionv2.VerbContainerDelete, true, id[:]), "a removal authorised by the owner is approved")
		vrt.Reach("refused")
	}
}

// VerifC37Put: creation of a container owned by user #1, with attribute and
// policy variants.
func VerifC37Put() {
	e := c37setup()
	cnr := c37container(1, true)
	attr := vrt.Choice("attributes", 7)
	switch attr {
	case 1:
		cnr.SetAttribute("__NEOFS__NAME", "n")
	case 2:
		cnr.SetAttribute("__NEOFS__SOMETHING", "x")
	case 3:
		cnr.SetAttribute("__NEOFS__METAINFO_CONSISTENCY", "strict")
	case 4:
		cnr.SetAttribute("user-attribute", "__NEOFS__NAME")
	case 5: // a forbidden system attribute after a permitted one
		cnr.SetAttribute("__NEOFS__METAINFO_CONSISTENCY", "strict")
		cnr.SetAttribute("__NEOFS__SOMETHING", "x")
	case 6: // ... and before it
		cnr.SetAttribute("__NEOFS__SOMETHING", "x")
		cnr.SetAttribute("__NEOFS__NAME", "n")
	}
	pol := vrt.Choice("policy", 4)
	var p netmap.PlacementPolicy
	switch pol {
	case 0:
		p.SetReplicas([]netmap.ReplicaDescriptor{c37rep(2)})
	case 1:
		p.SetReplicas([]netmap.ReplicaDescriptor{c37rep(200)}) // invalid: too many replicas
	case 2:
		p.SetECRules([]netmap.ECRule{netmap.NewECRule(2, 1)})
	case 3:
		p.SetReplicas([]netmap.ReplicaDescriptor{c37rep(1)})
		p.SetECRules([]netmap.ECRule{netmap.NewECRule(2, 1)})
	}
	cnr.SetPlacementPolicy(p)
	bin := cnr.Marshal()
	c37reg.cnr[string(bin)] = cnr
	id := cid.NewFromMarshalledContainer(bin)
	a := c37draw(id)
	req := containerEvent.CreateContainerRequest{MainTransaction: c37tx, CreateContainerParams: fschaincontracts.CreateContainerParams{
		Container: bin, InvocationScript: a.invoc, VerificationScript: a.verif, SessionToken: a.token}}
	e.cp.processContainerPut(req, id)

	attrOK := attr != 2 && attr != 5 && attr != 6 && (attr != 3 || e.cp.metaEnabled)
	polOK := p.Verify() == nil && (pol < 2 || e.cp.allowEC) && pol != 3
	if e.approved() {
		vrt.Assert(a.authorised(e, 1, session.VerbContainerPut, sessionv2.VerbContainerPut, false, bin), "container creation is approved only if its owner authorised it")
		vrt.Assert(attrOK, "container creation is approved only with permitted system attributes")
		vrt.Assert(polOK, "container creation is approved only with a valid, supported placement policy")
		vrt.Reach("approved")
	} else {
		vrt.Assert(!(attrOK && polOK && a.authorised(e, 1, session.VerbContainerPut, sessionv2.VerbContainerPut, false, bin)), "a valid creation authorised by the owner is approved")
		vrt.Reach("refused")
	}
}

// VerifC37SetEACL: eACL change of an existing container.
func VerifC37SetEACL() {
	e := c37setup()
	extendable := vrt.Bool("basicACLExtendable")
	owner := byte(1 + vrt.Choice("containerOwner", 2))
	cnr := c37container(owner, extendable)
	id := cid.NewFromMarshalledContainer(cnr.Marshal())
	cntClient.VerifHookGet = func(b []byte) (container.Container, error) {
		if !c37eq(b, id[:]) {
			return container.Container{}, errors.New("container not found")
		}
		return cnr, nil
	}
	role := []eacl.Role{eacl.RoleUser, eacl.RoleSystem, eacl.RoleOthers}[vrt.Choice("recordTargetRole", 3)]
	fl := vrt.Choice("recordFilter", 4)
	var filters []eacl.Filter
	switch fl {
	case 1:
		filters = append(filters, eacl.ConstructFilter(eacl.HeaderFromObject, "a", eacl.MatchNotPresent, "v")) // invalid
	case 2:
		filters = append(filters, eacl.ConstructFilter(eacl.HeaderFromObject, "a", eacl.MatchNumGT, "12x")) // invalid
	case 3:
		filters = append(filters, eacl.ConstructFilter(eacl.HeaderFromObject, "a", eacl.MatchNumLE, "-12"))
	}
	rec := eacl.ConstructRecord(eacl.ActionDeny, eacl.OperationPut, []eacl.Target{eacl.NewTargetByRole(role)}, filters...)
	tbl := eacl.NewTableForContainer(id, []eacl.Record{rec})
	bin := tbl.Marshal()
	c37reg.eacl[string(bin)] = tbl
	a := c37draw(id)
	req := containerEvent.PutContainerEACLRequest{MainTransaction: c37tx, PutContainerEACLParams: fschaincontracts.PutContainerEACLParams{
		EACL: bin, InvocationScript: a.invoc, VerificationScript: a.verif, SessionToken: a.token}}
	e.cp.processPutEACLRequest(req)
	tableOK := role != eacl.RoleSystem && fl != 1 && fl != 2
	if e.approved() {
		vrt.Assert(a.authorised(e, owner, session.VerbContainerSetEACL, sessionv2.VerbContainerSetEACL, true, bin), "an eACL change is approved only if the container owner authorised it")
		vrt.Assert(extendable, "an eACL change is approved only if the basic ACL allows extension")
		vrt.Assert(tableOK, "an eACL change touching system roles (or with malformed filters) is refused")
		vrt.Reach("approved")
	} else {
		vrt.Assert(!(extendable && tableOK && a.authorised(e, owner, session.VerbContainerSetEACL, sessionv2.VerbContainerSetEACL, true, bin)), "a valid eACL change authorised by the owner is approved")
		vrt.Reach("refused")
	}
}

// VerifC37Attributes: setting / removing a container attribute: authorised by
// the owner over exactly the signed request parameters, and not past the
// request's own deadline (wall clock: a far-future and a long-past deadline).
func VerifC37Attributes() {
	e := c37setup()
	id := cid.ID{0x52}
	owner := byte(1 + vrt.Choice("containerOwner", 2))
	cntClient.VerifHookGet = func(b []byte) (container.Container, error) {
		if !c37eq(b, id[:]) {
			return container.Container{}, errors.New("container not found")
		}
		return c37container(owner, true), nil
	}
	a := c37draw(id)
	expired := vrt.Bool("requestDeadlinePassed")
	validUntil := int64(1) << 40
	if expired {
		validUntil = 1000
	}
	remove := vrt.Bool("removeAttribute")
	var signed []byte
	if remove {
		signed = sdkclient.GetSignedRemoveContainerAttributeParameters(sdkclient.RemoveContainerAttributeParameters{ID: id, Attribute: "k", ValidUntil: time.Unix(validUntil, 0)})
		e.cp.processRemoveAttributeRequest(containerEvent.RemoveAttributeRequest{MainTransaction: c37tx, ID: id[:], Attribute: "k", ValidUntil: validUntil,
			InvocationScript: a.invoc, VerificationScript: a.verif, SessionToken: a.token})
	} else {
		signed = sdkclient.GetSignedSetContainerAttributeParameters(sdkclient.SetContainerAttributeParameters{ID: id, Attribute: "k", Value: "v", ValidUntil: time.Unix(validUntil, 0)})
		e.cp.processSetAttributeRequest(containerEvent.SetAttributeRequest{MainTransaction: c37tx, ID: id[:], Attribute: "k", Value: "v", ValidUntil: validUntil,
			InvocationScript: a.invoc, VerificationScript: a.verif, SessionToken: a.token})
	}
	verb, verbV2 := session.VerbContainerSetAttribute, sessionv2.VerbContainerSetAttribute
	if remove {
		verb, verbV2 = session.VerbContainerRemoveAttribute, sessionv2.VerbContainerRemoveAttribute
	}
	if e.approved() {
		vrt.Assert(a.authorised(e, owner, verb, verbV2, true, signed), "an attribute change is approved only if the container owner authorised it")
		vrt.Assert(!expired, "an attribute change past its own deadline is refused")
		vrt.Reach("approved")
	} else {
		vrt.Assert(expired || !a.authorised(e, owner, verb, verbV2, true, signed), "a timely attribute change authorised by the owner is approved")
		vrt.Reach("refused")
	}
}
