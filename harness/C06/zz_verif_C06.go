//go:build verif

package meta

import (
	"errors"

	"github.com/nspcc-dev/neofs-node/internal/vrt"
	"github.com/nspcc-dev/neofs-sdk-go/object"
	oid "github.com/nspcc-dev/neofs-sdk-go/object/id"
)

// VerifC06Listing: two containers with arbitrary subsets of stored objects
// (regular, tombstone and lock objects), one object optionally marked for
// removal (default or redundant mark, or by a tombstone), one container
// optionally removed; listing page by page with a symbolic page size yields
// every physical object that is not marked for removal exactly once and then
// reports the end of the listing.
func VerifC06Listing() {
	db := vmNewDB(&vmEpoch{e: 3})
	const NC, NO = 2, 3
	var stored, hidden [NC][NO + 1]bool
	for c := 0; c < NC; c++ {
		for o := 1; o <= NO; o++ {
			if c == 1 && o == NO {
				continue
			}
			if vrt.Bool("stored") {
				typ := object.TypeRegular
				vrt.Assert(db.Put(vmObj(byte(c), byte(o), typ, -1, 4)) == nil, "put")
				stored[c][o] = true
			}
		}
	}
	kind := vrt.Choice("removal", 5)
	removeNow := func() {
		switch kind {
		case 1:
			_, err := db.MarkGarbage(vmCID(0), []oid.ID{vmOID(2)}, GarbageMarkDefault)
			vrt.Assert(err == nil, "mark")
			hidden[0][2] = true
		case 2:
			_, err := db.MarkGarbage(vmCID(0), []oid.ID{vmOID(2)}, GarbageMarkRedundant)
			vrt.Assert(err == nil, "mark")
			// a redundant copy stays readable (and listed) until it is physically removed
		case 3:
			ts := vmObj(0, 7, object.TypeTombstone, 50, 0)
			ts.AssociateDeleted(vmOID(1))
			vrt.Assert(db.Put(ts) == nil, "tombstone")
			hidden[0][1] = true
			stored[0][0] = true // the tombstone object itself is a physical object (slot 0 = id 7)
		case 4:
			_, err := db.InhumeContainer(vmCID(1))
			vrt.Assert(err == nil, "container removal")
			for o := range hidden[1] {
				hidden[1][o] = true
			}
		}
	}
	// the removal happens before the listing or after some pages of it
	removalAfterPages := 0
	if kind != 0 {
		removalAfterPages = vrt.Choice("removalAfterPages", 3)
	}
	if removalAfterPages == 0 {
		removeNow()
	}
	page := vrt.IntRange("pageSize", 1, 3)
	var seen, seenAfterRemoval [NC][NO + 1]int
	var cur *Cursor
	// an arbitrary starting cursor: the listing continues strictly after it
	startPos := -1
	if vrt.Bool("startFromArbitraryCursor") {
		c0 := vrt.Choice("cursorContainer", NC)
		o0 := vrt.Choice("cursorObject", NO+2) // ids 0..3 and the tombstone's id 7
		id := byte(o0)
		if o0 == NO+1 {
			id = 7
		}
		cur = NewCursor(vmCID(byte(c0)), vmOID(id))
		startPos = c0*16 + int(id)
	}
	removed := removalAfterPages == 0
	ended := false
	for i := 0; i < 9; i++ {
		if !removed && i == removalAfterPages {
			removeNow()
			removed = true
		}
		res, next, err := db.ListWithCursor(page, cur)
		if errors.Is(err, ErrEndOfListing) {
			ended = true
			break
		}
		vrt.Assert(err == nil && len(res) > 0 && len(res) <= page, "a page holds between one and pageSize objects")
		if err != nil {
			return
		}
		for _, r := range res {
			cn := r.Address.Container()
			id := r.Address.Object()
			c := int(cn[0] - 0xC0)
			o := int(id[0])
			if o == 7 {
				o = 0
			}
			vrt.Assert(c >= 0 && c < NC && o >= 0 && o <= NO, "listed address is one of the stored ones")
			if c < 0 || c >= NC || o < 0 || o > NO {
				return
			}
			seen[c][o]++
			if removed {
				seenAfterRemoval[c][o]++
			}
		}
		cur = next
	}
	vrt.Assert(ended, "the listing ends")
	for c := 0; c < NC; c++ {
		for o := 0; o <= NO; o++ {
			id := o
			if o == 0 {
				id = 7
			}
			afterCursor := c*16+id > startPos
			switch {
			case !removed:
				// the listing ended before the removal took place
				if stored[c][o] && afterCursor && !(kind == 3 && o == 0) {
					vrt.Assert(seen[c][o] == 1, "every available physical object is listed exactly once")
				}
			case stored[c][o] && !hidden[c][o] && afterCursor:
				if removalAfterPages == 0 || !(kind == 3 && o == 0) {
					vrt.Assert(seen[c][o] == 1, "every available physical object is listed exactly once")
				} else {
					vrt.Assert(seen[c][o] <= 1, "no object is listed twice")
				}
			case stored[c][o] && hidden[c][o] && afterCursor:
				vrt.Assert(seenAfterRemoval[c][o] == 0, "objects marked for removal and objects of removed containers are never listed")
				vrt.Assert(seen[c][o] <= 1, "no object is listed twice")
			default:
				vrt.Assert(seen[c][o] == 0, "absent objects and objects at or before the starting cursor are never listed")
			}
		}
	}
	vrt.Reach("end")
}
