#!/bin/bash
# usage: tools_seed_run.sh <seed-name e.g. C05-a> [tier]: applies the seeded patch to /repo, runs the property's check, reverts.
S=$1; TIER=${2:-quick}; ID=${S%%-*}
cd /verif
git -C /repo diff --quiet || { echo "repo dirty"; exit 3; }
git -C /repo apply /verif/seeded/$S/patch.diff || { echo "apply failed"; exit 3; }
trap 'git -C /repo checkout -q -- .' EXIT
./check $ID --tier $TIER --out /var/tmp/seedrun-$S.json > /var/tmp/seedrun-$S.log 2>&1
RC=$?
grep -E "^VIOLATION|^KNOWN|^INCONCLUSIVE|^PASS|label=" /var/tmp/seedrun-$S.log | head -8
echo "SEEDRUN $S check_exit=$RC"
