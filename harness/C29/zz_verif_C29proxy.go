//go:build verif

package object

import (
	"context"

	"github.com/nspcc-dev/neofs-node/internal/vrt"
	oid "github.com/nspcc-dev/neofs-sdk-go/object/id"
	protoobject "github.com/nspcc-dev/neofs-sdk-go/proto/object"
	iprotobuf "github.com/nspcc-dev/neofs-sdk-go/proto/protobuf"
	"github.com/nspcc-dev/neofs-sdk-go/proto/refs"
	"google.golang.org/grpc/mem"
)

type c29proxyStream struct {
	protoobject.ObjectService_GetServer
	sent *int
}

func (c29proxyStream) Context() context.Context { return context.Background() }
func (s c29proxyStream) SendMsg(any) error      { *s.sent++; return nil }

// VerifC29ProxyInit: a GET served by fetching the object from another container
// node: the heading message of the remote stream (real protobuf bytes of a
// header matching the requested ID) is handled by the real getProxyContext.
// When the request-time extended ACL check could not decide (it depends on
// header fields), the header is evaluated before anything goes on - whether or
// not the client asked for the payload only - and a denial ends the stream
// with nothing sent; the payload chunks follow only a passed evaluation.
func VerifC29ProxyInit() {
	recheck := vrt.Bool("eaclDependsOnTheHeader")
	payloadOnly := vrt.Bool("payloadOnlyRequested")
	c29.eacl = vrt.Choice("headerTimeVerdict", 3) // allowed, not matched, denied
	c29.eaclAsked = 0

	hdr := &protoobject.Header{PayloadLength: 3, ObjectType: protoobject.ObjectType_REGULAR}
	hb := make([]byte, hdr.MarshaledSize())
	hdr.MarshalStable(hb)
	id := oid.NewFromObjectHeaderBinary(hb)
	init := &protoobject.GetResponse_Body_Init{ObjectId: &refs.ObjectID{Value: id[:]}, Header: hdr}
	ib := make([]byte, init.MarshaledSize())
	init.MarshalStable(ib)

	sent := 0
	srv := &Server{aclChecker: c29acl{}}
	stream := &getStream{base: c29proxyStream{sent: &sent}, srv: srv, reqOID: id, recheckEACL: recheck}
	x := &getProxyContext{respStream: stream, suppressInit: payloadOnly}
	buffers := iprotobuf.NewBuffersSlice(mem.BufferSlice{mem.SliceBuffer(ib)})
	wasSent, err := x.handleInitResponse(context.Background(), mem.BufferSlice{mem.SliceBuffer(ib)}, buffers)

	if recheck {
		vrt.Assert(c29.eaclAsked == 1, "no payload byte is let through before the extended ACL has been evaluated against the object's header")
		if c29.eacl == 2 {
			vrt.Assert(err != nil && !wasSent && sent == 0, "a header the extended ACL denies ends the proxied stream with nothing sent")
			vrt.Reach("proxy-denied")
			return
		}
	}
	if recheck && payloadOnly && c29.eacl == 1 {
		// observed on the unchanged tree (not demanded by C29, which is a safety
		// property): "no record matched" leaks out as the error of a payload-only
		// proxied GET; nothing is sent, so C29 holds.
		vrt.Assert(sent == 0, "nothing is sent for a payload-only request at the heading message")
		vrt.Reach("proxy-passed")
		return
	}
	vrt.Assert(err == nil, "an allowed header goes on")
	vrt.Assert(wasSent == !payloadOnly && sent == map[bool]int{true: 0, false: 1}[payloadOnly], "the heading message is forwarded unless only the payload was asked for")
	vrt.Reach("proxy-passed")
}
