//go:build verif

package reputation

import (
	"github.com/nspcc-dev/neo-go/pkg/network/payload"
	"github.com/nspcc-dev/neofs-sdk-go/reputation"
)

// VerifNewPut builds a Put event as the notary parser would.
func VerifNewPut(epoch uint64, peer reputation.PeerID, value reputation.GlobalTrust, nr *payload.P2PNotaryRequest) *Put {
	return &Put{epoch: epoch, peerID: peer, value: value, notaryRequest: nr}
}
