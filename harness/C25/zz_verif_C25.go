//go:build verif

package putsvc

import (
	"errors"

	iec "github.com/nspcc-dev/neofs-node/internal/ec"
	"github.com/nspcc-dev/neofs-node/internal/vrt"
	cid "github.com/nspcc-dev/neofs-sdk-go/container/id"
	"github.com/nspcc-dev/neofs-sdk-go/netmap"
	"github.com/nspcc-dev/neofs-sdk-go/object"
	oid "github.com/nspcc-dev/neofs-sdk-go/object/id"
	"go.uber.org/zap"
)

const c25N = 6 // node universe, node 0 is the local one

var c25 struct {
	ecFail   [2]bool
	ecTried  [2]int
	ecStored [2]bool
	lists    [][]int
	acked    [c25N]bool
	calls    [c25N]int
	fail     [c25N]bool
}

func c25node(i int) netmap.NodeInfo {
	var n netmap.NodeInfo
	n.SetPublicKey([]byte{0xB0 + byte(i)})
	return n
}

type c25net struct{}

func (c25net) GetContainerNodes(cid.ID) (ContainerNodes, error) { return nil, errors.New("not used") }
func (c25net) IsLocalNodePublicKey(k []byte) bool               { return len(k) == 1 && k[0] == 0xB0 }
func (c25net) GetEpochBlock(uint64) (uint32, error)             { return 0, nil }
func (c25net) GetEpochBlockByTime(uint32) (uint32, error)       { return 0, nil }

type c25cnr struct {
	reps []uint
	ec   []iec.Rule
}

func (c c25cnr) nodeLists() [][]netmap.NodeInfo {
	nn := make([][]netmap.NodeInfo, len(c25.lists))
	for i, l := range c25.lists {
		for _, j := range l {
			nn[i] = append(nn[i], c25node(j))
		}
	}
	return nn
}
func (c c25cnr) Unsorted() [][]netmap.NodeInfo                     { return c.nodeLists() }
func (c c25cnr) SortForObject(oid.ID) ([][]netmap.NodeInfo, error) { return c.nodeLists(), nil }
func (c c25cnr) PrimaryCounts() []uint                             { return c.reps }
func (c c25cnr) ECRules() []iec.Rule                               { return c.ec }

// replaced collaborators (rename overlay)
func (t *distributedTarget) sendObject(obj object.Object, encObj encodedObject, node nodeDesc) error {
	i := int(node.info.PublicKey()[0] - 0xB0)
	c25.calls[i]++
	if c25.fail[i] {
		return errors.New("node refused the object")
	}
	c25.acked[i] = true
	return nil
}
func (t *distributedTarget) submitMetaCollection(object.Object) error { return nil }
func (t *distributedTarget) replicateRemainingPrimaryNodes(object.Object, [][]netmap.NodeInfo, []uint, *repProgress) {
}

var c25placements = []struct {
	lists [][]int
	reps  []uint
}{
	{[][]int{{1, 2, 3}}, []uint{2}},
	{[][]int{{1, 2}, {3, 4}}, []uint{2, 2}},
	{[][]int{{1, 2}, {0, 3}}, []uint{2, 2}},
	{[][]int{{1, 2, 3}, {2, 4, 0}}, []uint{2, 2}},
	{[][]int{{1, 2}, {2, 3}}, []uint{1, 2}},
}

func c25acks(list []int) uint {
	n := uint(0)
	for _, j := range list {
		if c25.acked[j] {
			n++
		}
	}
	return n
}

// VerifC25Put: saving a client-sealed regular object under a replication policy
// (forked placements incl. shared nodes and the local node) with every
// combination of node failures, without and with an initial placement policy
// (symbolic per-rule limits, total limit, local preference): success only if the
// acknowledged copies satisfy the policy in force; no node is asked twice.
func VerifC25Put() {
	pl := c25placements[vrt.Choice("placement", len(c25placements))]
	c25.lists = pl.lists
	for i := range c25.acked {
		c25.acked[i], c25.calls[i] = false, 0
		c25.fail[i] = false
	}
	used := [c25N]bool{}
	for _, l := range pl.lists {
		for _, j := range l {
			used[j] = true
		}
	}
	for j := 0; j < c25N; j++ {
		if used[j] {
			c25.fail[j] = vrt.Bool("nodeFails")
		}
	}
	obj := new(object.Object)
	var id oid.ID
	id[0] = 1
	obj.SetID(id)
	t := &distributedTarget{obj: obj, containerNodes: c25cnr{reps: pl.reps}}
	t.placementIterator = placementIterator{log: zap.NewNop(), neoFSNet: c25net{}}
	t.ecPart.RuleIndex = -1
	initial := vrt.Bool("initialPolicy")
	var limits []uint32
	var maxReplicas uint32
	if initial {
		var ip netmap.InitialPlacementPolicy
		if vrt.Bool("withLimits") {
			limits = make([]uint32, len(pl.reps))
			for i := range limits {
				limits[i] = uint32(vrt.IntRange("limit", 0, int(pl.reps[i])))
			}
			ip.SetReplicaLimits(limits)
		}
		maxReplicas = uint32(vrt.IntRange("maxReplicas", 0, 4))
		ip.SetMaxReplicas(maxReplicas)
		prefer := vrt.Bool("preferLocal")
		ip.SetPreferLocal(prefer)
		// validity of an initial policy as the SDK verifies it when a container is created
		var sum uint32
		for i := range pl.reps {
			if limits != nil {
				sum += limits[i]
			} else {
				sum += uint32(pl.reps[i])
			}
		}
		vrt.Assume(sum > 0 && maxReplicas <= sum)
		vrt.Assume(maxReplicas > 0 || (limits != nil && !prefer))
		t.initialPolicy = &ip
	}
	err := t.saveObject(*obj, encodedObject{})
	for j := 0; j < c25N; j++ {
		vrt.Assert(c25.calls[j] <= 1, "no node is asked twice")
	}
	if err == nil {
		var total uint
		for i, l := range pl.lists {
			need := pl.reps[i]
			if limits != nil {
				need = uint(limits[i])
			}
			got := c25acks(l)
			if maxReplicas == 0 {
				vrt.Assert(got >= need, "success: every rule has its required number of distinct acknowledging nodes")
			}
			if got > need {
				got = need
			}
			total += got
		}
		if maxReplicas > 0 {
			vrt.Assert(total >= uint(maxReplicas), "success under a total limit: the acknowledged copies reach MaxReplicas")
		}
		vrt.Reach("success")
	} else {
		vrt.Reach("error")
	}
}
