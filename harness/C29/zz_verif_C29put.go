//go:build verif

package object

import (
	"context"
	"errors"
	"io"

	neoutil "github.com/nspcc-dev/neo-go/pkg/util"
	icrypto "github.com/nspcc-dev/neofs-node/internal/crypto"
	"github.com/nspcc-dev/neofs-node/internal/vrt"
	aclsvc "github.com/nspcc-dev/neofs-node/pkg/services/object/acl/v2"
	"github.com/nspcc-dev/neofs-node/pkg/services/object/common"
	putsvc "github.com/nspcc-dev/neofs-node/pkg/services/object/put"
	"github.com/nspcc-dev/neofs-node/pkg/services/util"
	apistatus "github.com/nspcc-dev/neofs-sdk-go/client/status"
	"github.com/nspcc-dev/neofs-sdk-go/container/acl"
	cid "github.com/nspcc-dev/neofs-sdk-go/container/id"
	protoobject "github.com/nspcc-dev/neofs-sdk-go/proto/object"
	"github.com/nspcc-dev/neofs-sdk-go/proto/refs"
	protosession "github.com/nspcc-dev/neofs-sdk-go/proto/session"
	protostatus "github.com/nspcc-dev/neofs-sdk-go/proto/status"
	"github.com/nspcc-dev/neofs-sdk-go/user"
	"go.uber.org/zap"
)

func (i c29info) PutRequestToInfo(context.Context, *protoobject.PutRequest, *protoobject.PutRequest_Body_Init, cid.ID, acl.Op, common.RequestTokens) (aclsvc.RequestInfo, user.ID, error) {
	info, err := i.answer()
	return info, user.ID{}, err
}

type c29putHandlers struct{ c29handlers }

func (c29putHandlers) Put(context.Context) (*putsvc.Streamer, error) {
	return new(putsvc.Streamer), nil
}

// c29putStream feeds the upload messages to the handler; before each message
// (and before the end of the stream) it lets the environment change: the
// signature verdict of that message and the node's maintenance state.
type c29putStream struct {
	protoobject.ObjectService_PutServer
	msgs     []*protoobject.PutRequest
	next     int
	badSigAt int // index of the message whose signatures do not verify
	mntFrom  int // maintenance starts right before this message is handled
	resp     *protoobject.PutResponse
}

func (s *c29putStream) Context() context.Context { return context.Background() }
func (s *c29putStream) Recv() (*protoobject.PutRequest, error) {
	i := s.next
	s.next++
	if i >= len(s.msgs) {
		// the end of the stream is not a message: nothing is verified anew and
		// the environment is left as the last message saw it
		return nil, io.EOF
	}
	c29.sigAsked = 0
	c29.sigOK = i != s.badSigAt
	c29.maintenance = i >= s.mntFrom
	return s.msgs[i], nil
}
func (s *c29putStream) SendAndClose(r *protoobject.PutResponse) error { s.resp = r; return nil }

// VerifC29PutStream: the streaming upload handler over an init message and two
// payload chunk messages. The signatures of one message may not verify, the
// node may enter maintenance before any message, tokens / requester resolution
// / basic ACL / extended ACL may refuse the init message. Nothing reaches the
// upload stream (target initialisation, chunks, final distribution) for a
// message that failed a check or that arrived while the node is under
// maintenance, the response then carries an error status - the maintenance
// status if that was the reason - and a fully accepted upload is distributed.
func VerifC29PutStream() {
	c29.tokensOK, c29.infoOK, c29.basicOK = vrt.Bool("tokensValid"), vrt.Bool("requesterResolved"), vrt.Bool("basicACLAllows")
	c29.eacl = vrt.Choice("extendedACL", 3)
	c29.sigAsked, c29.mntAsked, c29.tokAsked, c29.infoAsked, c29.basicAsked, c29.eaclAsked, c29.effects = 0, 0, 0, 0, 0, 0, 0
	util.VerifNoSign = true
	icrypto.VerifHookChain = func() error {
		c29.sigAsked++
		if !c29.sigOK {
			return errors.New("invalid signature")
		}
		return nil
	}
	var ops []string
	putsvc.VerifHookStream = func(op string) error {
		c29effect("upload stream " + op)
		ops = append(ops, op)
		return nil
	}
	owner := user.NewFromScriptHash(neoutil.Uint160{1})
	cnr := make([]byte, 32)
	cnr[0] = 1
	init := &protoobject.PutRequest{MetaHeader: &protosession.RequestMetaHeader{Ttl: 2}, Body: &protoobject.PutRequest_Body{ObjectPart: &protoobject.PutRequest_Body_Init_{Init: &protoobject.PutRequest_Body_Init{
		Header: &protoobject.Header{ContainerId: &refs.ContainerID{Value: cnr}, OwnerId: &refs.OwnerID{Value: owner[:]}, PayloadLength: 2},
	}}}}
	chunk := func(b byte) *protoobject.PutRequest {
		return &protoobject.PutRequest{MetaHeader: &protosession.RequestMetaHeader{Ttl: 2}, Body: &protoobject.PutRequest_Body{ObjectPart: &protoobject.PutRequest_Body_Chunk{Chunk: []byte{b}}}}
	}
	gs := &c29putStream{msgs: []*protoobject.PutRequest{init, chunk(1), chunk(2)}}
	gs.badSigAt = vrt.Choice("messageWithInvalidSignatures", 4)  // 3: none
	gs.mntFrom = vrt.Choice("maintenanceStartsBeforeMessage", 4) // 3: not during the upload
	s := &Server{handlers: c29putHandlers{}, fsChain: c29chain{}, storage: c29storage{}, metrics: c29metrics{}, aclChecker: c29acl{}, reqInfoProc: c29info{}, log: zap.NewNop()}
	_ = s.Put(gs)
	var st *protostatus.Status
	if gs.resp != nil {
		st = gs.resp.GetMetaHeader().GetStatus()
	}
	initOK := c29.tokensOK && c29.infoOK && c29.basicOK && c29.eacl != 2
	// the first message that must be refused
	stop := 3
	for i := 0; i < 3; i++ {
		if i == gs.badSigAt || i >= gs.mntFrom || (i == 0 && !initOK) {
			stop = i
			break
		}
	}
	want := 0
	if stop >= 1 {
		want = stop // init + (stop-1) chunks
	}
	if stop == 3 {
		want = 4 // and the final distribution
	}
	vrt.Assert(len(ops) == want, "exactly the messages before the first refused one reach the upload stream")
	if stop < 3 {
		vrt.Assert(st != nil && st.GetCode() != 0, "an upload with a refused message gets an error status")
		if stop != gs.badSigAt && stop >= gs.mntFrom {
			vrt.Assert(st != nil && st.GetCode() == util.ToStatus(apistatus.ErrNodeUnderMaintenance).GetCode(), "a client operation is refused with the maintenance status while the node is under maintenance")
			vrt.Reach("put-maintenance")
		} else {
			vrt.Reach("put-refused")
		}
	} else {
		vrt.Assert(st == nil || st.GetCode() == 0, "a fully accepted upload succeeds")
		vrt.Reach("put-served")
	}
	util.VerifNoSign, icrypto.VerifHookChain, putsvc.VerifHookStream = false, nil, nil
}
