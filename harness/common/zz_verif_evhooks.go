//go:build verif

package event

import (
	"github.com/nspcc-dev/neo-go/pkg/neorpc/result"
	"github.com/nspcc-dev/neo-go/pkg/network/payload"
	"go.uber.org/zap"
)

// VerifHandleNotary feeds one notary request to the listener as its
// subscription loop would (preparation, parsing, handler).
func VerifHandleNotary(l Listener, nr *payload.P2PNotaryRequest) {
	l.(*listener).parseAndHandleNotary(&result.NotaryRequestEvent{NotaryRequest: nr})
}

// VerifNewListener builds a listener without a chain subscription.
func VerifNewListener(log *zap.Logger) Listener {
	return &listener{
		notificationParsers:  make(map[scriptHashWithType]NotificationParser),
		notificationHandlers: make(map[scriptHashWithType][]Handler),
		log:                  log,
	}
}
