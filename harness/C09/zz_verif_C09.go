//go:build verif

package engine

import (
	"errors"

	"github.com/nspcc-dev/neofs-node/internal/vrt"
	"github.com/nspcc-dev/neofs-sdk-go/object"
	oid "github.com/nspcc-dev/neofs-sdk-go/object/id"
)

var errUnknownBlob = errors.New("undecodable blob")

// VerifC09RemovedStaysRemoved: one real shard (metabase on the bbolt model,
// map blob model). An object is stored and then tombstoned (the tombstone
// expires at epoch 14). From then on: a GC pass whose blob deletion may fail or
// during which the process may stop between the metadata and the blob step, an
// optional metabase resynchronisation from the blob storage (blobs visited in
// either order), the epoch passing the tombstone's expiration, further GC
// passes and another optional resynchronisation. At every point after the
// removal a read of the object through the shard fails.
func VerifC09RemovedStaysRemoved() {
	w := vwNew(1, 10)
	sh, blob := w.shards[0], w.blobs[0]
	object.VerifHookUnmarshal = func(o *object.Object, data []byte) error {
		for a, src := range w.objs {
			if bin, ok := blob.data[a]; ok && len(bin) == len(data) && &bin[0] == &data[0] {
				src.CopyTo(o)
				return nil
			}
		}
		return errUnknownBlob
	}
	obj := w.vwObj(1, object.TypeRegular, -1)
	ts := w.vwObj(2, object.TypeTombstone, 14)
	ts.AssociateDeleted(obj.GetID())
	vrt.Assume(sh.Put(obj, nil) == nil)
	// the removal: a tombstone, or a drop (the garbage mark the engine's Delete
	// puts, e.g. for a redundant copy or an operator's request)
	dropped := vrt.Bool("droppedInsteadOfTombstoned")
	what := "a removed object"
	if dropped {
		what = "a dropped object"
		vrt.Assume(sh.MarkGarbage(obj.GetContainerID(), []oid.ID{obj.GetID()}, GarbageMarkDefault) == nil)
	} else {
		vrt.Assume(sh.Put(ts, nil) == nil)
	}
	w.reverseIteration = vrt.Bool("blobsIteratedInReverse")

	readable := func() bool {
		_, err := sh.Get(obj.Address(), false)
		return err == nil
	}
	collected := false // a GC pass has processed the removal
	orphan := false // the object's blob survived its deletion (failed or interrupted blob step)
	observe := func(when string) {
		if orphan {
			vrt.Assert(!readable(), what+" is never readable again (its blob survived a failed or interrupted deletion): "+when)
			return
		}
		if dropped && !collected {
			vrt.Assert(!readable(), what+" is never readable again (not yet collected, the mark exists in the metadata only): "+when)
			return
		}
		vrt.Assert(!readable(), what+" is never readable again: "+when)
	}
	observe("right after the tombstone")

	resync := func(tag string) {
		if vrt.Bool("resync" + tag) {
			err := sh.VerifMeta().ResyncFromBlobstor(blob, nil)
			vrt.Assume(err == nil)
			observe("after metabase resynchronisation " + tag)
		}
	}

	// a resynchronisation while both blobs are still there (either order of them)
	resync("BeforeTheFirstGC")

	// GC at the current epoch: removes the tombstoned object (metadata, then blob)
	blob.deleteFails = vrt.Bool("blobDeletionFails")
	blob.crashy = true
	crashed := vrt.Run(func() { sh.VerifGC(w.epoch.E) })
	deletionDisturbed := crashed || blob.deleteFails
	blob.crashy, blob.deleteFails = false, false
	collected = true
	if crashed {
		vrt.Reach("crashed")
	}
	if _, still := blob.data[obj.Address()]; still && deletionDisturbed {
		if has, _ := sh.VerifMeta().Exists(obj.Address(), true); !has {
			orphan = true
		}
	}
	observe("after the first GC pass")
	resync("BeforeTombstoneExpires")

	// the tombstone expires and is collected
	w.epoch.E = 15
	sh.VerifGC(w.epoch.E)
	observe("after the tombstone expired")
	sh.VerifGC(w.epoch.E)
	observe("after the second GC pass past the expiration")
	resync("AfterTombstoneExpired")
	w.epoch.E = 16
	sh.VerifGC(w.epoch.E)
	observe("at the end")
	vrt.Reach("end")
	_ = oid.ID{}
}
