//go:build verif

package meta

import (
	"strconv"

	"github.com/nspcc-dev/bbolt"
	"github.com/nspcc-dev/neofs-node/pkg/local_object_storage/shard/mode"
	"github.com/nspcc-dev/neofs-sdk-go/checksum"
	cid "github.com/nspcc-dev/neofs-sdk-go/container/id"
	"github.com/nspcc-dev/neofs-sdk-go/object"
	oid "github.com/nspcc-dev/neofs-sdk-go/object/id"
	"github.com/nspcc-dev/neofs-sdk-go/user"
	"github.com/nspcc-dev/neofs-sdk-go/version"
	"go.uber.org/zap"
)

// shared helpers of the metabase harnesses: a DB on the bbolt model and small
// concrete objects.

type vmEpoch struct{ e uint64 }

func (x *vmEpoch) CurrentEpoch() uint64 { return x.e }

type vmContainers struct{}

func (vmContainers) Exists(cid.ID) (bool, error) { return true, nil }

func vmNewDB(ep *vmEpoch) *DB {
	db := &DB{cfg: defaultCfg(), mode: mode.ReadWrite, boltDB: bbolt.VerifNewModelDB()}
	db.log = zap.NewNop()
	db.epochState = ep
	db.cfg.containers = vmContainers{}
	return db
}

func vmCID(i byte) cid.ID { var c cid.ID; c[0] = 0xC0 + i; return c }
func vmOID(i byte) oid.ID { var o oid.ID; o[0] = i; o[31] = 0x77; return o }

func vmAddr(c byte, o byte) oid.Address {
	var a oid.Address
	a.SetContainer(vmCID(c))
	a.SetObject(vmOID(o))
	return a
}

// vmObj builds a minimal valid object header. exp < 0 means no expiration attribute.
func vmObj(c byte, o byte, typ object.Type, exp int64, payloadLen uint64) *object.Object {
	obj := new(object.Object)
	obj.SetContainerID(vmCID(c))
	obj.SetID(vmOID(o))
	var owner user.ID
	owner[0] = 0x35
	owner[1] = 0x01
	obj.SetOwner(owner)
	ver := version.New(2, 18)
	obj.SetVersion(&ver)
	obj.SetType(typ)
	obj.SetCreationEpoch(1)
	obj.SetPayloadSize(payloadLen)
	var h [32]byte
	h[0] = o
	obj.SetPayloadChecksum(checksum.NewSHA256(h))
	if exp >= 0 {
		obj.SetAttributes(object.NewAttribute(object.AttributeExpirationEpoch, strconv.FormatInt(exp, 10)))
	}
	return obj
}


// exported constructors for harnesses of other packages (shard)

// VerifEpoch is a settable epoch source.
type VerifEpoch struct{ E uint64 }

func (x *VerifEpoch) CurrentEpoch() uint64 { return x.E }

// VerifNewModelDB returns a metabase on the bbolt model.
func VerifNewModelDB(ep *VerifEpoch) *DB {
	db := &DB{cfg: defaultCfg(), mode: mode.ReadWrite, boltDB: bbolt.VerifNewModelDB()}
	db.log = zap.NewNop()
	db.epochState = ep
	db.cfg.containers = vmContainers{}
	return db
}

// VerifObj / VerifAddr expose the harness object builders.
func VerifObj(c byte, o byte, typ object.Type, exp int64, payloadLen uint64) *object.Object {
	return vmObj(c, o, typ, exp, payloadLen)
}
func VerifAddr(c byte, o byte) oid.Address { return vmAddr(c, o) }
func VerifCID(c byte) cid.ID              { return vmCID(c) }
func VerifOID(o byte) oid.ID              { return vmOID(o) }

// VerifWrites returns the number of write operations the model database has seen.
func (db *DB) VerifWrites() int { return bbolt.VerifWrites(db.boltDB) }

// VerifHookSetMode lets shard harnesses model the metabase mode switch (the real
// one reopens the bbolt file). The real method is renamed to SetMode__real.
var VerifHookSetMode func(*DB, mode.Mode) error

func (db *DB) SetMode(m mode.Mode) error {
	if h := VerifHookSetMode; h != nil {
		return h(db, m)
	}
	return db.SetMode__real(m)
}
