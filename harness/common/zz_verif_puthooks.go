//go:build verif

package putsvc

import (
	"context"
	"io"

	"github.com/nspcc-dev/neofs-sdk-go/netmap"
	oid "github.com/nspcc-dev/neofs-sdk-go/object/id"
)

// VerifHookReplicate lets harnesses of other packages model the remote
// replication call. The real method is renamed to ReplicateObjectToNode__real.
var VerifHookReplicate func(id oid.ID, node netmap.NodeInfo) error

func (s *RemoteSender) ReplicateObjectToNode(ctx context.Context, id oid.ID, src io.ReadSeeker, nodeInfo netmap.NodeInfo) error {
	if h := VerifHookReplicate; h != nil {
		return h(id, nodeInfo)
	}
	return s.ReplicateObjectToNode__real(ctx, id, src, nodeInfo)
}
