//go:build verif

package objectcore

import (
	"context"
	"errors"

	icrypto "github.com/nspcc-dev/neofs-node/internal/crypto"
	"github.com/nspcc-dev/neofs-node/internal/vrt"
	"github.com/nspcc-dev/neofs-sdk-go/container"
	cid "github.com/nspcc-dev/neofs-sdk-go/container/id"
	neofscrypto "github.com/nspcc-dev/neofs-sdk-go/crypto"
	"github.com/nspcc-dev/neofs-sdk-go/object"
	oid "github.com/nspcc-dev/neofs-sdk-go/object/id"
	"github.com/nspcc-dev/neofs-sdk-go/user"
	"github.com/nspcc-dev/neofs-sdk-go/version"
)

type c24cnrs struct{}

func (c24cnrs) Get(cid.ID) (container.Container, error) { return container.Container{}, nil }

type c24epoch struct{}

func (c24epoch) CurrentEpoch() uint64 { return 10 }

// VerifC24Format: the real header validation (FormatValidator.Validate) of an
// object that carries a finished parent header (ID and signature set), as the
// parts of a split object do, whether the object itself arrives finished or is
// still to be formed by the node (session-based upload with client-set split
// fields). The authentication of an object is a verdict per object; the
// parent's ID is the hash of its header or not. Validation passes only if every
// finished header on the way - the object's own when it is finished, and the
// parent's - has the ID of its bytes and was authenticated.
func VerifC24Format() {
	owner := user.ID{0x35, 1}
	owner = user.NewFromScriptHash([20]byte{1})
	ver := version.Current()
	mk := func(o byte) *object.Object {
		obj := new(object.Object)
		obj.SetContainerID(cid.ID{1})
		obj.SetOwner(owner)
		obj.SetVersion(&ver)
		obj.SetType(object.TypeRegular)
		obj.SetPayloadSize(uint64(o))
		return obj
	}
	par := mk(9)
	parIDOK := vrt.Bool("parentIDIsTheHashOfItsHeader")
	if err := par.CalculateAndSetID(); err != nil {
		panic(err)
	}
	parentID := par.GetID()
	if !parIDOK {
		bad := parentID
		bad[0] ^= 1
		par.SetID(bad)
	}
	par.SetSignature(c24sig())
	child := mk(3)
	child.SetParent(par)
	child.SetParentID(par.GetID())
	// split fields of the child: a later part of a V2 split (first and previous
	// IDs), or a V1 split member (split ID)
	if vrt.Bool("v1Split") {
		child.SetSplitID(object.NewSplitID())
	} else {
		child.SetFirstID(oid.ID{7})
		child.SetPreviousID(oid.ID{8})
	}
	unprepared := vrt.Bool("childToBeFormedByTheNode")
	if !unprepared {
		if err := child.CalculateAndSetID(); err != nil {
			panic(err)
		}
		child.SetSignature(c24sig())
	}
	parAuth, childAuth := vrt.Bool("parentAuthenticates"), vrt.Bool("childAuthenticates")
	asked := map[oid.ID]int{}
	icrypto.VerifHookAuthObject = func(o object.Object) error {
		asked[o.GetID()]++
		ok := childAuth
		if o.GetID() == par.GetID() {
			ok = parAuth
		}
		if !ok {
			return errors.New("signature mismatch")
		}
		return nil
	}
	v := &FormatValidator{cfg: &cfg{netState: c24epoch{}}, containers: c24cnrs{}}
	err := v.Validate(context.Background(), child, unprepared, false)
	if err == nil {
		vrt.Assert(parIDOK, "an object passes header validation only if its finished parent header has the ID of its bytes")
		vrt.Assert(parAuth && asked[par.GetID()] == 1, "an object passes header validation only if its finished parent header was authenticated")
		if !unprepared {
			vrt.Assert(childAuth && asked[child.GetID()] == 1, "a finished object passes header validation only if it was authenticated")
		}
		vrt.Reach("valid")
	} else {
		vrt.Assert(!(parIDOK && parAuth && (unprepared || childAuth)), "a correctly formed part of a split object passes header validation")
		vrt.Reach("invalid")
	}
	icrypto.VerifHookAuthObject = nil
}

func c24sig() *neofscrypto.Signature {
	s := neofscrypto.NewSignatureFromRawKey(neofscrypto.ECDSA_SHA512, []byte{2, 1}, []byte{9})
	return &s
}
