//go:build verif

package object

// Hooks that let harnesses replace the reflection-based protobuf decoding of
// objects by a model codec. The real methods are renamed to <name>__real.
var (
	VerifHookUnmarshal func(o *Object, data []byte) error
)

func (o *Object) Unmarshal(data []byte) error {
	if h := VerifHookUnmarshal; h != nil {
		return h(o, data)
	}
	return o.Unmarshal__real(data)
}
