//go:build verif

package innerring

import (
	"context"
	"errors"
	"math/big"
	"time"

	"github.com/nspcc-dev/neo-go/pkg/crypto/keys"
	"github.com/nspcc-dev/neo-go/pkg/util"
	"github.com/nspcc-dev/neofs-node/internal/vrt"
	"github.com/nspcc-dev/neofs-node/pkg/morph/client"
	"go.uber.org/zap"
)

type c35fetch struct {
	list keys.PublicKeys
	err  bool
}

func (f c35fetch) InnerRingKeys() (keys.PublicKeys, error) {
	if f.err {
		return nil, errors.New("RPC failure")
	}
	return f.list, nil
}

func (f c35fetch) Committee() (keys.PublicKeys, error) {
	if f.err {
		return nil, errors.New("RPC failure")
	}
	return f.list, nil
}

func c35key(n int64) *keys.PublicKey {
	return &keys.PublicKey{X: big.NewInt(n), Y: big.NewInt(2)}
}

// VerifC35StartupVote: the validator vote at startup (and on alphabet sync)
// sends vote invocations of the alphabet contracts only from a node whose
// index is inside the alphabet range [0, number of alphabet contracts); a node
// that is not in the list (index -1), or whose index lookup fails, sends none.
func VerifC35StartupVote() {
	nContracts := 1 + vrt.Choice("alphabetContracts", 3)
	nIR := vrt.Choice("innerRingSize", 5)
	pos := vrt.Choice("ownKeyPosition", 6) // >= nIR: not in the list
	lookupFails := vrt.Bool("indexLookupFails")
	var ir keys.PublicKeys
	for i := 0; i < nIR; i++ {
		ir = append(ir, c35key(int64(10+i)))
	}
	own := c35key(int64(10 + pos))
	var calls []client.VerifCall
	client.VerifHookSend = func(c client.VerifCall) error {
		calls = append(calls, c)
		return nil
	}
	client.VerifHookAccountVote = func(util.Uint160) (*keys.PublicKey, error) { return nil, nil }
	client.VerifHookNonceVUB = func() (uint32, uint32, error) { return 1, 100, nil }
	s := &Server{
		log:           zap.NewNop(),
		fsChainClient: &client.Client{},
		contracts:     new(contracts),
		statusIndex:   newInnerRingIndexer(c35fetch{ir, lookupFails}, c35fetch{ir, lookupFails}, own, time.Second),
	}
	for i := 0; i < nContracts; i++ {
		s.contracts.alphabet = append(s.contracts.alphabet, util.Uint160{byte(0xa0 + i)})
	}
	s.epochCounter.Store(vrt.U64("epoch"))
	validators := keys.PublicKeys{c35key(77)}
	vrt.Observe("ownBytes", own.Bytes())
	vrt.Observe("irIndex", s.InnerRingIndex())
	err := s.voteForFSChainValidator(context.Background(), validators, nil)
	_ = err
	member := !lookupFails && pos < nIR && pos < nContracts
	if len(calls) > 0 {
		vrt.Assert(member, "validator votes are sent only by a node whose index is inside the alphabet range")
		vrt.Assert(len(calls) == nContracts, "one vote per alphabet contract")
		vrt.Reach("voted")
	} else {
		vrt.Assert(!member, "an alphabet member votes for the configured validators")
		vrt.Reach("silent")
	}
}
