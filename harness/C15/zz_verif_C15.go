//go:build verif

package shard

import (
	"errors"

	"github.com/nspcc-dev/neofs-node/internal/vrt"
	"github.com/nspcc-dev/neofs-node/pkg/local_object_storage/blobstor/common"
	meta "github.com/nspcc-dev/neofs-node/pkg/local_object_storage/metabase"
	"github.com/nspcc-dev/neofs-node/pkg/local_object_storage/shard/mode"
	"github.com/nspcc-dev/neofs-node/pkg/local_object_storage/writecache"
	apistatus "github.com/nspcc-dev/neofs-sdk-go/client/status"
	"github.com/nspcc-dev/neofs-sdk-go/object"
	oid "github.com/nspcc-dev/neofs-sdk-go/object/id"
	"go.uber.org/zap"
)

// component models with crash points before and after every call, and
// injectable failures
var c15 struct {
	blob, wc map[oid.Address]bool
}

type c15blob struct{ common.Storage }

func (c15blob) Put(a oid.Address, _ []byte) error {
	vrt.Crash("before blob put")
	if vrt.Bool("blobPutFails") {
		return errors.New("disk error")
	}
	c15.blob[a] = true
	vrt.Crash("after blob put")
	return nil
}
func (c15blob) Delete(a oid.Address) error {
	vrt.Crash("before blob delete")
	if !c15.blob[a] {
		return apistatus.ErrObjectNotFound
	}
	delete(c15.blob, a)
	vrt.Crash("after blob delete")
	return nil
}
func (c15blob) Type() string { return "model" }

type c15wc struct{ writecache.Cache }

func (c15wc) Put(a oid.Address, _ *object.Object, _ []byte) error {
	vrt.Crash("before cache put")
	if vrt.Bool("cachePutFails") {
		return writecache.ErrOutOfSpace
	}
	c15.wc[a] = true
	vrt.Crash("after cache put")
	return nil
}
func (c15wc) Delete(a oid.Address) error {
	vrt.Crash("before cache delete")
	if !c15.wc[a] {
		return apistatus.ErrObjectNotFound
	}
	delete(c15.wc, a)
	vrt.Crash("after cache delete")
	return nil
}

func c15shard(db *meta.DB, withCache bool) *Shard {
	s := &Shard{cfg: &cfg{log: zap.NewNop(), rmBatchSize: 10, useWriteCache: withCache}, gc: &gc{}, metaBase: db, writeCache: c15wc{}}
	s.blobStor = c15blob{}
	s.info.Mode = mode.ReadWrite
	return s
}

// c15invariant: after a (possible) crash every object the metadata reports as
// available is readable from the blob storage or the write-cache.
func c15invariant(db *meta.DB, ids ...byte) {
	for _, id := range ids {
		a := meta.VerifAddr(0, id)
		ok, err := db.Exists(a, false)
		if ok && err == nil {
			vrt.Assert(c15.blob[a] || c15.wc[a], "an object the metadata lists as available is readable after the crash")
		}
	}
}

// VerifC15Put: a shard put (with and without write-cache, failing cache / disk /
// metabase) stopped at any point.
func VerifC15Put() {
	c15.blob, c15.wc = map[oid.Address]bool{}, map[oid.Address]bool{}
	db := meta.VerifNewModelDB(&meta.VerifEpoch{E: 3})
	s := c15shard(db, vrt.Bool("withWriteCache"))
	obj := meta.VerifObj(0, 1, object.TypeRegular, -1, 3)
	if vrt.Bool("objectRejectedByMetabase") {
		// a tombstone already aims at the object: the metabase refuses it
		ts := meta.VerifObj(0, 2, object.TypeTombstone, 50, 0)
		ts.AssociateDeleted(meta.VerifOID(1))
		_ = db.Put(ts)
	}
	var err error
	crashed := vrt.Run(func() { err = s.Put(obj, []byte{1}) })
	c15invariant(db, 1)
	if !crashed && err == nil {
		a := meta.VerifAddr(0, 1)
		vrt.Assert(c15.blob[a] || c15.wc[a], "a successful put left the object readable")
		vrt.Reach("stored")
	}
	if crashed {
		vrt.Reach("crashed")
	}
}

// VerifC15Delete: a forced shard deletion of an available object (data in the
// write-cache, in the blob storage or in both) stopped at any point.
func VerifC15Delete() {
	c15.blob, c15.wc = map[oid.Address]bool{}, map[oid.Address]bool{}
	db := meta.VerifNewModelDB(&meta.VerifEpoch{E: 3})
	s := c15shard(db, true)
	a := meta.VerifAddr(0, 1)
	_ = db.Put(meta.VerifObj(0, 1, object.TypeRegular, -1, 3))
	where := ""
	switch vrt.Choice("dataLocation", 3) {
	case 0:
		c15.wc[a] = true
		where = "data only in the write-cache"
	case 1:
		c15.blob[a] = true
		where = "data in the blob storage"
	case 2:
		c15.wc[a], c15.blob[a] = true, true
		where = "data in the write-cache and in the blob storage"
	}
	marked := vrt.Bool("objectIsGarbageMarked")
	if marked {
		_, _ = db.MarkGarbage(meta.VerifCID(0), []oid.ID{meta.VerifOID(1)}, meta.GarbageMarkDefault)
	}
	crashed := vrt.Run(func() { _ = s.Delete(meta.VerifCID(0), []oid.ID{meta.VerifOID(1)}) })
	if marked {
		c15invariant(db, 1)
	} else {
		ok, err := db.Exists(a, false)
		if ok && err == nil {
			vrt.Assert(c15.blob[a] || c15.wc[a], "forced deletion of an available object ("+where+"): metadata never outlives the data across a crash")
		}
	}
	if crashed {
		vrt.Reach("crashed")
	} else {
		vrt.Assert(!c15.blob[a] && !c15.wc[a], "a completed deletion removed the data")
		vrt.Reach("deleted")
	}
}
