//go:build verif

package putsvc

import (
	"context"
	"crypto/sha256"
	"errors"
	"math"

	"github.com/nspcc-dev/neofs-node/internal/vrt"
	objectcore "github.com/nspcc-dev/neofs-node/pkg/core/object"
	"github.com/nspcc-dev/neofs-sdk-go/checksum"
	cid "github.com/nspcc-dev/neofs-sdk-go/container/id"
	"github.com/nspcc-dev/neofs-sdk-go/object"
	oid "github.com/nspcc-dev/neofs-sdk-go/object/id"
	"github.com/nspcc-dev/neofs-sdk-go/user"
	"go.uber.org/zap"
)

// c24next is the rest of the PUT pipeline behind the validating target.
type c24next struct {
	got        []byte
	writes     int
	failAt     int // the write with this number fails (0 = none)
	failed     bool
	headerSeen bool
	closed     bool
}

func (n *c24next) WriteHeader(o *object.Object) error {
	n.headerSeen = true
	n.got = append(n.got, o.Payload()...)
	return nil
}
func (n *c24next) Write(p []byte) (int, error) {
	n.writes++
	if n.writes == n.failAt {
		n.failed = true
		return 0, errors.New("storing the chunk failed")
	}
	n.got = append(n.got, p...)
	return len(p), nil
}
func (n *c24next) Close() (oid.ID, error) { n.closed = true; return oid.ID{1}, nil }

type c24quota struct{ hard uint64 }

func (q c24quota) AvailableQuotasLeft(cid.ID, user.ID) (uint64, uint64, error) {
	return math.MaxUint64, q.hard, nil
}

// VerifC24Streaming: an object streamed through the validating target in
// arbitrary chunking (up to two chunks after the header):
// payload of 0..4 arbitrary bytes, arbitrary declared length and SHA-256
// checksum, prepared or to-be-sliced, the rest of the pipeline failing at an
// arbitrary chunk. The stream ends successfully only if the header passed
// format validation, the declared length and checksum match the streamed bytes
// (for prepared objects), and exactly the streamed bytes reached the rest of
// the pipeline.
func VerifC24Streaming() {
	l := vrt.Choice("payloadLength", 5)
	payload := vrt.Bytes("payload", l)
	declared := uint64(vrt.IntRange("declaredPayloadLength", 0, 6))
	// the declared checksum is the payload's SHA-256 or differs from it in one
	// bit (SHA-256 is an uninterpreted function for the solver: a freely chosen
	// checksum that "happens to match" could not be replayed against the real code)
	cs := sha256.Sum256(payload)
	if !vrt.Bool("declaredChecksumIsThePayloadHash") {
		cs[0] ^= 1
	}
	unprepared := vrt.Bool("objectToBeSlicedByTheNode")
	formatOK := vrt.Bool("headerPassesFormatValidation")
	asked := 0
	objectcore.VerifHookValidate = func(o *object.Object, unp bool) error {
		asked++
		vrt.Assert(unp == unprepared, "format validation is told whether the object is prepared")
		if !formatOK {
			return errors.New("invalid header")
		}
		return nil
	}
	next := &c24next{failAt: vrt.Choice("pipelineFailsAtChunk", 3)}
	t := &validatingTarget{
		l: zap.NewNop(), ctx: context.Background(), nextTarget: next, fmt: new(objectcore.FormatValidator),
		unpreparedObject: unprepared, quotaLimiter: c24quota{hard: math.MaxUint64}, maxPayloadSz: 1 << 20,
	}
	var obj object.Object
	obj.SetContainerID(cid.ID{1})
	obj.SetOwner(user.ID{0x35, 1})
	obj.SetPayloadSize(declared)
	obj.SetPayloadChecksum(checksum.NewSHA256(cs))
	// every caller hands the header over without payload (the gRPC init message
	// carries none, the delete service cuts it): all payload bytes arrive as chunks
	c0 := 0
	obj.SetPayload(payload[:c0])
	rest := payload[c0:]
	var chunks [][]byte
	if len(rest) > 0 {
		cut := vrt.Choice("secondChunkStartsAt", len(rest)+1)
		if cut > 0 {
			chunks = append(chunks, rest[:cut])
		}
		if cut < len(rest) {
			chunks = append(chunks, rest[cut:])
		}
	}
	ok := t.WriteHeader(&obj) == nil
	for _, c := range chunks {
		if !ok {
			break
		}
		_, err := t.Write(c)
		ok = err == nil
	}
	if ok {
		_, err := t.Close()
		ok = err == nil
	}
	if !ok {
		vrt.Reach("refused")
		return
	}
	vrt.Assert(asked == 1 && formatOK, "an object is stored only if its header passed format validation")
	if !unprepared {
		vrt.Assert(declared == uint64(l), "an object is stored only if its payload has the declared length")
		want := sha256.Sum256(payload)
		vrt.Assert(cs == want, "an object is stored only if its payload matches the declared checksum")
	}
	vrt.Assert(!next.failed, "a failure of the pipeline behind the validator ends the stream with an error")
	same := len(next.got) == l
	for i := 0; same && i < l; i++ {
		same = next.got[i] == payload[i]
	}
	vrt.Assert(same, "exactly the streamed bytes reach the rest of the pipeline")
	vrt.Reach("stored")
}

type c24store struct{ puts int }

func (s *c24store) Put(context.Context, *object.Object, []byte) error   { s.puts++; return nil }
func (s *c24store) IsLocked(context.Context, oid.Address) (bool, error) { return false, nil }

type c24max struct{ v uint64 }

func (m c24max) MaxObjectSize() uint64 { return m.v }

// VerifC24Replicated: an object received whole (replication): it is stored
// only if it names a container, carries a SHA-256 checksum, its payload has the
// declared length (within the network limit) and hashes to the declared
// checksum, and its header and content passed validation. Payload of 0..4
// symbolic bytes, symbolic declared length, checksum and limit.
func VerifC24Replicated() {
	l := vrt.Choice("payloadLength", 5)
	payload := vrt.Bytes("payload", l)
	declared := uint64(vrt.IntRange("declaredPayloadLength", 0, 6))
	// the declared checksum is the payload's SHA-256 or differs from it in one
	// bit (SHA-256 is an uninterpreted function for the solver: a freely chosen
	// checksum that "happens to match" could not be replayed against the real code)
	cs := sha256.Sum256(payload)
	if !vrt.Bool("declaredChecksumIsThePayloadHash") {
		cs[0] ^= 1
	}
	formatOK, contentOK := vrt.Bool("headerPassesFormatValidation"), vrt.Bool("contentPassesValidation")
	objectcore.VerifHookValidate = func(*object.Object, bool) error {
		if !formatOK {
			return errors.New("invalid header")
		}
		return nil
	}
	objectcore.VerifHookValidateContent = func(*object.Object) error {
		if !contentOK {
			return errors.New("invalid content")
		}
		return nil
	}
	st := new(c24store)
	limit := uint64(vrt.IntRange("networkSizeLimit", 0, 6))
	p := &Service{cfg: &cfg{maxSizeSrc: c24max{limit}, localStore: st, fmtValidator: new(objectcore.FormatValidator)}}
	var obj object.Object
	withCnr := vrt.Bool("containerSet")
	if withCnr {
		obj.SetContainerID(cid.ID{1})
	}
	obj.SetOwner(user.ID{0x35, 1})
	obj.SetPayloadSize(declared)
	csKind := vrt.Choice("checksumKind", 3) // 0 none, 1 SHA-256, 2 Tillich-Zemor
	switch csKind {
	case 1:
		obj.SetPayloadChecksum(checksum.NewSHA256(cs))
	case 2:
		obj.SetPayloadChecksum(checksum.New(checksum.TillichZemor, make([]byte, 64)))
	}
	obj.SetPayload(payload)
	err := p.ValidateAndStoreObjectLocally(context.Background(), obj)
	if err != nil {
		vrt.Assert(st.puts == 0, "a refused object is not stored")
		vrt.Reach("refused")
		return
	}
	vrt.Assert(st.puts == 1, "an accepted object is stored once")
	vrt.Assert(withCnr && csKind == 1, "an object without container or SHA-256 checksum is never stored")
	vrt.Assert(declared == uint64(l) && declared <= limit && limit != 0, "an object is stored only if its payload has the declared length within the network limit")
	want := sha256.Sum256(payload)
	vrt.Assert(cs == want, "an object is stored only if its payload matches the declared checksum")
	vrt.Assert(formatOK && contentOK, "an object is stored only if header and content passed validation")
	vrt.Reach("stored")
}
