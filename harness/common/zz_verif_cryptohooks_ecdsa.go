//go:build verif

package neofsecdsa

import "crypto/ecdsa"

// Hooks modelling public key decoding and signature verification of the three
// ECDSA schemes as verdicts (elliptic-curve arithmetic is outside the encoder's
// reach). The real methods are renamed to <name>__real.
var (
	VerifHookDecode func(x *PublicKey, data []byte) error
	// VerifHookDecodeAny / VerifHookVerifyAny serve all three key types; scheme is 0 (SHA512), 1 (RFC6979), 2 (WalletConnect).
	VerifHookDecodeAny func(scheme int, data []byte) error
	VerifHookVerifyAny func(scheme int, data, signature []byte) bool
	// VerifHookVerifyKey additionally receives the key the verification runs with.
	VerifHookVerifyKey func(scheme int, pub ecdsa.PublicKey, data, signature []byte) bool
)

func (x *PublicKey) Decode(data []byte) error {
	if h := VerifHookDecode; h != nil {
		return h(x, data)
	}
	if h := VerifHookDecodeAny; h != nil {
		return h(0, data)
	}
	return x.Decode__real(data)
}

func (x PublicKey) Verify(data, signature []byte) bool {
	if h := VerifHookVerifyKey; h != nil {
		return h(0, ecdsa.PublicKey(x), data, signature)
	}
	if h := VerifHookVerifyAny; h != nil {
		return h(0, data, signature)
	}
	return x.Verify__real(data, signature)
}

func (x *PublicKeyRFC6979) Decode(data []byte) error {
	if h := VerifHookDecodeAny; h != nil {
		return h(1, data)
	}
	return x.Decode__real(data)
}

func (x PublicKeyRFC6979) Verify(data, signature []byte) bool {
	if h := VerifHookVerifyKey; h != nil {
		return h(1, ecdsa.PublicKey(x), data, signature)
	}
	if h := VerifHookVerifyAny; h != nil {
		return h(1, data, signature)
	}
	return x.Verify__real(data, signature)
}

func (x *PublicKeyWalletConnect) Decode(data []byte) error {
	if h := VerifHookDecodeAny; h != nil {
		return h(2, data)
	}
	return x.Decode__real(data)
}

func (x PublicKeyWalletConnect) Verify(data, signature []byte) bool {
	if h := VerifHookVerifyKey; h != nil {
		return h(2, ecdsa.PublicKey(x), data, signature)
	}
	if h := VerifHookVerifyAny; h != nil {
		return h(2, data, signature)
	}
	return x.Verify__real(data, signature)
}
