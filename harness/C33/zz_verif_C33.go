//go:build verif

package crypto

import (
	"context"
	"errors"

	"github.com/nspcc-dev/neofs-node/internal/vrt"
	"github.com/nspcc-dev/neofs-node/pkg/network/peerauth"
	protoobject "github.com/nspcc-dev/neofs-sdk-go/proto/object"
	protosession "github.com/nspcc-dev/neofs-sdk-go/proto/session"
)

type c33chain struct{}

func (c33chain) InvokeContainedScript(any, any, any) (any, error) { return nil, nil }

// VerifC33Exemption: a request is treated as authentic only if its signature
// chain verifies, except the one-hop request (TTL = 1, no verification header)
// from an authenticated peer connection. TTL is a symbolic 32-bit value.
func VerifC33Exemption() {
	chainOK := vrt.Bool("chainVerifies")
	trusted := vrt.Bool("peerAuthenticated")
	asked := 0
	VerifHookChain = func() error {
		asked++
		if !chainOK {
			return errors.New("invalid signature")
		}
		return nil
	}
	peerauth.VerifHookTrusted = func() bool { return trusted }
	req := new(protoobject.HeadRequest)
	withMeta := vrt.Bool("metaHeaderPresent")
	ttl := vrt.U32("ttl")
	if withMeta {
		req.MetaHeader = &protosession.RequestMetaHeader{Ttl: ttl}
	}
	withVerify := vrt.Bool("verificationHeaderPresent")
	if withVerify {
		req.VerifyHeader = new(protosession.RequestVerificationHeader)
	}
	var err error
	if vrt.Bool("withContextVariant") {
		err = VerifyRequestSignaturesWithContext(context.Background(), req)
	} else {
		err = VerifyRequestSignatures(req)
		trusted = false // the plain variant knows no exemption
	}
	exempt := trusted && withMeta && ttl == 1 && !withVerify
	if err == nil {
		vrt.Assert(chainOK && asked == 1 || exempt, "accepted only if the whole chain verifies, or for the one-hop request of an authenticated peer")
		vrt.Reach("accepted")
	} else {
		vrt.Assert(!chainOK, "a request whose chain verifies is accepted")
		vrt.Reach("rejected")
	}
	if exempt {
		vrt.Reach("exempt")
	}
	VerifHookChain, peerauth.VerifHookTrusted = nil, nil
}
