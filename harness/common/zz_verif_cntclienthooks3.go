//go:build verif

package container

import (
	containerrpc "github.com/nspcc-dev/neofs-contract/rpc/container"
	"github.com/nspcc-dev/neofs-sdk-go/container"
)

// VerifHookFromStruct replaces the conversion of the contract's container
// structure (it decodes the storage policy with reflection-based protobuf) by
// a model codec. The real function is renamed to ContainerFromStruct__real.
var VerifHookFromStruct func(containerrpc.ContainerInfo) (container.Container, error)

func ContainerFromStruct(s containerrpc.ContainerInfo) (container.Container, error) {
	if h := VerifHookFromStruct; h != nil {
		return h(s)
	}
	return ContainerFromStruct__real(s)
}
