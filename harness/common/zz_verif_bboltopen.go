//go:build verif

package bbolt

import "os"

// VerifHookOpen, when set, replaces Open (the real one is renamed to
// Open__real): harnesses that execute code which reopens its database decide
// whether the open succeeds and which model contents the new handle serves.
var VerifHookOpen func(path string, options *Options) (*DB, error)

func Open(path string, mode os.FileMode, options *Options) (*DB, error) {
	if h := VerifHookOpen; h != nil {
		return h(path, options)
	}
	return Open__real(path, mode, options)
}

// VerifReopen returns a new handle that serves the same model contents as db
// (the "file"), read-only or not.
func VerifReopen(db *DB, readOnly bool) *DB {
	v := verifDBs[db]
	n := &DB{}
	verifDBs[n] = &vDB{root: v.root, readOnly: readOnly}
	return n
}

// VerifIsModel reports whether db is a handle served by the model.
func VerifIsModel(db *DB) bool { return db != nil && verifDBs[db] != nil }
