//go:build verif

package util

import (
	"crypto/ecdsa"

	sdkcrypto "github.com/nspcc-dev/neofs-sdk-go/crypto"
	protosession "github.com/nspcc-dev/neofs-sdk-go/proto/session"
)

// VerifNoSign makes response signing a no-op (ECDSA signing is outside the
// encoder's reach and irrelevant to the checked properties).
var VerifNoSign bool

func SignResponse[R sdkcrypto.ProtoMessage](signer *ecdsa.PrivateKey, r sdkcrypto.SignedResponse[R]) *protosession.ResponseVerificationHeader {
	if VerifNoSign {
		return nil
	}
	return SignResponse__real(signer, r)
}
