//go:build verif

package precision

import (
	"math/big"
	"strconv"

	"github.com/nspcc-dev/neofs-node/internal/vrt"
)

func pow10(k int) *big.Int {
	r := big.NewInt(1)
	for i := 0; i < k; i++ {
		r.Mul(r, big.NewInt(10))
	}
	return r
}

const maxAmount = 1 << 53 // supported range of amounts (JSON bound)

// VerifC39Fixed8: Fixed8Converter for every balance precision 0..18 and every
// amount -2^53 < n < 2^53 (the amount is a 64-bit symbolic word; math/big is
// modelled in the integer theory, Int64() as two's-complement truncation).
func VerifC39Fixed8() {
	p := vrt.Choice("precision", 19)
	ps := strconv.Itoa(p)
	n := vrt.I64("n")
	vrt.Assume(n > -maxAmount && n < maxAmount)
	c := NewConverter(uint32(p))
	b := c.ToBalancePrecision(n)

	// exact mathematical result of the up/down conversion
	var exact *big.Int
	if p >= 8 {
		exact = new(big.Int).Mul(big.NewInt(n), pow10(p-8))
	} else {
		exact = new(big.Int).Div(big.NewInt(n), pow10(8-p))
	}
	fits := exact.IsInt64()
	if fits {
		vrt.Assert(big.NewInt(b).Cmp(exact) == 0, "ToBalancePrecision is exact whenever the result fits int64, p="+ps)
		back := c.ToFixed8(b)
		vrt.Assert(back <= n, "round trip never creates value, p="+ps)
		vrt.Assert(n < 0 || back >= 0, "round trip keeps the sign, p="+ps)
		vrt.Assert(n >= 0 || back < 0, "round trip keeps the sign of a negative amount, p="+ps)
		if p >= 8 {
			vrt.Assert(back == n, "round trip is exact when the target precision is at least the source precision, p="+ps)
		} else {
			// loses at most the digits below the target precision
			lost := new(big.Int).Sub(big.NewInt(n), big.NewInt(back))
			vrt.Assert(lost.Cmp(pow10(8-p)) < 0, "round trip loses less than one target unit, p="+ps)
		}
	}
	vrt.Assert(fits, "amounts below 2^53 never overflow int64 in ToBalancePrecision, p="+ps)
	vrt.Assert(n < 0 || b >= 0, "ToBalancePrecision never changes sign for amounts below 2^53, p="+ps)
	vrt.Assert(n >= 0 || b < 0, "ToBalancePrecision never changes the sign of a negative amount, p="+ps)
	vrt.Reach("end")
}

// VerifC39ToFixed8: the reverse direction on its own, balance amount below 2^53.
func VerifC39ToFixed8() {
	p := vrt.Choice("precision", 19)
	ps := strconv.Itoa(p)
	n := vrt.I64("n")
	vrt.Assume(n >= 0 && n < maxAmount)
	c := NewConverter(uint32(p))
	f := c.ToFixed8(n)
	var exact *big.Int
	if p > 8 {
		exact = new(big.Int).Div(big.NewInt(n), pow10(p-8))
	} else {
		exact = new(big.Int).Mul(big.NewInt(n), pow10(8-p))
	}
	if exact.IsInt64() {
		vrt.Assert(big.NewInt(f).Cmp(exact) == 0, "ToFixed8 is exact whenever the result fits int64, p="+ps)
	}
	vrt.Assert(exact.IsInt64(), "amounts below 2^53 never overflow int64 in ToFixed8, p="+ps)
	vrt.Assert(f >= 0, "ToFixed8 never changes sign for amounts below 2^53, p="+ps)
	vrt.Reach("end")
}

// VerifC39Convert: the generic Convert helper (big.Int in, big.Int out) is
// exact in both directions for every pair of precisions 0..18.
func VerifC39Convert() {
	from := vrt.Choice("from", 19)
	to := vrt.Choice("to", 19)
	n := vrt.I64("n")
	vrt.Assume(n >= 0 && n < maxAmount)
	r := Convert(uint32(from), uint32(to), big.NewInt(n))
	var exact *big.Int
	if to >= from {
		exact = new(big.Int).Mul(big.NewInt(n), pow10(to-from))
	} else {
		exact = new(big.Int).Div(big.NewInt(n), pow10(from-to))
	}
	vrt.Assert(r.Cmp(exact) == 0, "Convert is exact")
	vrt.Reach("end")
}
