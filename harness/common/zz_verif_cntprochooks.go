//go:build verif

package container

import (
	nnscore "github.com/nspcc-dev/neofs-node/pkg/core/nns"
)

// VerifNewProcessor builds a Processor from its parameters without the worker pool.
func VerifNewProcessor(p *Params) *Processor {
	return &Processor{
		log:           p.Log,
		alphabetState: p.AlphabetState,
		cnrClient:     p.ContainerClient,
		netState:      p.NetworkState,
		metaClient:    p.MetaClient,
		metaEnabled:   p.MetaEnabled,
		allowEC:       p.AllowEC,
		chainTime:     p.ChainTime,
		resolver:      nnscore.NewResolver(p.ContainerClient.Morph()),
	}
}
