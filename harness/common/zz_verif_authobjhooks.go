//go:build verif

package crypto

import (
	isessions "github.com/nspcc-dev/neofs-node/internal/sessions"
	"github.com/nspcc-dev/neofs-sdk-go/object"
	sessionv2 "github.com/nspcc-dev/neofs-sdk-go/session/v2"
)

// VerifHookAuthObject, when set, replaces the authentication of an object
// (signature by the owner or a session/delegation chain: cryptography, decided
// by C24's own entry) by a verdict. The real function is renamed to
// AuthenticateObject__real.
var VerifHookAuthObject func(obj object.Object) error

func AuthenticateObject(obj object.Object, fsChain HistoricN3ScriptRunner, sTokenCache *isessions.ObjectSessionsCache, resolver sessionv2.NNSResolver) error {
	if h := VerifHookAuthObject; h != nil {
		return h(obj)
	}
	return AuthenticateObject__real(obj, fsChain, sTokenCache, resolver)
}
